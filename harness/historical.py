"""Historical evaluation offline (C10, historical clause): a scratch working directory with local config/ and data/
trees, the recording fake S3 of harness.synth, and HistoricalModelClient.get_historical_evaluation run three times:
with the historical results as they are, with the results of NOT-YET-REPORTING units changed (must not matter) and
with the results of a reporting unit changed (must matter: non-vacuity)."""
import hashlib
import json
import os
import shutil
import tempfile

import numpy as np
import pandas as pd

from harness import synth

HIST = "2095-11-03_USA_G"


def _digest(obj):
    h = hashlib.sha1()
    if isinstance(obj, dict):
        for k in sorted(obj, key=str):
            h.update(str(k).encode())
            h.update(_digest(obj[k]).encode())
    elif isinstance(obj, pd.DataFrame):
        h.update("|".join(map(str, obj.columns)).encode())
        for col in obj.columns:
            for v in obj[col].tolist():
                h.update((float(v).hex() if isinstance(v, (float, np.floating)) else str(v)).encode())
    elif isinstance(obj, (float, np.floating)):
        h.update(float(obj).hex().encode())
    else:
        h.update(str(obj).encode())
    return h.hexdigest()[:16]


def record(seed, estimator="nonparametric"):
    from elexmodel.client import HistoricalModelClient

    rnd = np.random.default_rng(seed)
    pre, cur = synth.make_election(n=40, states=("AA", "BB"), seed=seed, frac_reporting=0.7, thr=100)
    pre = synth.with_margin_features(pre)
    # several estimands: the hidden results of EVERY requested estimand must be invisible, whatever their order
    est = ("margin",) if estimator == "bootstrap" else [("turnout",), ("turnout", "dem"), ("dem", "turnout"), ("dem",)][seed % 4]
    feats = ["baseline_normalized_margin", "x1"] if estimator == "bootstrap" else ["x1"]
    # the historical election: same units, baseline_* = results of the election before it, results_* = its own results
    hist = pre.copy()
    for c in ("turnout", "dem", "gop"):
        hist[f"results_{c}"] = (hist[f"baseline_{c}"] * rnd.uniform(0.8, 1.2, len(hist))).round().astype(int)
    hist["results_turnout"] = np.maximum(hist["results_turnout"], hist["results_dem"] + hist["results_gop"])
    for c in ("turnout", "dem", "gop"):
        hist[f"results_{c}"] = hist[f"results_{c}"].astype(float)  # one dtype in every variant (one of them has a missing value)
    nonrep = cur[cur.percent_expected_vote < 100].geographic_unit_fips.tolist()
    rep = cur[cur.percent_expected_vote >= 100].geographic_unit_fips.tolist()
    variants = {"tok0": hist}
    h1 = hist.copy()
    m = h1.geographic_unit_fips.isin(nonrep)
    for c in ("turnout", "dem", "gop"):
        h1.loc[m, f"results_{c}"] = (h1.loc[m, f"results_{c}"] * 3 + 17).astype(int)
    if seed % 2 == 0 and nonrep:
        # ... and one of them has no recorded historical result at all (hidden is hidden: seeded change C10_H)
        for c in ("turnout", "dem", "gop"):
            h1[f"results_{c}"] = h1[f"results_{c}"].astype(float)
            h1.loc[h1.geographic_unit_fips == nonrep[0], f"results_{c}"] = float("nan")
    variants["tok1"] = h1
    h2 = hist.copy()
    m2 = h2.geographic_unit_fips.isin(rep[:3])
    for c in ("turnout", "dem", "gop"):
        h2.loc[m2, f"results_{c}"] = (h2.loc[m2, f"results_{c}"] * 2 + 5).astype(int)
    variants["tok2"] = h2
    out = {"kind": "historical", "estimator": estimator, "ok": True, "n_hidden": len(nonrep)}
    cwd = os.getcwd()
    for name, frame in variants.items():
        d = tempfile.mkdtemp(prefix="verif_hist_")
        try:
            os.makedirs(f"{d}/config")
            os.makedirs(f"{d}/data/{HIST}/G")
            cfg = synth.config("G", ("AA", "BB"), features=tuple(feats), historical=(HIST,))
            with open(f"{d}/config/{synth.EID}.json", "w") as f:
                json.dump(cfg, f)
            with open(f"{d}/config/{HIST}.json", "w") as f:
                json.dump(synth.config("G", ("AA", "BB"), features=tuple(feats), eid=HIST), f)
            frame.to_csv(f"{d}/data/{HIST}/G/data_precinct.csv", index=False)
            os.chdir(d)
            c = HistoricalModelClient()
            # every third run keeps the default outlier models on; with `dem` alone the historical turnout of the hidden
            # units is handed to the model un-hidden (only the requested estimands are blanked) - it must not matter either
            mp = {} if seed % 3 == 0 else {"fit_margin_outlier_model": False, "fit_turnout_outlier_model": False}
            if estimator == "bootstrap":
                mp["B"] = 10
            res = c.get_historical_evaluation(
                cur.copy(), synth.EID, "G", list(est), [0.7, 0.9], 100, "precinct",
                aggregates=["postal_code", "county_fips"], pi_method=estimator, save_output=[], model_parameters=mp, features=feats,
            )
            out[name] = _digest({k: v["estimates"] for k, v in res.items()})
        except Exception as e:  # noqa: BLE001
            out["ok"] = False
            out[name] = f"raised {type(e).__name__}: {str(e)[:200]}"
        finally:
            os.chdir(cwd)
            shutil.rmtree(d, ignore_errors=True)
    return out
