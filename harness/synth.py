"""Synthetic elections for driving the real elexmodel client offline.

Importing this module sets the environment the repository reads at import time and installs a recording
fake for boto3.client (so nothing can ever reach a network and every S3 put is observable).
Always import this before importing anything from elexmodel.
"""
import os
import sys
import warnings

REPO_SRC = os.environ.get("VERIF_REPO_SRC", "/repo/src")
if REPO_SRC not in sys.path:
    sys.path.insert(0, REPO_SRC)
os.environ.setdefault("APP_ENV", "local")
os.environ.setdefault("DATA_ENV", "dev")
os.environ.setdefault("MODEL_S3_BUCKET", "elex-models")
os.environ.setdefault("MODEL_S3_PATH_ROOT", "elex-models")
os.environ.setdefault("AWS_DEFAULT_REGION", "us-east-1")
os.environ.setdefault("AWS_ACCESS_KEY_ID", "x")
os.environ.setdefault("AWS_SECRET_ACCESS_KEY", "x")
os.environ.setdefault("AWS_EC2_METADATA_DISABLED", "true")

import logging  # noqa: E402

import boto3  # noqa: E402
import numpy as np  # noqa: E402
import pandas as pd  # noqa: E402

warnings.filterwarnings("ignore")

OBJECTS = {}  # Key -> text served by get_object
PUTS = []  # every put_object seen by the fake, in order: dict(Bucket, Key, ContentType, size)


class FakeS3:
    def put_object(self, **kw):
        body = kw.get("Body", "")
        PUTS.append(
            {"Bucket": kw.get("Bucket"), "Key": kw.get("Key"), "ContentType": kw.get("ContentType"), "size": len(body)}
        )
        return True

    def get_object(self, **kw):
        # an in-memory object store stands in for the transport (filled by a harness that needs stored files)
        key = kw.get("Key")
        if key in OBJECTS:
            import datetime
            import io

            return {"Body": io.BytesIO(OBJECTS[key].encode("utf-8")), "LastModified": datetime.datetime(2099, 11, 3)}
        raise RuntimeError("FakeS3.get_object: no such object in the verification sandbox: " + str(key))


_real_boto3_client = boto3.client


def _fake_client(name, *a, **k):
    return FakeS3()


boto3.client = _fake_client

logging.disable(logging.CRITICAL)

EID = "2099-11-03_USA_G"
ALL_AGGS = ["postal_code", "county_fips", "county_classification", "district", "unit"]
CLASSES = ["urban", "rural", "suburb"]


def config(office="G", states=("AA", "BB"), features=("x1", "x2", "baseline_normalized_margin"), eid=EID, historical=(), pointer=None):
    return {
        eid: [
            {
                "office": office,
                "states": list(states),
                "geographic_unit_types": ["county", "precinct", "county-district", "precinct-district"],
                "historical_election": list(historical),
                "features": list(features),
                "aggregates": list(ALL_AGGS),
                "fixed_effect": ["postal_code", "county_classification", "county_fips", "district"],
                "baseline_pointer": dict({"turnout": "turnout", "dem": "dem", "gop": "gop", "margin": "margin"}, **(pointer or {})),
            }
        ]
    }


def fips(county, i, district=None):
    s = f"{county}_{i:04d}"
    if district is not None:
        s = f"{district}_{s}"
    return s


def make_election(n=40, states=("AA", "BB"), seed=0, district=False, frac_reporting=1.0, n_per_county=4, thr=100):
    """A well-behaved random election: returns (preprocessed, current)."""
    rng = np.random.default_rng(seed)
    rows = []
    for i in range(n):
        st = states[i % len(states)]
        county = f"{st}{(i // n_per_county):03d}"
        d = str(i % 3)
        f = fips(county, i, d if district else None)
        bt = int(rng.integers(200, 3000))
        bd = int(bt * rng.uniform(0.2, 0.7))
        bg = bt - bd - int(bt * 0.03)
        rows.append(
            dict(
                postal_code=st,
                geographic_unit_fips=f,
                county_fips=county,
                geographic_unit_type="precinct",
                county_classification=CLASSES[i % 3],
                district=d,
                baseline_turnout=bt,
                baseline_dem=bd,
                baseline_gop=bg,
                x1=float(rng.normal()),
                x2=float(rng.normal()),
            )
        )
    pre = pd.DataFrame(rows)
    swing = rng.normal(0.05, 0.1, n)
    cur = pre[["postal_code", "geographic_unit_fips"]].copy()
    cur["results_turnout"] = np.maximum(0, (pre.baseline_turnout * (1 + swing))).round().astype(int)
    share = np.clip(pre.baseline_dem / pre.baseline_turnout + rng.normal(0, 0.04, n), 0.02, 0.95)
    cur["results_dem"] = (cur.results_turnout * share).round().astype(int)
    cur["results_gop"] = ((cur.results_turnout * 0.97).round().astype(int) - cur.results_dem).clip(lower=0)
    pev = np.full(n, 100)
    if frac_reporting < 1.0:
        k = int(round(n * (1 - frac_reporting)))
        idx = rng.choice(n, size=k, replace=False)
        pev[idx] = rng.integers(0, max(1, thr), size=k)
        part = pev[idx] / 100.0
        for c in ("results_turnout", "results_dem", "results_gop"):
            v = cur[c].to_numpy().copy()
            v[idx] = np.floor(v[idx] * part).astype(int)
            cur[c] = v
    cur["percent_expected_vote"] = pev
    return pre, cur


def run_client(
    pre,
    cur,
    estimands=("turnout",),
    office="G",
    pis=(0.7, 0.9),
    thr=100,
    gut="precinct",
    client=None,
    states=None,
    features=("x1",),
    eid=EID,
    **kw,
):
    from elexmodel.client import ModelClient

    c = client or ModelClient()
    kw.setdefault("save_output", [])
    kw.setdefault("aggregates", ["postal_code", "unit"])
    mp = dict(kw.pop("model_parameters", {}))
    mp.setdefault("fit_margin_outlier_model", False)
    mp.setdefault("fit_turnout_outlier_model", False)
    if states is None:
        states = sorted(set(pre.postal_code) | set(cur.postal_code))
    cfg = config(office, states, eid=eid)
    # copy_feed=False hands the caller's own frame to the client (a client that writes into it is then observable on
    # the caller's next poll)
    res = c.get_estimates(
        cur.copy() if kw.pop("copy_feed", True) else cur,
        eid,
        office,
        list(estimands),
        list(pis),
        thr,
        gut,
        raw_config=cfg,
        preprocessed_data=pre.copy(),
        model_parameters=mp,
        features=list(features),
        **kw,
    )
    return c, res


def with_margin_features(pre):
    """Add the baseline_normalized_margin feature the bootstrap estimator requires."""
    pre = pre.copy()
    pre["baseline_normalized_margin"] = (
        (pre.baseline_dem - pre.baseline_gop) / (pre.baseline_dem + pre.baseline_gop).replace(0, np.nan)
    ).fillna(0.0)
    return pre
