"""Run TLC on a module of /verif/spec and parse what it printed.

All checks use this one runner so that exit-code conventions are uniform:
  * TLC finds an invariant violation / property violation  -> result.violation is set
  * TLC crashes, times out or the spec does not parse       -> MachineryError (exit 2 upstream)
"""
import json
import os
import re
import shutil
import subprocess
import tempfile
import time

SPEC_DIR = os.path.join(os.path.dirname(os.path.dirname(os.path.abspath(__file__))), "spec")
JAR = "/opt/veriftools/tla/tla2tools.jar:/opt/veriftools/tla/CommunityModules-deps.jar"


class MachineryError(Exception):
    pass


class TLCResult:
    def __init__(self):
        self.returncode = None
        self.stdout = ""
        self.generated = 0
        self.distinct = 0
        self.depth = 0
        self.printed = []  # list of (tag, python value) for PrintT(<<tag, ToJson(v)>>)
        self.violation = None  # name of violated invariant / property / "deadlock" / "assert"
        self.error_trace = []  # raw text lines of the counterexample
        self.coverage = {}  # action name -> (distinct, generated)
        self.wall_s = 0.0
        self.postcondition_failed = False

    def action_counts(self):
        return {k: v[1] for k, v in self.coverage.items()}


_PRINT_RE = re.compile(r'^<<"([A-Za-z0-9_]+)", "(.*)">>$')
_STAT_RE = re.compile(r"^(\d+) states generated, (\d+) distinct states found")
_DEPTH_RE = re.compile(r"^The depth of the complete state graph search is (\d+)")
_COV_RE = re.compile(r"^<(\w+) line \d+, col \d+ to line \d+, col \d+ of module (\w+)>: (\d+):(\d+)")
_INV_RE = re.compile(r"Invariant (\w+) is violated")
_PROP_RE = re.compile(r"Action property (\w+) is violated|Temporal properties were violated")
_SIM_STAT_RE = re.compile(r"^The number of states generated: (\d+)")


def _unescape_tla_string(s):
    # TLC prints a string value with \" and \\ escaped
    out = []
    i = 0
    while i < len(s):
        c = s[i]
        if c == "\\" and i + 1 < len(s):
            n = s[i + 1]
            if n == "n":
                out.append("\n")
            elif n == "t":
                out.append("\t")
            else:
                out.append(n)
            i += 2
        else:
            out.append(c)
            i += 1
    return "".join(out)


def run_tlc(
    module,
    cfg=None,
    workers=16,
    env=None,
    timeout=900,
    coverage=False,
    simulate=None,
    depth=None,
    seed=None,
    spec_dir=SPEC_DIR,
    dfs=False,
    extra=(),
    heap="6g",
    keep_stdout=True,
):
    """module: name without .tla (looked up in spec_dir). cfg: file name in spec_dir (default module.cfg)."""
    res = TLCResult()
    meta = tempfile.mkdtemp(prefix="tlcmeta_")
    cfg = cfg or module + ".cfg"
    cmd = ["java", "-XX:+UseParallelGC", f"-Xmx{heap}"]
    if dfs:
        cmd.append("-Dtlc2.tool.queue.IStateQueue=StateDeque")
    cmd += ["-cp", JAR, "tlc2.TLC", "-workers", str(workers), "-metadir", meta, "-noGenerateSpecTE", "-config", cfg]
    if coverage:
        cmd += ["-coverage", "1"]
    if simulate is not None:
        cmd += ["-simulate", simulate]
    if depth is not None:
        cmd += ["-depth", str(depth)]
    if seed is not None:
        cmd += ["-seed", str(seed)]
    cmd += list(extra)
    cmd.append(module + ".tla")
    e = dict(os.environ)
    e.pop("JAVA_TOOL_OPTIONS", None)
    if env:
        e.update({k: str(v) for k, v in env.items()})
    t0 = time.time()
    try:
        p = subprocess.run(cmd, cwd=spec_dir, env=e, capture_output=True, text=True, timeout=timeout)
    except subprocess.TimeoutExpired:
        shutil.rmtree(meta, ignore_errors=True)
        raise MachineryError(f"TLC timed out after {timeout}s on {module}/{cfg}")
    finally:
        pass
    shutil.rmtree(meta, ignore_errors=True)
    res.wall_s = time.time() - t0
    res.returncode = p.returncode
    out = p.stdout
    if keep_stdout:
        res.stdout = out
    in_trace = False
    for line in out.splitlines():
        m = _PRINT_RE.match(line)
        if m:
            try:
                res.printed.append((m.group(1), json.loads(_unescape_tla_string(m.group(2)))))
            except json.JSONDecodeError as ex:
                raise MachineryError(f"cannot parse TLC JSON line: {line[:200]} ({ex})")
            continue
        m = _STAT_RE.match(line)
        if m:
            res.generated, res.distinct = int(m.group(1)), int(m.group(2))
            continue
        m = _SIM_STAT_RE.match(line)
        if m:
            res.generated = int(m.group(1))
            continue
        m = _DEPTH_RE.match(line)
        if m:
            res.depth = int(m.group(1))
            continue
        m = _COV_RE.match(line)
        if m:
            res.coverage[m.group(1)] = (int(m.group(3)), int(m.group(4)))
            continue
        m = _INV_RE.search(line)
        if m:
            res.violation = m.group(1)
            in_trace = True
            continue
        m = _PROP_RE.search(line)
        if m:
            res.violation = m.group(1) or "temporal"
            in_trace = True
            continue
        if "Deadlock reached" in line:
            res.violation = "deadlock"
            in_trace = True
            continue
        if "The first argument of Assert evaluated to FALSE" in line or "Assertion failed" in line:
            res.violation = res.violation or "assert"
        if "postcondition" in line.lower() and ("violated" in line or "failed" in line or "false" in line.lower()):
            res.postcondition_failed = True
        if in_trace:
            res.error_trace.append(line)
    ok_end = "Model checking completed. No error has been found." in out or (
        simulate is not None and res.violation is None and p.returncode == 0
    )
    if res.violation is None and not res.postcondition_failed and not ok_end:
        lines = out.splitlines()
        errs = [i for i, l in enumerate(lines) if l.startswith("Error:") or "overflow" in l.lower()]
        ctx = "\n".join("\n".join(lines[i : i + 6]) for i in errs[:3])
        tail = "\n".join(lines[-12:])
        raise MachineryError(f"TLC did not complete on {module}/{cfg} (rc={p.returncode}):\n{ctx}\n...\n{tail}\n{p.stderr[-2000:]}")
    return res


def sany(module, spec_dir=SPEC_DIR):
    p = subprocess.run(
        ["java", "-cp", JAR, "tla2sany.SANY", module + ".tla"], cwd=spec_dir, capture_output=True, text=True, timeout=120
    )
    ok = p.returncode == 0 and "Semantic errors" not in p.stdout and "*** Errors" not in p.stdout and "Fatal" not in p.stdout
    return ok, p.stdout + p.stderr
