"""C09: replay of MC_Eligibility terminal states into the real CombinedDataHandler / Estimandizer (component level).

The numbers of every scenario unit are used as they are (no scaling): feed turnout t, dem = 3t div 4, gop = t div 4;
baseline likewise from bt; percent expected vote pev.  Many scenarios are packed into one get_units call (own states).
"""
import math
from fractions import Fraction

import numpy as np
import pandas as pd

from harness import synth  # noqa: F401  (environment first)


def dem(t):
    return (3 * t) // 4


def gop(t):
    return t // 4


def _st(p, s):
    return f"Q{p:03d}{s[-1]}"


def materialise(pack):
    brow, frow, ublock, sblock, ids = [], [], [], [], {}
    for p, sc in enumerate(pack):
        for s in sc["blockStates"]:
            sblock.append(_st(p, s))
        for idx, u in enumerate(sc["units"]):
            n = u["num"]
            fid = f"c1_Q{p:03d}u{idx + 1}"
            ids[(p, idx + 1)] = fid
            st = _st(p, n["st"])
            if n["pres"] != "feedOnly":
                brow.append(
                    dict(
                        postal_code=st,
                        geographic_unit_fips=fid,
                        county_fips="c1",
                        county_classification="k1",
                        district="d1",
                        baseline_turnout=n["bt"],
                        baseline_dem=dem(n["bt"]),
                        baseline_gop=gop(n["bt"]),
                    )
                )
                if u["blockUnit"]:
                    ublock.append(fid)
            if n["pres"] != "baseOnly":
                frow.append(
                    dict(
                        postal_code=st,
                        geographic_unit_fips=fid,
                        results_turnout=n["t"],
                        results_dem=dem(n["t"]),
                        results_gop=gop(n["t"]),
                        percent_expected_vote=n["pev"],
                    )
                )
    bcols = ["postal_code", "geographic_unit_fips", "county_fips", "county_classification", "district", "baseline_turnout", "baseline_dem", "baseline_gop"]
    fcols = ["postal_code", "geographic_unit_fips", "results_turnout", "results_dem", "results_gop", "percent_expected_vote"]
    pre = pd.DataFrame(brow, columns=bcols).astype({c: "int64" for c in bcols[5:]})
    cur = pd.DataFrame(frow, columns=fcols).astype({c: "int64" for c in fcols[2:]})
    return pre, cur, ublock, sblock, ids


def run_component(pack):
    """The client's own sequence of calls up to get_units, on the packed scenarios."""
    from elexmodel.handlers.data.CombinedData import CombinedDataHandler
    from elexmodel.handlers.data.Estimandizer import Estimandizer

    sc0 = pack[0]
    est = "margin" if sc0["isMargin"] else "turnout"
    pre, cur, ublock, sblock, ids = materialise(pack)
    pre = Estimandizer().add_estimand_baselines(pre, {est: est}, False)
    cdh = CombinedDataHandler(pre, cur, [est], "precinct", handle_unreporting=sc0["policy"])
    lim = sc0["limits"]
    lo = lim["loN"] / lim["loD"]
    hi = lim["hiN"] / lim["hiD"]
    R, N, X = cdh.get_units(sc0["thr"], lo, hi, ublock, sblock, False, False, 2.0, list(sc0["levels"]))
    return R, N, X, ids, est


class _Stop(Exception):
    pass


def run_component_client(pack):
    """The same scenarios through the PUBLIC client: get_estimates is run up to (and including) its get_units call, whose
    return value is captured by a run-time wrapper.  Decides that the request's limits, blocklists, threshold and policy
    reach the eligibility rules unchanged (a configured limit of exactly 0 included)."""
    from elexmodel.client import ModelClient
    from elexmodel.handlers.data.CombinedData import CombinedDataHandler

    sc0 = pack[0]
    est = "margin" if sc0["isMargin"] else "turnout"
    pre, cur, ublock, sblock, ids = materialise(pack)
    lim = sc0["limits"]
    states = sorted(set(pre.postal_code) | set(cur.postal_code))
    got = {}
    orig = CombinedDataHandler.get_units

    def spy(self_, *a, **k):
        got["frames"] = orig(self_, *a, **k)
        raise _Stop()

    CombinedDataHandler.get_units = spy
    mp_prev = {"fit_margin_outlier_model": False, "fit_turnout_outlier_model": False}
    try:
        if est == "turnout":
            # the caller's earlier request of the same poll: the margin of the same feed, handed the SAME feed frame object
            # (a caller that asks for the margin first and for the turnout next).  Which units feed the turnout model
            # follows from the turnout request alone - nothing the earlier run left in the caller's frame may count
            # (ClientHistory.tla, switch FeedCopied; seeded change C09_J)
            try:
                ModelClient().get_estimates(
                    cur, synth.EID, "G", ["margin"], [0.9], sc0["thr"], "precinct", raw_config=synth.config("G", states), preprocessed_data=pre.copy(),
                    aggregates=["postal_code", "unit"], save_output=[], handle_unreporting=sc0["policy"], pi_method="nonparametric", model_parameters=mp_prev,
                )
            except _Stop:
                pass
            got.clear()
        ModelClient().get_estimates(
            cur, synth.EID, "G", [est], [0.9], sc0["thr"], "precinct", raw_config=synth.config("G", states), preprocessed_data=pre,
            aggregates=list(sc0["levels"]) + ["unit"], save_output=[], handle_unreporting=sc0["policy"], pi_method="nonparametric",
            model_parameters={"turnout_factor_lower": lim["loN"] / lim["loD"], "turnout_factor_upper": lim["hiN"] / lim["hiD"],
                              "unit_blocklist": ublock, "postal_code_blocklist": sblock,
                              "fit_margin_outlier_model": False, "fit_turnout_outlier_model": False},
        )
    except _Stop:
        pass
    finally:
        CombinedDataHandler.get_units = orig
    R, N, X = got["frames"]
    return R, N, X, ids, est


def _close(x, frac):
    x = float(x)
    if math.isnan(x) or math.isinf(x):
        return False
    return abs(x - float(Fraction(frac[0], frac[1]))) <= 1e-12


def compare(pack, expects, R, N, X, ids, est):
    bad = []
    frames = {"R": R, "N": N, "X": X}
    where = {}
    for name, df in frames.items():
        for _, r in df.iterrows():
            where.setdefault(r["geographic_unit_fips"], []).append((name, r))
    for p, (sc, exp) in enumerate(zip(pack, expects)):
        for idx, (u, e) in enumerate(zip(sc["units"], exp)):
            fid = ids[(p, idx + 1)]
            got = where.get(fid, [])
            ctx = {"scenario": p, "unit": idx + 1, "num": u["num"], "policy": sc["policy"], "thr": sc["thr"], "limits": sc["limits"], "isMargin": sc["isMargin"]}
            if e["frame"] == "absent":
                if got:
                    bad.append(dict(ctx, clause="unit_should_be_absent", observed=[g[0] for g in got]))
                continue
            if len(got) != 1:
                bad.append(dict(ctx, clause="unit_exactly_once", expected=e["frame"], observed=[g[0] for g in got]))
                continue
            name, r = got[0]
            if name != e["frame"]:
                bad.append(dict(ctx, clause="frame", expected=e["frame"], observed=name))
            if str(r["unit_category"]) != e["cat"]:
                bad.append(dict(ctx, clause="category", expected=e["cat"], observed=str(r["unit_category"])))
            # derived quantities follow their definitions and are finite
            checks = []
            if name != "X" or u["inBase"]:
                checks.append(("turnout_factor", u["tf"]))
                checks.append(("baseline_weights", [u["bweights"], 1]))
            checks.append(("results_weights", [u["rweights"], 1]))
            if est == "margin":
                checks.append(("results_normalized_margin", u["nmargin"]))
                checks.append(("results_margin", [u["votes"], 1]))
            for col, fr in checks:
                if col not in r.index or not _close(r[col], fr):
                    bad.append(dict(ctx, clause=f"derived_{col}", expected=fr, observed=None if col not in r.index else float(r[col]), frame=name))
            rep_expected = 1 if e["frame"] == "R" else 0
            if int(r["reporting"]) != rep_expected:
                bad.append(dict(ctx, clause="reporting_flag", expected=rep_expected, observed=int(r["reporting"])))
    return bad


def job(arg):
    pack, expects = arg[0], arg[1]
    try:
        R, N, X, ids, est = run_component_client(pack) if (len(arg) > 2 and arg[2]) else run_component(pack)
    except Exception as e:  # noqa: BLE001
        import traceback

        return [{"clause": "get_units_raised", "exc": type(e).__name__, "msg": str(e)[:300], "tb": traceback.format_exc()[-1500:], "policy": pack[0]["policy"], "isMargin": pack[0]["isMargin"]}]
    return compare(pack, expects, R, N, X, ids, est)
