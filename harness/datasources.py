"""S05: where configuration and baseline data come from (DataSources.tla) - driver and recorder for the real client.

Every trace runs in its own scratch working directory (the handlers resolve `config/` and `data/` against the current
directory) against the recording S3 fake of harness.synth.  A run is stopped right where the combined data handler is
constructed (nothing after that point touches the stores modelled here), so a run costs a few milliseconds.
"""
import json
import os
import random
import shutil
import tempfile

from harness import synth

import pandas as pd  # noqa: E402

EID = synth.EID
OFFICE = "G"
CFG_KEY = f"elex-models-dev/{EID}/config/{EID}.json"
DATA_KEY = f"elex-models-dev/{EID}/data/{OFFICE}/data_precinct.csv"
IMPLIED = "baseline_normalized_margin"
STATE_SETS = (("AA",), ("AA", "BB"))
ALL_STATES = ("AA", "BB")


class _Stop(Exception):
    pass


def make_config(ver, states):
    c = synth.config(OFFICE, states)
    c[EID][0]["verif_version"] = ver
    return c


def describe_config(c):
    if not isinstance(c, dict) or EID not in c:  # not a configuration this driver wrote (e.g. an empty dictionary)
        return {"kind": "cfg", "ver": -1, "states": [], "extra": 0}
    sub = c[EID][0]
    return {"kind": "cfg", "ver": int(sub["verif_version"]), "states": list(sub["states"]), "extra": sub["features"].count(IMPLIED) - 1}


def make_data(ver, states):
    rows = []
    for st in states:
        for i in range(2):
            rows.append(
                dict(postal_code=st, geographic_unit_fips=f"{st}001_{i:04d}", county_fips=f"{st}001", geographic_unit_type="precinct",
                     county_classification="urban", district="1", baseline_turnout=100 + i, baseline_dem=40, baseline_gop=50, x1=0.5 + i, x2=1.0, ver=ver)
            )
    return pd.DataFrame(rows)


def describe_data(df):
    if df is None:
        return {"kind": "none"}
    vers = sorted(set(int(v) for v in df["ver"]))
    assert len(vers) == 1, f"mixed or empty data versions: {vers}"
    return {"kind": "data", "ver": vers[0], "states": sorted(set(df.postal_code)), "processed": "baseline_weights" in df.columns}


def current_feed():
    d = make_data(0, ALL_STATES)
    cur = d[["postal_code", "geographic_unit_fips"]].copy()
    cur["results_turnout"] = 90
    cur["results_dem"] = 40
    cur["results_gop"] = 45
    cur["percent_expected_vote"] = 100
    return cur


def _local_state(workdir):
    cpath = os.path.join(workdir, "config", f"{EID}.json")
    dpath = os.path.join(workdir, "data", EID, OFFICE, "data_precinct.csv")
    lc = {"kind": "none"}
    if os.path.isfile(cpath):
        with open(cpath) as f:
            lc = describe_config(json.load(f))
    ld = {"kind": "none"}
    if os.path.isfile(dpath):
        ld = describe_data(pd.read_csv(dpath, dtype={"geographic_unit_fips": str, "county_fips": str, "district": str}))
    return lc, ld


class Recorder:
    """Run-time wrappers (no source change): the configuration the run holds when it asks for the states, and the
    baseline frame handed to the combined data handler."""

    def __enter__(self):
        import elexmodel.client as client_mod
        from elexmodel.handlers.config import ConfigHandler

        self.client_mod = client_mod
        self.ConfigHandler = ConfigHandler
        self.orig_states = ConfigHandler.get_states
        self.orig_combined = client_mod.CombinedDataHandler
        self.seen_cfg = None
        self.seen_data = None
        rec = self

        def get_states(handler, office):
            rec.seen_cfg = describe_config(handler.config)
            return rec.orig_states(handler, office)

        def combined(preprocessed_data, *a, **k):
            rec.seen_data = describe_data(preprocessed_data)
            raise _Stop()

        ConfigHandler.get_states = get_states
        client_mod.CombinedDataHandler = combined
        return self

    def __exit__(self, *exc):
        self.ConfigHandler.get_states = self.orig_states
        self.client_mod.CombinedDataHandler = self.orig_combined
        return False


def run_events(events):
    """Execute a list of events (dicts with op and arguments) against the real code; returns the recorded trace."""
    from elexmodel.client import ModelClient

    old = os.getcwd()
    workdir = tempfile.mkdtemp(prefix="verif_ds_")
    synth.OBJECTS.clear()
    caller = make_config(1, ALL_STATES)
    out = []
    try:
        os.chdir(workdir)
        for e in events:
            e = dict(e)
            op = e["op"]
            if op == "publish_config":
                synth.OBJECTS[CFG_KEY] = json.dumps(make_config(e["ver"], e["states"]))
            elif op == "publish_data":
                synth.OBJECTS[DATA_KEY] = make_data(e["ver"], e["states"]).to_csv(index=False)
            elif op == "clean":
                for d in ("config", "data"):
                    shutil.rmtree(os.path.join(workdir, d), ignore_errors=True)
            elif op == "rebuild":
                caller = make_config(e["ver"], e["states"])
            elif op == "run":
                raw = {"none": None, "empty": {}, "own": caller}[e["cfgArg"]]
                pre = None if e["dataArg"]["kind"] == "none" else make_data(e["dataArg"]["ver"], e["dataArg"]["states"])
                save = (["config"] if e["saveCfg"] else []) + (["data"] if e["saveData"] else [])
                with Recorder() as rec:
                    try:
                        ModelClient().get_estimates(
                            current_feed(), EID, OFFICE, ["turnout"], [0.9], 100, "precinct", raw_config=raw, preprocessed_data=pre,
                            save_output=save, features=["x1"], aggregates=["postal_code", "unit"],
                        )
                        e["outcome"] = "completed_without_reaching_the_combined_handler"
                    except _Stop:
                        e["outcome"] = "ok"
                    except RuntimeError as ex:  # the remote fake has no such object
                        e["outcome"] = "failed" if "no such object" in str(ex) else f"raised RuntimeError: {str(ex)[:120]}"
                    except Exception as ex:  # noqa: BLE001
                        e["outcome"] = f"raised {type(ex).__name__}: {str(ex)[:120]}"
                if e["outcome"] == "ok":
                    e["obs"] = {"cfgVer": rec.seen_cfg["ver"], "cfgStates": rec.seen_cfg["states"], "dataVer": rec.seen_data["ver"],
                                "dataStates": rec.seen_data["states"], "dataProcessed": rec.seen_data["processed"]}
                lc, ld = _local_state(workdir)
                e["after"] = {"localcfg": lc, "localdata": ld, "callerExtra": describe_config(caller)["extra"]}
            out.append(e)
    finally:
        os.chdir(old)
        shutil.rmtree(workdir, ignore_errors=True)
        synth.OBJECTS.clear()
    return {"events": out}


def random_events(rnd, n_ops):
    ev = [{"op": "rebuild", "ver": 7, "states": list(rnd.choice(STATE_SETS))}]
    cv = dv = 0
    for _ in range(n_ops):
        r = rnd.random()
        if r < 0.15:
            cv += 1
            ev.append({"op": "publish_config", "ver": cv, "states": list(rnd.choice(STATE_SETS))})
        elif r < 0.30:
            dv += 1
            ev.append({"op": "publish_data", "ver": dv, "states": list(rnd.choice(STATE_SETS))})
        elif r < 0.37:
            ev.append({"op": "clean"})
        elif r < 0.43:
            ev.append({"op": "rebuild", "ver": 7, "states": list(rnd.choice(STATE_SETS))})
        else:
            ev.append({
                "op": "run",
                "cfgArg": rnd.choice(["none", "none", "empty", "own"]),
                "dataArg": rnd.choice([{"kind": "none"}, {"kind": "none"}, {"kind": "data", "ver": 900 + rnd.randint(0, 9), "states": list(rnd.choice(STATE_SETS)), "processed": False}]),
                "saveCfg": rnd.random() < 0.35,
                "saveData": rnd.random() < 0.35,
            })
    return ev


# the three finding demonstrations of MC_DataSources_demo_*.cfg as concrete histories
DEMOS = {
    "stale_config": [
        {"op": "publish_config", "ver": 1, "states": ["AA"]},
        {"op": "publish_data", "ver": 1, "states": ["AA", "BB"]},
        {"op": "run", "cfgArg": "none", "dataArg": {"kind": "none"}, "saveCfg": True, "saveData": False},
        {"op": "publish_config", "ver": 2, "states": ["AA", "BB"]},
        {"op": "run", "cfgArg": "none", "dataArg": {"kind": "none"}, "saveCfg": False, "saveData": False},
    ],
    "cached_data_cut_to_old_states": [
        {"op": "publish_config", "ver": 1, "states": ["AA"]},
        {"op": "publish_data", "ver": 1, "states": ["AA", "BB"]},
        {"op": "run", "cfgArg": "none", "dataArg": {"kind": "none"}, "saveCfg": False, "saveData": True},
        {"op": "publish_config", "ver": 2, "states": ["AA", "BB"]},
        {"op": "run", "cfgArg": "none", "dataArg": {"kind": "none"}, "saveCfg": False, "saveData": False},
    ],
    "caller_dictionary_grows": [
        {"op": "rebuild", "ver": 7, "states": ["AA", "BB"]},
        {"op": "run", "cfgArg": "own", "dataArg": {"kind": "data", "ver": 900, "states": ["AA", "BB"], "processed": False}, "saveCfg": False, "saveData": False},
        {"op": "run", "cfgArg": "own", "dataArg": {"kind": "data", "ver": 900, "states": ["AA", "BB"], "processed": False}, "saveCfg": True, "saveData": False},
    ],
}


def job(arg):
    seed, count = arg
    rnd = random.Random(seed)
    return [run_events(random_events(rnd, rnd.randint(3, 9))) for _ in range(count)]
