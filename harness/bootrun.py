"""S09 BootstrapRun: recorder for one run of BootstrapElectionModel.compute_bootstrap_errors inside a real client run.

What is observed (run-time wrappers only, nothing in /repo is touched):
 * every draw from the model's own generator (method, requested shape) through a recording proxy put in place of
   `model.rng` right after the constructor seeded it,
 * the order in which the pipeline steps are entered (the private methods of the model are wrapped),
 * whether the process-wide generators (`numpy.random` legacy state, `random`) were touched during the run,
 * the inputs the specification needs (contest of every unit of the three frames, B, lambda given or not, flags),
 * what the pipeline stored on the model (shapes, the clipping facts of the four error matrices).
"""
import random as _random

import numpy as np
import pandas as pd

from harness import synth  # noqa: F401  (environment + fake S3 first)

STEPS = [
    "compute_bootstrap_errors",
    "_generate_nonreporting_bounds",
    "cv_lambda",
    "_estimate_model_errors",
    "_get_strata",
    "_estimate_strata_dist",
    "_bootstrap_errors",
    "_bootstrap_epsilons",
    "_strata_pit",
    "_bootstrap_deltas",
    "_extrapolate_unit_margin",
    "_sample_test_errors",
    "_sample_test_epsilon",
    "_sample_test_delta",
]
SHORT = {
    "compute_bootstrap_errors": "run",
    "_generate_nonreporting_bounds": "bounds",
    "cv_lambda": "cv",
    "_estimate_model_errors": "errors",
    "_get_strata": "strata",
    "_estimate_strata_dist": "dist",
    "_bootstrap_errors": "boot",
    "_bootstrap_epsilons": "boot_eps",
    "_strata_pit": "pit",
    "_bootstrap_deltas": "boot_delta",
    "_extrapolate_unit_margin": "extrap",
    "_sample_test_errors": "sample",
    "_sample_test_epsilon": "sample_eps",
    "_sample_test_delta": "sample_delta",
}


class RecordingRng:
    """Forwards to the real generator; logs (method, shape requested)."""

    def __init__(self, gen, log):
        object.__setattr__(self, "_gen", gen)
        object.__setattr__(self, "_log", log)

    def _rec(self, m, shape):
        shape = [int(x) for x in (shape if isinstance(shape, (tuple, list)) else [shape])]
        self._log.append({"ev": "draw", "m": m, "shape": shape})

    def shuffle(self, x, *a, **k):
        self._rec("shuffle", [len(x)])
        return self._gen.shuffle(x, *a, **k)

    def choice(self, a, size=None, *args, **k):
        self._rec("choice", [len(a)] + list(np.atleast_1d(size if size is not None else 1)))
        return self._gen.choice(a, size, *args, **k)

    def uniform(self, low=0.0, high=1.0, size=None):
        self._rec("uniform", list(np.atleast_1d(size if size is not None else 1)))
        return self._gen.uniform(low, high, size)

    def multivariate_normal(self, mean, cov, size=None, **k):
        self._rec("mvn", [len(np.atleast_1d(mean))] + list(np.atleast_1d(size if size is not None else 1)))
        return self._gen.multivariate_normal(mean, cov, size, **k)

    def __getattr__(self, name):
        attr = getattr(self._gen, name)
        if callable(attr):
            log = self._log

            def wrapped(*a, **k):
                log.append({"ev": "draw", "m": "other:" + name, "shape": []})
                return attr(*a, **k)

            return wrapped
        return attr


class Recorder:
    """Context manager: installs the wrappers on BootstrapElectionModel, yields itself, restores everything."""

    def __init__(self):
        self.runs = []  # one dict per model object that ran the pipeline
        self._saved = {}

    def __enter__(self):
        from elexmodel.models import BootstrapElectionModel as mod

        cls = mod.BootstrapElectionModel
        self.cls = cls
        rec = self
        orig_init = cls.__init__
        self._saved["__init__"] = orig_init

        def init(model, *a, **k):
            orig_init(model, *a, **k)
            log = []
            model.rng = RecordingRng(model.rng, log)
            model._verif_log = log
            model._verif_runs = 0

        cls.__init__ = init
        for name in STEPS:
            orig = getattr(cls, name)
            self._saved[name] = orig
            setattr(cls, name, self._wrap(name, orig))
        orig_gup = cls.get_unit_predictions
        self._saved["get_unit_predictions"] = orig_gup

        def gup(model, *a, **k):
            model._verif_log.append({"ev": "call", "m": "get_unit_predictions", "ran": bool(model.ran_bootstrap)})
            return orig_gup(model, *a, **k)

        cls.get_unit_predictions = gup
        return rec

    def __exit__(self, *exc):
        for name, orig in self._saved.items():
            setattr(self.cls, name, orig)
        self.finalize()
        return False

    def finalize(self):
        """Per model object: how often it was asked for unit predictions and how often the pipeline ran on it."""
        for d in self.runs:
            model = d.pop("_model", None)
            if model is None:
                continue
            d["n_calls"] = max(1, sum(1 for e in model._verif_log if e["ev"] == "call"))
            d["runs_on_object"] = int(model._verif_runs)
            d["ran"] = bool(model.ran_bootstrap)
            d["eps_count"] = int(sum(d["eps_nonzero"]))
            for e in d["events"]:
                if e.get("shape") is None:
                    e["shape"] = []
                e.setdefault("shape", [])

    def _wrap(self, name, orig):
        rec = self

        def wrapper(model, *a, **k):
            log = model._verif_log
            log.append({"ev": "step", "m": SHORT[name]})
            if name == "compute_bootstrap_errors":
                return rec._run(model, orig, a, k)
            out = orig(model, *a, **k)
            if name == "_estimate_model_errors" and not hasattr(model, "_verif_eps"):
                # first call = the normalized margin: which contests got a (non-zero) contest effect
                eps = np.asarray(out[1]).ravel()
                model._verif_eps = [int(v != 0) for v in eps]
            return out

        return wrapper

    def _run(self, model, orig, a, k):
        reporting, nonreporting, unexpected = a[0], a[1], a[2]
        np_state = np.random.get_state()[1].copy()
        py_state = _random.getstate()
        model._verif_runs += 1
        start = len(model._verif_log) - 1
        out = orig(model, *a, **k)
        global_used = (not np.array_equal(np_state, np.random.get_state()[1])) or py_state != _random.getstate()
        d = self._describe(model, reporting, nonreporting, unexpected, start, global_used)
        d["_model"] = model
        model._verif_frames = (reporting, nonreporting, unexpected)
        self.runs.append(d)
        return out

    def _describe(self, model, reporting, nonreporting, unexpected, start, global_used):
        orig_bounds = self._saved["_generate_nonreporting_bounds"]
        log = model._verif_log[start:]

        def cid(df):
            if model.district_election:
                return [[str(s), str(d)] for s, d in zip(df["postal_code"], df["district"])]
            return [[str(s), ""] for s in df["postal_code"]]

        tol = 1e-9
        w = nonreporting["baseline_weights"].to_numpy(dtype=float).reshape(-1, 1)
        facts = {}
        shapes = {}
        for nm in ("errors_B_1", "errors_B_2", "errors_B_3", "errors_B_4", "weighted_yz_test_pred", "weighted_z_test_pred"):
            shapes[nm] = [int(x) for x in np.asarray(getattr(model, nm)).shape]
        if len(nonreporting) > 0:
            ylo, yhi = orig_bounds(model, nonreporting, "results_normalized_margin")
            zlo, zhi = orig_bounds(model, nonreporting, "turnout_factor")
            ok = (w > 0).ravel()

            def inside(num, den, lo, hi):
                num, den = np.asarray(num, dtype=float), np.asarray(den, dtype=float)
                if num.ndim == 1:
                    num, den = num.reshape(-1, 1), den.reshape(-1, 1)
                with np.errstate(all="ignore"):
                    r = num / den
                good = np.isfinite(r) & (np.abs(den) > 1e-12) & ok.reshape(-1, 1)
                slack = tol * (1 + np.abs(r))
                return bool(np.all(~good | ((r >= lo - slack) & (r <= hi + slack))))

            e1, e2, e3, e4 = (np.asarray(getattr(model, f"errors_B_{i}"), dtype=float) for i in (1, 2, 3, 4))
            facts["z_boot_clipped"] = inside(e3, w * np.ones_like(e3), zlo, zhi)
            facts["z_sample_clipped"] = inside(e4, w * np.ones_like(e4), zlo, zhi)
            facts["y_boot_clipped"] = inside(e1, e3, ylo, yhi)
            facts["y_sample_clipped"] = inside(e2, e4, ylo, yhi)
            facts["z_pred_clipped"] = inside(model.weighted_z_test_pred, w, zlo, zhi)
            facts["y_pred_clipped"] = inside(model.weighted_yz_test_pred, model.weighted_z_test_pred, ylo, yhi)
            facts["all_finite"] = bool(all(np.all(np.isfinite(x)) for x in (e1, e2, e3, e4)))
        else:
            facts = {k: True for k in ("z_boot_clipped", "z_sample_clipped", "y_boot_clipped", "y_sample_clipped", "z_pred_clipped", "y_pred_clipped", "all_finite")}
        names = getattr(model, "aggregate_names", {})
        return {
            "B": int(model.B),
            "lambda_given": model.lambda_ is not None,
            "district": bool(model.district_election),
            "versioned": model.versioned_data_handler is not None,
            "pres": bool(model.correct_from_presidential),
            "train": cid(reporting),
            "test": cid(nonreporting),
            "unexp": cid(unexpected),
            "eps_nonzero": list(getattr(model, "_verif_eps", [])),
            "n_columns": len(names),
            "n_contests": int(getattr(model, "n_contests", -1)),
            "ran": bool(model.ran_bootstrap),
            "runs_on_object": int(model._verif_runs),
            "global_rng_used": bool(global_used),
            "events": [e for e in log if e["ev"] in ("step", "draw")],
            "shapes": shapes,
            "facts": facts,
        }


def signature(d):
    """What the stream of draws may depend on."""
    return (len(d["train"]), len(d["test"]), d["n_columns"], d["B"], d["lambda_given"], d["eps_count"] == 1)


def stream(d):
    return [(e["m"], tuple(e["shape"])) for e in d["events"] if e["ev"] == "draw"]


# ---------------------------------------------------------------------------------------------------------------
# drivers


def _bootstrap_run(pre, cur, mp, district=False, aggregates=None, pis=(0.7, 0.9), repeat_calls=False):
    office = "H" if district else "G"
    gut = "precinct-district" if district else "precinct"
    aggs = aggregates or (["postal_code", "district", "unit"] if district else ["postal_code", "county_fips", "unit"])
    c, res = synth.run_client(
        pre, cur, estimands=("margin",), office=office, gut=gut, pis=pis, pi_method="bootstrap",
        features=("baseline_normalized_margin",), aggregates=aggs, model_parameters=mp,
    )
    if repeat_calls:
        # the national summary and a second round of aggregate calls on the same model object: the pipeline must not run again
        m = c.model
        try:
            c.get_national_summary_votes_estimates(None, 0, list(pis))
        except Exception:  # noqa: BLE001  (a district election has no default weights; irrelevant here)
            pass
        # (asked again with the very frames of the first call, as the client's estimand loop would for a second estimand)
        rep, non, unx = getattr(m, "_verif_frames", (None, None, None))
        m.get_unit_predictions(rep, non, "margin", unexpected_units=unx)
    return c


def job_scenario(arg):
    """spec -> code: one TLC-exported shape class realised as a real client run (ballast contest ZZ added)."""
    idx, scen = arg[0], arg[1]
    twin = len(arg) > 2 and arg[2]
    shape = dict(scen["shape"])
    states = sorted(shape) + ["ZZ"]
    need = {s: shape[s][0] + shape[s][1] for s in shape}
    need["ZZ"] = 18
    per = max(need.values()) + 1
    pre, cur = synth.make_election(n=per * len(states), states=tuple(states), seed=1000 + idx)
    keep, pev = [], {}
    for s in states:
        ids = pre[pre.postal_code == s].geographic_unit_fips.tolist()
        ntr, nte = (16, 2) if s == "ZZ" else (shape[s][0], shape[s][1])
        for k, i in enumerate(ids[: ntr + nte]):
            keep.append(i)
            pev[i] = 100 if k < ntr else 40
    pre = pre[pre.geographic_unit_fips.isin(keep)].reset_index(drop=True)
    cur = cur[cur.geographic_unit_fips.isin(keep)].reset_index(drop=True)
    cur["percent_expected_vote"] = cur.geographic_unit_fips.map(pev)
    part = cur.percent_expected_vote / 100.0
    for col in ("results_turnout", "results_dem", "results_gop"):
        cur[col] = np.floor(cur[col] * part).astype(int)
    extra = []
    for s in shape:
        for k in range(shape[s][2]):
            extra.append({"postal_code": s, "geographic_unit_fips": f"{s}900_{9000 + k}", "results_turnout": 700, "results_dem": 400, "results_gop": 280, "percent_expected_vote": 100})
    if extra:
        cur = pd.concat([cur, pd.DataFrame(extra)], ignore_index=True)
    if twin:
        # the twin of a shape class: the same sizes, another assignment of the units to the strata and other covariates -
        # the stream of draws may depend on the sizes only (StreamIsFunctionOfSizes)
        rs = np.random.default_rng(77 + idx)
        pre["county_classification"] = rs.permutation(pre["county_classification"].to_numpy())
        flip = rs.random(len(pre)) < 0.4
        pre.loc[flip, "county_classification"] = "urban"
        pre["x1"] = rs.normal(size=len(pre))
    pre = synth.with_margin_features(pre)
    mp = {"B": int(scen["B"])}
    if scen["lambdaGiven"]:
        mp["lambda_"] = 1.0
    with Recorder() as rec:
        try:
            _bootstrap_run(pre, cur, mp, repeat_calls=(idx % 3 == 0 and not twin))
        except Exception as ex:  # noqa: BLE001
            return {"scenario": scen, "raised": f"{type(ex).__name__}: {str(ex)[:300]}", "runs": []}
    for r in rec.runs:
        r["origin"] = {"scenario": scen}
    return {"scenario": scen, "raised": None, "runs": rec.runs}


def job_random(seed):
    """code -> spec: random elections far larger than the TLC scope (the call / stop / correction runs of the C06-C08
    engine, large district elections in which districts get their own contest column, single-contest elections)."""
    from harness import calls

    rnd = _random.Random(seed)
    kind = seed % 4
    with Recorder() as rec:
        try:
            if kind in (0, 1):
                calls.client_record(seed)
            elif kind == 2:
                # large district election: districts of more than ten units get their own contest column
                n = rnd.choice([96, 120, 150])
                pre, cur = synth.make_election(n=n, states=("AA", "BB", "CC"), seed=seed, district=True, frac_reporting=rnd.choice([0.6, 0.8]))
                # two or three districts per state (make_election ties the district to the state)
                nd = rnd.choice([2, 3])
                dist = [str((i // 3) % nd) for i in range(len(pre))]
                ids = [dd + f[1:] for dd, f in zip(dist, pre.geographic_unit_fips)]
                pre["district"], pre["geographic_unit_fips"] = dist, ids
                cur["geographic_unit_fips"] = ids
                if rnd.random() < 0.5:
                    pre.loc[pre.postal_code == "CC", "district"] = "0"  # a single-district state
                    pre["geographic_unit_fips"] = [("0" + f[1:]) if s == "CC" else f for f, s in zip(pre.geographic_unit_fips, pre.postal_code)]
                    cur["geographic_unit_fips"] = pre["geographic_unit_fips"].to_numpy()
                pre = synth.with_margin_features(pre)
                mp = {"B": rnd.choice([2, 5])}
                if rnd.random() < 0.5:
                    mp["lambda_"] = rnd.choice([0, 1.0])
                _bootstrap_run(pre, cur, mp, district=True, repeat_calls=rnd.random() < 0.5)
            else:
                # one or two contests: with a single contest effect nothing is drawn for the contest effects of new units
                states = ("AA",) if rnd.random() < 0.6 else ("AA", "BB")
                pre, cur = synth.make_election(n=rnd.choice([30, 44]), states=states, seed=seed, frac_reporting=0.7)
                if rnd.random() < 0.5:
                    cur = pd.concat([cur, pd.DataFrame([{"postal_code": rnd.choice(["AA", "QQ"]), "geographic_unit_fips": "QQ900_9999", "results_turnout": 500, "results_dem": 300, "results_gop": 190, "percent_expected_vote": 100}])], ignore_index=True)
                pre = synth.with_margin_features(pre)
                mp = {"B": rnd.choice([2, 7])}
                if rnd.random() < 0.5:
                    mp["lambda_"] = 1.0
                _bootstrap_run(pre, cur, mp, repeat_calls=True)
        except Exception as ex:  # noqa: BLE001
            return {"seed": seed, "raised": f"{type(ex).__name__}: {str(ex)[:300]}", "runs": []}
    for r in rec.runs:
        r["origin"] = {"seed": seed, "kind": kind}
    return {"seed": seed, "raised": None, "runs": rec.runs}
