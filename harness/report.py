"""Verdicts, evidence files, replay files and the known-findings protocol (DESIGN §3.5, §3.7)."""
import json
import os
import sys
import time

ROOT = os.path.dirname(os.path.dirname(os.path.abspath(__file__)))
# the self-test drivers (mutant runs) redirect both so that they never overwrite the evidence of real runs
EVIDENCE_DIR = os.environ.get("VERIF_EVIDENCE_DIR") or os.path.join(ROOT, "evidence")
REPLAY_DIR = os.environ.get("VERIF_REPLAY_DIR") or os.path.join(ROOT, "replays")
FINDINGS_FILE = os.path.join(ROOT, "known_findings.json")


def _jsonable(o):
    import fractions

    try:
        import numpy as np

        if isinstance(o, (np.integer,)):
            return int(o)
        if isinstance(o, (np.floating,)):
            return float(o)
        if isinstance(o, np.ndarray):
            return o.tolist()
        if isinstance(o, np.bool_):
            return bool(o)
    except ImportError:
        pass
    if isinstance(o, fractions.Fraction):
        return [o.numerator, o.denominator]
    if isinstance(o, (set, frozenset)):
        return sorted(o, key=str)
    if isinstance(o, tuple):
        return list(o)
    return str(o)


def dumps(o, **kw):
    return json.dumps(o, default=_jsonable, **kw)


class Findings:
    """known_findings.json: {"open": [{"id","property","match":{...},"what"}], "fixed": [...]}.

    An open entry suppresses exactly the violations whose `facts` dict contains every key/value of `match`.
    A fixed entry suppresses nothing.  The file is never written at run time.
    """

    def __init__(self):
        self.open = []
        if os.path.exists(FINDINGS_FILE):
            with open(FINDINGS_FILE) as f:
                d = json.load(f)
            self.open = d.get("open", [])

    def match(self, prop, facts):
        for e in self.open:
            if e["property"] != prop:
                continue
            if all(facts.get(k) == v for k, v in e["match"].items()):
                return e
        return None


class Run:
    """One invocation of one property check."""

    def __init__(self, prop, tier, seed, level="model_checking"):
        self.prop = prop
        self.tier = tier
        self.seed = int(seed)
        self.level = level
        self.t0 = time.time()
        self.violations = []  # (clause, facts, replay path)
        self.known = {}  # finding id -> count
        self.cov = {
            "states": 0,
            "transitions": 0,
            "distinct_states": 0,
            "traces_validated_against_impl": 0,
            "scenarios_replayed_into_impl": 0,
            "samples": [],
            "tlc_runs": [],
            "witnesses": {},
            "exhaustive": False,
        }
        self.assumptions = []
        self.findings = Findings()
        self._replay_n = 0

    # ---- coverage bookkeeping
    def add_tlc(self, name, res, constants=None):
        self.cov["states"] += res.generated
        self.cov["distinct_states"] += res.distinct
        self.cov["transitions"] += max(res.generated - 0, 0)
        self.cov["tlc_runs"].append(
            {
                "model": name,
                "generated": res.generated,
                "distinct": res.distinct,
                "depth": res.depth,
                "wall_s": round(res.wall_s, 1),
                "constants": constants or {},
                "actions": res.action_counts(),
            }
        )

    def sample(self, obj, limit=6):
        if len(self.cov["samples"]) < limit:
            self.cov["samples"].append(json.loads(dumps(obj)))

    def witness(self, name, n=1):
        self.cov["witnesses"][name] = self.cov["witnesses"].get(name, 0) + n

    # ---- verdicts
    def violation(self, clause, facts, detail):
        """Record a violation unless it matches an open known finding.  Returns True if it counts."""
        kf = self.findings.match(self.prop, facts)
        if kf is not None:
            self.known[kf["id"]] = self.known.get(kf["id"], 0) + 1
            return False
        os.makedirs(REPLAY_DIR, exist_ok=True)
        self._replay_n += 1
        path = os.path.join(REPLAY_DIR, f"{self.prop}_{self.tier}_{self._replay_n}.json")
        if self._replay_n <= 20:
            with open(path, "w") as f:
                f.write(dumps({"property": self.prop, "clause": clause, "facts": facts, "detail": detail}, indent=1))
        self.violations.append((clause, facts, path))
        if self._replay_n <= 20:
            print(f"VIOLATION property={self.prop} replay={path}", flush=True)
            print(f"  clause={clause} facts={dumps(facts)[:400]}", flush=True)
        return True

    def finish(self, require_witnesses=()):
        missing = [w for w in require_witnesses if self.cov["witnesses"].get(w, 0) == 0]
        if missing and not self.violations:
            print(f"MACHINERY: vacuous run, witnesses never observed: {missing}", flush=True)
            self._write(extra={"vacuous": missing})
            sys.exit(2)
        for e in self.findings.open:
            if e["property"] == self.prop and self.known.get(e["id"], 0) > 0:
                print(f"KNOWN-FINDING: property={self.prop} {e['id']}: {e['what']} (seen {self.known[e['id']]}x)")
        self._write()
        if self.violations:
            print(f"{self.prop}: {len(self.violations)} violation(s)")
            sys.exit(1)
        print(
            f"{self.prop} [{self.tier}] held: states={self.cov['states']} "
            f"replayed={self.cov['scenarios_replayed_into_impl']} traces={self.cov['traces_validated_against_impl']} "
            f"wall={time.time() - self.t0:.0f}s"
        )
        sys.exit(0)

    def _write(self, extra=None):
        os.makedirs(EVIDENCE_DIR, exist_ok=True)
        cov = dict(self.cov)
        # the schema's model_checking keys
        cov["states"] = max(cov["states"], 0)
        cov["transitions"] = max(cov["transitions"], 0)
        cov["traces_validated_against_impl"] = (
            cov["traces_validated_against_impl"] + cov["scenarios_replayed_into_impl"]
        )
        cov["traces_note"] = (
            "traces_validated_against_impl = scenarios replayed spec->code (scenarios_replayed_into_impl) + "
            "recorded runs validated code->spec"
        )
        cov["evaluations"] = cov["traces_validated_against_impl"] + cov["states"]
        cov["distinct_nontrivial"] = max(cov["distinct_states"], 0) + cov["traces_validated_against_impl"]
        cov["rule"] = "distinct TLC states (fingerprint-distinct) plus distinct scenarios/traces run against the implementation"
        cov["known_findings_seen"] = self.known
        if extra:
            cov.update(extra)
        if not cov["samples"]:
            cov["samples"] = ["(no sample recorded)"]
        ev = {
            "property_id": self.prop,
            "tier": self.tier,
            "seed": self.seed,
            "level": self.level,
            "coverage": cov,
            "assumptions": self.assumptions,
            "wall_s": round(time.time() - self.t0, 2),
            "violations": len(self.violations),
        }
        with open(os.path.join(EVIDENCE_DIR, f"{self.prop}.json"), "w") as f:
            f.write(dumps(ev, indent=1))
