"""arith engine (C14 C04 C05): materialise ConformalSplit / UniformSwing scenarios as inputs of the real code, call the
real functions, project what they did onto the specifications' variables.

Nothing in this file decides a property.  Expected values come from TLC (exported terminal states), and recorded
values go back to TLC (Trace_ConformalSplit / Trace_UniformSwing).  Python only
  * chooses *which* requests / grid points / random elections are run (from the seed),
  * builds pandas frames, calls the real code, observes it through run-time wrappers (no repository edits),
  * maps observed doubles to the specifications' integers (hundredths, permille, ranks, scaled integers); a value
    that has no image (e.g. a fraction that is not a whole number of hundredths) is logged as -1, which no
    candidate set contains.
"""
import concurrent.futures
import math
import random
import traceback
from fractions import Fraction

from harness import synth  # noqa: F401  (must precede every elexmodel import: env, fake boto3, VERIF_REPO_SRC)

import numpy as np  # noqa: E402
import pandas as pd  # noqa: E402

from harness import tlc  # noqa: E402

EST = "turnout"
SCALE = 100000  # scaled integers of recorded real scores / bounds


# ----------------------------------------------------------------------------------------------------------------
# TLC plumbing


def tlc_many(run, jobs, max_parallel=8):
    """Run several TLC models concurrently (threads around subprocesses).  jobs: dicts with module, cfg and optional
    workers, env, name, expect_violation, timeout.  Returns the TLCResults in order; violated invariants are reported."""

    def one(j):
        return tlc.run_tlc(
            j["module"],
            j["cfg"],
            workers=j.get("workers", 4),
            env=j.get("env"),
            timeout=j.get("timeout", 1500),
            keep_stdout=False,
        )

    with concurrent.futures.ThreadPoolExecutor(max_workers=max_parallel) as ex:
        results = list(ex.map(one, jobs))
    for j, res in zip(jobs, results):
        name = j.get("name") or j["cfg"]
        run.add_tlc(name, res, j.get("constants"))
        want = j.get("expect_violation")
        if want is not None:
            if res.violation != want:
                raise tlc.MachineryError(
                    f"{j['cfg']}: expected TLC to reproduce the documented counterexample of {want}, got {res.violation}"
                )
            continue
        if res.violation is not None:
            run.violation(
                f"tlc:{res.violation}",
                {"model": j["cfg"], "invariant": res.violation},
                {"counterexample": res.error_trace[:200]},
            )
    return results


def _models():
    from elexmodel.models.BootstrapElectionModel import BootstrapElectionModel
    from elexmodel.models.GaussianElectionModel import GaussianElectionModel
    from elexmodel.models.NonparametricElectionModel import NonparametricElectionModel

    return {
        "nonparametric": NonparametricElectionModel,
        "gaussian": GaussianElectionModel,
        "bootstrap": BootstrapElectionModel,
    }


def _as_int(v):
    """Image of a returned number in the specification's integers, -1 if it has none."""
    try:
        f = float(v)
    except (TypeError, ValueError):
        return -1
    if math.isnan(f) or math.isinf(f) or not f.is_integer():
        return -1
    return int(f)


def _guard(fn, *a):
    """Call a real function; an exception has no image in the specification's integers (-> -1 downstream)."""
    try:
        return fn(*a)
    except Exception:  # noqa: BLE001
        return None


def _hundredths(frac):
    if frac is None:
        return -1
    f = float(frac) * 100.0
    r = round(f)
    return int(r) if abs(f - r) < 1e-9 else -1


# ----------------------------------------------------------------------------------------------------------------
# C14 (i): the real get_minimum_reporting_units / _compute_conf_frac on the whole permille x n grid


def job_grid(arg):
    """-> 'grid' records of Trace_ConformalSplit for the levels in arg[0]."""
    ps, max_n = arg
    m = _models()["nonparametric"]({})
    out = []
    for p in ps:
        a = p / 1000
        mn = _as_int(_guard(m.get_minimum_reporting_units, a))
        n0 = max(1, mn)
        f100 = [_hundredths(_guard(m._compute_conf_frac, n, a)) for n in range(n0, max_n + 1)]
        out.append({"kind": "grid", "p": p, "min": mn, "n0": n0, "f100": f100})
    return out


def job_fixed_minimum(_):
    """The estimators whose minimum does not depend on the level: observed values over the permille grid."""
    models = _models()
    g = models["gaussian"]({})
    seen = {"gaussian": set(), "bootstrap": set(), "gaussian_frac": set()}
    for p in range(1, 999):
        seen["gaussian"].add(_as_int(g.get_minimum_reporting_units(p / 1000)))
    seen["gaussian_frac"].add(_hundredths(g._compute_conf_frac()))
    b = models["bootstrap"].get_minimum_reporting_units(None, 0.9)
    seen["bootstrap"].add(_as_int(b))
    return {k: sorted(v) for k, v in seen.items()}


# ----------------------------------------------------------------------------------------------------------------
# observation of the gate and the split through run-time wrappers


class SplitRecorder:
    """Wraps (at class level, in this process only) the methods at which the abstract state of Gate/Split is visible:
    get_minimum_reporting_units (what the gate compares with), CombinedDataHandler.get_units (how many modelled
    reporting units there are), get_unit_prediction_interval_bounds (fraction, calibration rows) and fit_model inside
    it (training rows)."""

    def __init__(self):
        self.mins = []
        self.n = None
        self.has_dup = None
        self.splits = []
        self._undo = []
        self._in_bounds = None

    def _patch(self, cls, name, make):
        orig = cls.__dict__[name]
        setattr(cls, name, make(orig))
        self._undo.append((cls, name, orig))

    def __enter__(self):
        from elexmodel.handlers.data.CombinedData import CombinedDataHandler
        from elexmodel.models.ConformalElectionModel import ConformalElectionModel

        rec = self

        def wrap_min(orig):
            def f(self_, alpha):
                v = orig(self_, alpha)
                rec.mins.append((alpha, v))
                return v

            return f

        for cls in _models().values():
            if "get_minimum_reporting_units" in cls.__dict__:
                self._patch(cls, "get_minimum_reporting_units", wrap_min)

        def wrap_units(orig):
            def f(self_, *a, **k):
                out = orig(self_, *a, **k)
                rec.n = int(out[0].shape[0])
                rec.has_dup = bool(out[0]["geographic_unit_fips"].duplicated().any())
                return out

            return f

        self._patch(CombinedDataHandler, "get_units", wrap_units)

        def wrap_bounds(orig):
            def f(self_, reporting_units, nonreporting_units, conf_frac, alpha, estimand):
                cur = {"n": int(reporting_units.shape[0]), "alpha": alpha, "f100": _hundredths(conf_frac), "fits": []}
                rec._in_bounds = cur
                try:
                    out = orig(self_, reporting_units, nonreporting_units, conf_frac, alpha, estimand)
                finally:
                    rec._in_bounds = None
                cur["cal"] = int(out.conformalization.shape[0])
                rec.splits.append(cur)
                return out

            return f

        self._patch(ConformalElectionModel, "get_unit_prediction_interval_bounds", wrap_bounds)

        def wrap_fit(orig):
            def f(self_, model, df_X, df_y, tau, weights, normalize_weights):
                if rec._in_bounds is not None:
                    rec._in_bounds["fits"].append(int(df_X.shape[0]))
                return orig(self_, model, df_X, df_y, tau, weights, normalize_weights)

            return f

        self._patch(ConformalElectionModel, "fit_model", wrap_fit)
        return self

    def __exit__(self, *a):
        for cls, name, orig in reversed(self._undo):
            setattr(cls, name, orig)

    def split_records(self):
        out = []
        for s in self.splits:
            fits = set(s["fits"])
            train = s["fits"][0] if len(fits) == 1 else -1  # lower and upper model must see the same rows
            out.append({"f100": s["f100"], "train": train, "cal": s["cal"], "n": s["n"], "p": int(round(s["alpha"] * 1000))})
        return out


def gate_election(n_rows, n_non, seed, dup=False, lo=40, hi=900):
    """n_rows reporting rows reach the model (one of them a repeated id if dup), n_non nonreporting units."""
    rng = np.random.default_rng(seed)
    n_units = n_rows - 1 if dup else n_rows
    rows, feed = [], []
    for i in range(n_units + n_non):
        st = "AA" if i % 2 == 0 else "BB"
        county = f"{st}{i // 4:03d}"
        fid = f"{county}_{i:05d}"
        bt = int(rng.integers(lo, hi))
        bd = int(bt * rng.uniform(0.25, 0.7))
        rows.append(
            dict(
                postal_code=st,
                geographic_unit_fips=fid,
                county_fips=county,
                county_classification=["k1", "k2", "k3"][i % 3],
                district=str(i % 2),
                baseline_turnout=bt,
                baseline_dem=bd,
                baseline_gop=bt - bd,
                x1=float(rng.normal()),
            )
        )
        t = max(4, int(round(bt * (1 + rng.normal(0.04, 0.1)))))
        t = min(max(t, bt // 2 + 2), 2 * bt - 2)
        share = float(np.clip(bd / bt + rng.normal(0, 0.05), 0.05, 0.95))
        dem = int(round(t * share))
        pev = 100
        if i >= n_units:
            pev = int(rng.integers(10, 90))
            t, dem = t * pev // 100, dem * pev // 100
        feed.append(
            dict(postal_code=st, geographic_unit_fips=fid, results_turnout=t, results_dem=dem, results_gop=t - dem, percent_expected_vote=pev)
        )
    if seed % 3 == 2 and not dup:
        # one more baseline unit whose feed row carries votes but no expected-vote percentage (the provider has not
        # estimated it yet): it is neither at nor below the threshold, so it is not a reporting unit - it must not enter
        # the fit, the calibration or the unit count of the gate (seeded changes C05_H, C14_G)
        r = dict(rows[0])
        r["geographic_unit_fips"] = r["county_fips"] + "_99999"
        rows.append(r)
        f0 = dict(feed[0])
        f0["geographic_unit_fips"] = r["geographic_unit_fips"]
        f0["results_turnout"], f0["results_dem"], f0["results_gop"] = f0["results_turnout"] * 6 // 10, f0["results_dem"] * 6 // 10, f0["results_turnout"] * 6 // 10 - f0["results_dem"] * 6 // 10
        f0["percent_expected_vote"] = float("nan")
        feed.append(f0)
    if dup and n_units > 0:
        # the repeated id is either an exact copy or a later version of the same unit with other vote counts
        d = dict(feed[int(rng.integers(0, n_units))])
        if seed % 2 == 1:
            d["results_turnout"] += 3
            d["results_gop"] += 3
        feed.append(d)
    pre = synth.with_margin_features(pd.DataFrame(rows))
    cur = pd.DataFrame(feed)
    pre = pre.iloc[rng.permutation(len(pre))].reset_index(drop=True)
    cur = cur.iloc[rng.permutation(len(cur))].reset_index(drop=True)
    return pre, cur


CLIENT_SETUP = {
    "nonparametric": dict(estimands=("turnout",), features=("x1",), mp={}),
    "gaussian": dict(estimands=("turnout",), features=("x1",), mp={}),
    "bootstrap": dict(estimands=("margin",), features=("baseline_normalized_margin",), mp={"B": 6}),
}


def job_gate_run(arg):
    """One real ModelClient.get_estimates call at the gate -> 'run' record (Trace_ConformalSplit)."""
    req, n, seed = arg
    from elexmodel.client import ModelClientException, ModelNotEnoughSubunitsException

    est = req["est"]
    setup = CLIENT_SETUP[est]
    pre, cur = gate_election(n, 2, seed, dup=req["dup"])
    pis = [p / 1000 for p in req["alphas"]]
    if req.get("fine"):
        pis = [a * (1 + 2.0 ** -40) for a in pis]
    detail = None
    # every other run re-uses a client object that has just served a request with a far larger minimum (which ended
    # in the not-enough-units error): the gate of THIS request depends on its own n and levels only (seeded change C14_C)
    from elexmodel.client import ModelClient

    client = ModelClient()
    if seed % 2 == 0:
        try:
            synth.run_client(pre, cur, estimands=("turnout",), pis=[0.995], pi_method="nonparametric", features=("x1",),
                             aggregates=["postal_code", "unit"], client=client)
        except Exception:  # noqa: BLE001
            pass
    extra = {"fixed_effects": {"county_classification": ["all"]}} if req.get("fe") else {}
    with SplitRecorder() as rec:
        try:
            synth.run_client(
                pre,
                cur,
                client=client,
                estimands=setup["estimands"],
                pis=pis,
                pi_method=est,
                features=setup["features"],
                model_parameters=dict(setup["mp"]),
                aggregates=["postal_code", "unit"],
                **extra,
            )
            outcome = "done"
        except ModelNotEnoughSubunitsException:
            outcome = "not_enough"
        except ModelClientException as e:
            outcome = "client_error" if type(e) is ModelClientException else "crashed"
            detail = f"{type(e).__name__}: {e}"[:300]
        except Exception as e:  # noqa: BLE001
            outcome = "crashed"
            detail = f"{type(e).__name__}: {e}"[:300] + " | " + traceback.format_exc()[-600:]
    return {
        "kind": "run",
        "src": "client",
        "est": est,
        "alphas": list(req["alphas"]),
        "n": rec.n if rec.n is not None else -1,
        "n_requested": n,
        "dup": bool(rec.has_dup),
        "dup_requested": bool(req["dup"]),
        "outcome": outcome,
        "mins": [_as_int(v) for _, v in rec.mins],
        "splits": [{k: s[k] for k in ("f100", "train", "cal")} for s in rec.split_records()],
        "detail": detail,
        "rid": req.get("rid"),
        "seed": seed,
    }


def probe_frames(n, seed, n_non=2):
    rng = np.random.default_rng(seed)
    last = rng.integers(20, 400, size=n).astype(float)
    res = np.round(last * (1 + rng.normal(0.03, 0.12, size=n)))
    rep = pd.DataFrame(
        {
            "postal_code": "AA",
            "geographic_unit_fips": [f"r{i:05d}" for i in range(n)],
            f"last_election_results_{EST}": last,
            f"results_{EST}": res,
            f"residuals_{EST}": (res - last) / last,
            "reporting": 1,
            "unit_category": "expected",
        }
    )
    lastn = rng.integers(20, 400, size=n_non).astype(float)
    non = pd.DataFrame(
        {
            "postal_code": "AA",
            "geographic_unit_fips": [f"n{i:05d}" for i in range(n_non)],
            f"last_election_results_{EST}": lastn,
            f"results_{EST}": np.floor(lastn * 0.3),
            "reporting": 0,
            "unit_category": "expected",
        }
    )
    return rep, non


def job_probe(arg):
    """Direct calls of the real NonparametricElectionModel.get_unit_predictions + get_unit_prediction_intervals
    (real regression) for (p, n) pairs -> 'run' records with src = probe."""
    pairs, seed = arg
    M = _models()["nonparametric"]
    out = []
    for k, (p, n) in enumerate(pairs):
        rep, non = probe_frames(n, seed + k)
        model = M({"features": [], "fixed_effects": {}})
        a = p / 1000
        detail = None
        mn = None
        with SplitRecorder() as rec:
            try:
                mn = model.get_minimum_reporting_units(a)
                model.get_unit_predictions(rep, non, EST)
                model.get_unit_prediction_intervals(rep, non, a, EST)
                outcome = "done"
            except Exception as e:  # noqa: BLE001
                outcome = "crashed"
                detail = f"{type(e).__name__}: {e}"[:300]
        out.append(
            {
                "kind": "run",
                "src": "probe",
                "est": "nonparametric",
                "alphas": [p],
                "n": n,
                "dup": False,
                "outcome": outcome,
                "mins": [_as_int(mn)] if mn is not None else [],
                "splits": [{k2: s[k2] for k2 in ("f100", "train", "cal")} for s in rec.split_records()],
                "detail": detail,
            }
        )
    return out


# ----------------------------------------------------------------------------------------------------------------
# C04 (a): replay of ConformalSplit.Corr terminal states


def corr_key(s):
    return (tuple((r["lo"], r["up"], r["w"]) for r in s["cal"]), tuple(s["alpha"]), bool(s["robust"]))


def replay_corr(scn, seed):
    """scn: one exported scenario (cal, alpha, robust, su, nr).  Runs the real get_unit_prediction_intervals with
    get_unit_prediction_interval_bounds stubbed at the method boundary; observes the real
    _compute_population_correction inside it.  Returns the projection in the specification's units."""
    from elexmodel.models.ConformalElectionModel import PredictionIntervals

    M = _models()["nonparametric"]
    su = scn["su"]
    rng = np.random.default_rng(seed)
    order = rng.permutation(len(scn["cal"]))  # the result may not depend on the row order
    cal = [scn["cal"][i] for i in order]
    conf = pd.DataFrame(
        {
            "geographic_unit_fips": [f"c{i}" for i in range(len(cal))],
            # decoys: a mutant reading weights from another column must not see the same numbers
            "baseline_weights": [7 - r["w"] for r in cal],
            f"results_{EST}": [3 * r["w"] % 5 + 1 for r in cal],
            f"last_election_results_{EST}": [r["w"] for r in cal],
            "lower_bounds": [r["lo"] / su for r in cal],
            "upper_bounds": [r["up"] / su for r in cal],
        }
    )
    nr = pd.DataFrame(
        {
            "geographic_unit_fips": [f"n{j}" for j in range(len(scn["nr"]))],
            f"last_election_results_{EST}": [float(u["last"]) for u in scn["nr"]],
            f"results_{EST}": [float(u["partial"]) for u in scn["nr"]],
        }
    )
    lb = np.array([u["lb"] / su for u in scn["nr"]])
    ub = np.array([u["ub"] / su for u in scn["nr"]])
    rep = pd.DataFrame({"geographic_unit_fips": [f"r{i}" for i in range(len(cal) + 3)]})
    model = M({"robust": bool(scn["robust"])})
    seen = {}

    def stub(reporting_units, nonreporting_units, conf_frac, alpha, estimand):
        seen["bounds_args"] = (reporting_units.shape[0], alpha, estimand)
        return PredictionIntervals(lb.copy(), ub.copy(), conf)

    real_pop = model._compute_population_correction

    def spy(conformalization_data, scores, correction_quantile, estimand):
        v = real_pop(conformalization_data, scores, correction_quantile, estimand)
        seen["pop"] = v
        seen["q"] = correction_quantile
        return v

    model.get_unit_prediction_interval_bounds = stub
    model._compute_population_correction = spy
    alpha = scn["alpha"][0] / scn["alpha"][1]
    pi = model.get_unit_prediction_intervals(rep, nr, alpha, EST)
    pop = seen.get("pop")
    return {
        "pop": _as_int(pop * su) if pop is not None and not (isinstance(pop, float) and math.isnan(pop)) else None,
        "lower": [_as_int(v) for v in np.asarray(pi.lower)],
        "upper": [_as_int(v) for v in np.asarray(pi.upper)],
        "same_frame": pi.conformalization is conf or pi.conformalization.equals(conf),
    }


def job_replay_corr(arg):
    """arg: (list of (key-scenario, [resolutions]), seed).  A resolution = (pop, lower sets, upper sets)."""
    items, seed = arg
    bad = []
    for k, (scn, resolutions) in enumerate(items):
        try:
            obs = replay_corr(scn, seed + k)
        except Exception as e:  # noqa: BLE001
            bad.append({"clause": "replay_raised", "exc": type(e).__name__, "msg": str(e)[:300], "scenario": scn, "tb": traceback.format_exc()[-1200:]})
            continue
        ok = False
        why = None
        for r in resolutions:
            if obs["pop"] != r["pop"]:
                why = why or "population_correction"
                continue
            lo_ok = all(o in c for o, c in zip(obs["lower"], r["lower"])) and len(obs["lower"]) == len(r["lower"])
            up_ok = all(o in c for o, c in zip(obs["upper"], r["upper"])) and len(obs["upper"]) == len(r["upper"])
            if lo_ok and up_ok:
                ok = True
                break
            why = "lower_bound" if not lo_ok else "upper_bound"
        if ok and not obs["same_frame"]:
            ok, why = False, "conformalization_frame_returned"
        if not ok:
            bad.append({"clause": why, "scenario": scn, "expected": resolutions, "observed": obs})
    return bad


# ----------------------------------------------------------------------------------------------------------------
# C04 (b): the rank the real population-weighted correction picks among equal weights


def job_rank(arg):
    ps, max_n, seed = arg
    model = _models()["nonparametric"]({})
    rng = np.random.default_rng(seed)
    out = []
    for p in ps:
        a = p / 1000
        w = int(rng.integers(1, 50))
        ks = []
        for n in range(1, max_n + 1):
            scores = rng.permutation(n) + 1  # distinct scores 1..n in random row order
            conf = pd.DataFrame(
                {
                    f"last_election_results_{EST}": np.full(n, w),
                    # decoy columns a real conformalization frame also carries (unequal on purpose)
                    f"results_{EST}": np.arange(1, n + 1) * 3 % 7 + 1,
                    "baseline_weights": (np.arange(n) * 5) % 11 + 1,
                }
            )
            q = a * (1 + 1 / n)
            try:
                v = model._compute_population_correction(conf, pd.Series(scores.astype(float)), q, EST)
                ks.append(0 if (v is None or (isinstance(v, float) and math.isnan(v))) else _as_int(v))
            except Exception:  # noqa: BLE001
                ks.append(-1)
        out.append({"kind": "rank", "p": p, "n0": 1, "ks": ks})
    return out


# ----------------------------------------------------------------------------------------------------------------
# C04 traces: real nonparametric client runs, the calibration set and the correction as the code computed them


class CorrRecorder:
    def __init__(self):
        self.calls = []
        self._undo = []

    def __enter__(self):
        M = _models()["nonparametric"]
        rec = self
        orig_pi = M.__dict__["get_unit_prediction_intervals"]

        def wrapped(self_, reporting_units, nonreporting_units, alpha, estimand):
            cur = {"alpha": alpha, "estimand": estimand, "robust": bool(self_.robust)}
            real_bounds = self_.get_unit_prediction_interval_bounds
            real_pop = self_._compute_population_correction

            def bounds(*a, **k):
                out = real_bounds(*a, **k)
                cur["lb"] = np.array(out.lower, dtype=float).copy()
                cur["ub"] = np.array(out.upper, dtype=float).copy()
                return out

            def pop(conformalization_data, scores, correction_quantile, estimand_):
                v = real_pop(conformalization_data, scores, correction_quantile, estimand_)
                cur["scores"] = np.array(scores, dtype=float).copy()
                cur["weights"] = np.array(conformalization_data[f"last_election_results_{estimand_}"], dtype=float).copy()
                cur["pop"] = float(v)
                return v

            real_fit = self_.fit_model
            cur["n"] = int(reporting_units.shape[0])
            cur["nfit"] = []

            def fit(model, df_X, df_y, tau, weights, normalize_weights):
                cur["nfit"].append(int(df_X.shape[0]))
                return real_fit(model, df_X, df_y, tau, weights, normalize_weights)

            self_.fit_model = fit
            self_.get_unit_prediction_interval_bounds = bounds
            self_._compute_population_correction = pop
            try:
                out = orig_pi(self_, reporting_units, nonreporting_units, alpha, estimand)
            finally:
                del self_.get_unit_prediction_interval_bounds
                del self_._compute_population_correction
                del self_.fit_model
            cur["lower"] = np.array(out.lower, dtype=float)
            cur["upper"] = np.array(out.upper, dtype=float)
            cur["last"] = np.array(nonreporting_units[f"last_election_results_{estimand}"], dtype=float)
            cur["partial"] = np.array(nonreporting_units[f"results_{estimand}"], dtype=float)
            cur["n_cal"] = int(out.conformalization.shape[0])
            rec.calls.append(cur)
            return out

        M.get_unit_prediction_intervals = wrapped
        self._undo.append((M, "get_unit_prediction_intervals", orig_pi))
        return self

    def __exit__(self, *a):
        for cls, name, orig in self._undo:
            setattr(cls, name, orig)


def corr_trace(call):
    scores = call["scores"]
    uniq = sorted(set(scores.tolist()))
    rank = {v: i + 1 for i, v in enumerate(uniq)}
    a = Fraction(int(round(call["alpha"] * 1000)), 1000)
    pop = call["pop"]
    tr = {
        "kind": "corr",
        "aN": a.numerator,
        "aD": a.denominator,
        "robust": call["robust"],
        "S": SCALE,
        "rk": [rank[v] for v in scores.tolist()],
        "w": [_as_int(v) for v in call["weights"]],
        "sS": [int(round(v * SCALE)) for v in scores.tolist()],
        "popRk": rank.get(pop, 0),
        "popS": int(round(pop * SCALE)) if not math.isnan(pop) else 0,
        "n": call["n"],
        "nfit": call["nfit"],
        "nr": [],
    }
    for j in range(len(call["last"])):
        tr["nr"].append(
            {
                "lbS": int(round(call["lb"][j] * SCALE)),
                "ubS": int(round(call["ub"][j] * SCALE)),
                "last": _as_int(call["last"][j]),
                "partial": _as_int(call["partial"][j]),
                "lower": _as_int(call["lower"][j]),
                "upper": _as_int(call["upper"][j]),
            }
        )
    return tr


def job_corr_run(arg):
    """One real nonparametric client run -> 'corr' records (one per interval level)."""
    seed, n_rep, n_non, pis, robust, features = arg
    pre, cur = gate_election(n_rep, n_non, seed, lo=20, hi=250)
    extra = {}
    if seed % 2 == 0:
        # fixed effects on the classification, one class held by a single reporting unit: the seeded split may put it
        # among the calibration units only - it is a calibration unit like any other (seeded change C04_H)
        rep_ids = cur[cur.percent_expected_vote >= 100].geographic_unit_fips.tolist()
        pre.loc[pre.geographic_unit_fips == rep_ids[seed % len(rep_ids)], "county_classification"] = "k9"
        extra["fixed_effects"] = {"county_classification": ["all"]}
    with CorrRecorder() as rec:
        try:
            synth.run_client(
                pre,
                cur,
                estimands=("turnout",),
                pis=list(pis),
                pi_method="nonparametric",
                features=tuple(features),
                model_parameters={"robust": bool(robust)},
                aggregates=["postal_code", "unit"],
                **extra,
            )
        except Exception as e:  # noqa: BLE001
            return [{"kind": "raised", "exc": type(e).__name__, "msg": str(e)[:300], "args": list(arg), "tb": traceback.format_exc()[-1200:]}]
    return [corr_trace(c) for c in rec.calls]


# ----------------------------------------------------------------------------------------------------------------
# C05: replay of UniformSwing terminal states; real covariate-free runs


def swing_frames(scn, seed):
    rng = np.random.default_rng(seed)
    rows, feed, ids_non = [], [], []
    k = 0
    for u in scn["rep"]:
        fid = f"c{k % 3}_r{k:04d}"
        k += 1
        rows.append(dict(postal_code="AA", geographic_unit_fips=fid, county_fips=fid[:2], baseline_turnout=int(u["b"]), x1=float(rng.normal())))
        feed.append(dict(postal_code="AA", geographic_unit_fips=fid, results_turnout=int(u["c"]), percent_expected_vote=100))
    for j, u in enumerate(scn["non"]):
        fid = f"c{j % 3}_n{j:04d}"
        ids_non.append(fid)
        rows.append(dict(postal_code="AA", geographic_unit_fips=fid, county_fips=fid[:2], baseline_turnout=int(u["b"]), x1=float(rng.normal())))
        feed.append(dict(postal_code="AA", geographic_unit_fips=fid, results_turnout=int(u["partial"]), percent_expected_vote=int(rng.integers(5, 95))))
    pre, cur = pd.DataFrame(rows), pd.DataFrame(feed)
    pre = pre.iloc[rng.permutation(len(pre))].reset_index(drop=True)
    cur = cur.iloc[rng.permutation(len(cur))].reset_index(drop=True)
    return pre, cur, ids_non


def replay_swing(scn, seed):
    """Component level: the real PreprocessedDataHandler (Estimandizer) -> CombinedDataHandler.get_units ->
    NonparametricElectionModel.get_unit_predictions with features = [], fixed_effects = {}."""
    from elexmodel.handlers.data.CombinedData import CombinedDataHandler
    from elexmodel.handlers.data.PreprocessedData import PreprocessedDataHandler

    pre, cur, ids_non = swing_frames(scn, seed)
    ph = PreprocessedDataHandler(synth.EID, "G", "precinct", [EST], {EST: EST}, data=pre)
    data = CombinedDataHandler(ph.data, cur, [EST], "precinct", handle_unreporting="drop")
    rep, non, unexp = data.get_units(100, 0.5, 2.0, [], [], False, False, 2.0, ["postal_code", "unit"])
    model = _models()["nonparametric"]({"features": [], "fixed_effects": {}})
    preds, _ = model.get_unit_predictions(rep, non, EST, unexpected_units=unexp)
    by_id = dict(zip(non["geographic_unit_fips"].tolist(), np.asarray(preds).tolist()))
    return {"n_modelled": int(rep.shape[0]), "pred": [_as_int(by_id[f]) if f in by_id else None for f in ids_non]}


def replay_swing_client(scn, seed):
    """The same scenario through the public client (gate: level 0.5 needs three reporting units)."""
    pre, cur, ids_non = swing_frames(scn, seed)
    c, res = synth.run_client(
        pre, cur, estimands=(EST,), pis=(0.5,), pi_method="nonparametric", features=(), aggregates=["postal_code", "unit"]
    )
    ut = res["unit_data"].set_index("geographic_unit_fips")
    n_mod = int(((ut["reporting"] == 1) & (ut["unit_category"] == "expected")).sum())
    return {"n_modelled": n_mod, "pred": [_as_int(ut.loc[f, f"pred_{EST}"]) if f in ut.index else None for f in ids_non]}


def job_replay_swing(arg):
    items, seed, through_client = arg
    bad = []
    for k, scn in enumerate(items):
        try:
            obs = (replay_swing_client if through_client else replay_swing)(scn, seed + k)
        except Exception as e:  # noqa: BLE001
            bad.append({"clause": "replay_raised", "exc": type(e).__name__, "msg": str(e)[:300], "scenario": scn, "client": through_client, "tb": traceback.format_exc()[-1200:]})
            continue
        if obs["n_modelled"] != len(scn["rep"]):
            bad.append({"clause": "reporting_units_modelled", "scenario": scn, "observed": obs, "client": through_client})
            continue
        for j, (o, cands) in enumerate(zip(obs["pred"], scn["preds"])):
            if o not in cands:
                bad.append({"clause": "prediction_is_uniform_swing", "unit": j + 1, "scenario": scn, "observed": obs, "client": through_client})
                break
    return bad


class SwingRecorder:
    def __init__(self):
        self.calls = []

    def __enter__(self):
        from elexmodel.models.ConformalElectionModel import ConformalElectionModel

        rec = self
        self.cls = ConformalElectionModel
        self.orig = ConformalElectionModel.__dict__["get_unit_predictions"]

        def wrapped(self_, reporting_units, nonreporting_units, estimand, **kw):
            from elexsolver.QuantileRegressionSolver import QuantileRegressionSolver

            seen = []
            real_fit = QuantileRegressionSolver.fit

            def fit(solver, x, y, *a, **k):
                # every attempt of the median regression (first solve and retry): the weights it was given, or None
                w = k.get("weights")
                seen.append(None if w is None else np.asarray(w, dtype=float).copy())
                return real_fit(solver, x, y, *a, **k)

            QuantileRegressionSolver.fit = fit
            try:
                out = rec.orig(self_, reporting_units, nonreporting_units, estimand, **kw)
            finally:
                QuantileRegressionSolver.fit = real_fit
            # the weights the median regression was given are proportional to the last-election results (baseline + 1)
            wprop = True
            if seen:
                want = np.asarray(reporting_units[f"baseline_{estimand}"], dtype=float) + 1.0
                wprop = all(
                    got is not None and len(got) == len(want) and bool(np.allclose(got / got.sum(), want / want.sum(), rtol=1e-9, atol=0.0))
                    for got in seen
                )
            rec.calls.append(
                {
                    "wprop": wprop,
                    "rep": [[_as_int(b), _as_int(c)] for b, c in zip(reporting_units[f"baseline_{estimand}"], reporting_units[f"results_{estimand}"])],
                    "non": [[_as_int(b), _as_int(c)] for b, c in zip(nonreporting_units[f"baseline_{estimand}"], nonreporting_units[f"results_{estimand}"])],
                    "pred": [_as_int(v) for v in np.asarray(out[0])],
                    "features": list(self_.features),
                    "fixed_effects": dict(self_.fixed_effects) if isinstance(self_.fixed_effects, dict) else list(self_.fixed_effects),
                }
            )
            return out

        ConformalElectionModel.get_unit_predictions = wrapped
        return self

    def __exit__(self, *a):
        self.cls.get_unit_predictions = self.orig


def _hamletise(pre, cur):
    """most units two thousand times larger, every third reporting unit stays a hamlet: relative baseline weights < 1e-6"""
    ids = pre.geographic_unit_fips.tolist()
    big = set(ids[k] for k in range(len(ids)) if k % 3 != 0)
    for frame, cols in ((pre, ("baseline_turnout", "baseline_dem", "baseline_gop")), (cur, ("results_turnout", "results_dem", "results_gop"))):
        m = frame.geographic_unit_fips.isin(big)
        for c in cols:
            frame.loc[m, c] = frame.loc[m, c] * 2000
        # the hamlets: a handful of voters each
        t, d, g = cols
        frame.loc[~m, t] = (frame.loc[~m, t] // 40).clip(lower=1)
        frame.loc[~m, d] = np.minimum(frame.loc[~m, d] // 40, frame.loc[~m, t])
        frame.loc[~m, g] = frame.loc[~m, t] - frame.loc[~m, d]
    return pre, cur


class _FirstAttemptFails:
    """Every first attempt of a quantile regression (the call with normalised weights) fails the way the solver does
    on badly scaled weights; the model's retry (normalize_weights=False) goes through to the real solver."""

    def __init__(self, kind):
        self.kind = kind

    def __enter__(self):
        import cvxpy
        from elexsolver.QuantileRegressionSolver import QuantileRegressionSolver

        self.cls = QuantileRegressionSolver
        self.orig = QuantileRegressionSolver.fit
        orig, kind = self.orig, self.kind

        def fit(solver, *a, **kw):
            if kw.get("normalize_weights", True):
                raise cvxpy.error.SolverError("injected") if kind == "SolverError" else UserWarning("Solution may be inaccurate")
            return orig(solver, *a, **kw)

        QuantileRegressionSolver.fit = fit
        return self

    def __exit__(self, *a):
        self.cls.fit = self.orig


def _swing_client_run(pre, cur, seed, estimator, fault=None):
    import contextlib

    with (_FirstAttemptFails(fault) if fault else contextlib.nullcontext()), SwingRecorder() as rec:
        synth.run_client(
            pre,
            cur,
            estimands=[("turnout",), ("turnout", "dem"), ("dem", "turnout")][seed % 3],
            pis=(0.7,),
            pi_method=estimator,
            features=(),
            aggregates=["postal_code", "unit"],
            # both unreporting policies (the feeds are complete in the requested columns, so the policy must not matter)
            handle_unreporting=("zero" if seed % 2 == 1 else "drop"),
        )
    return rec.calls


def job_swing_run(arg):
    """One real covariate-free client run on a random (non-dyadic) election -> Trace_UniformSwing records.  Every fourth
    job also runs the same election with very unequal unit sizes; its record keeps the scenario of the ordinary run
    (the exact arithmetic of the specification would overflow on million-voter units) and carries the hamlet run's
    verdict on the regression weights."""
    seed, n_rep, n_non, estimator = arg
    pre, cur = gate_election(n_rep, n_non, seed, lo=15, hi=400)
    if seed % 5 == 3:
        # a fully counted unit whose feed row lacks a count that nobody asked for (a provider that reports turnout and
        # one party first): with turnout / dem as estimands the row is complete, under either unreporting policy
        # (seeded change C05_G)
        k = cur.index[cur.percent_expected_vote == 100][1]
        cur["results_gop"] = cur["results_gop"].astype(float)
        cur.loc[k, "results_gop"] = float("nan")
    if seed % 4 == 2:
        # the weighted median exactly at its boundary: the total weight T of the reporting units is odd and the units
        # below the median weigh exactly (T - 1) / 2 - the median is still unique (the next unit), but an implementation
        # that stops at "half of the weight, rounded down" stops one unit early (seeded change C05_I)
        rep = cur[(cur.percent_expected_vote >= 100) & cur.geographic_unit_fips.isin(pre.geographic_unit_fips)]
        bmap = pre.set_index("geographic_unit_fips").baseline_turnout
        ids = rep.geographic_unit_fips.tolist()
        w = np.array([int(bmap[i]) + 1 for i in ids], dtype=float)
        c = rep.results_turnout.to_numpy(dtype=float)
        ratio = (c - w) / w
        order = np.argsort(ratio, kind="stable")
        k = len(order) // 2
        d = int(w[order[:k]].sum() + 1 - w[order[k:]].sum())
        j = order[-1] if d >= 0 else order[0]
        w_new = int(w[j] + abs(d))
        pre.loc[pre.geographic_unit_fips == ids[j], "baseline_turnout"] = w_new - 1
        cur.loc[cur.geographic_unit_fips == ids[j], "results_turnout"] = int(round((1 + ratio[j]) * w_new))
    try:
        calls = _swing_client_run(pre, cur, seed, estimator)
        hamlet_calls = _swing_client_run(*_hamletise(pre.copy(), cur.copy()), seed, estimator) if seed % 4 == 0 else []
        # every third election is also run with every first solve failing: the retried fit must give the same
        # baseline-weighted median (seeded change C05_F: the retry lost the weights)
        fault_calls = _swing_client_run(pre, cur, seed, estimator, fault=("SolverError", "UserWarning")[seed % 2]) if seed % 3 == 1 else []
    except Exception as e:  # noqa: BLE001
        return [{"kind": "raised", "exc": type(e).__name__, "msg": str(e)[:300], "args": list(arg), "tb": traceback.format_exc()[-1200:]}]
    out = []
    # the reporting units according to the FEED: rows at or above the threshold (100) that are in the baseline (the
    # elections are built so that none of them is set aside by a turnout-factor rule; the outlier models are off)
    n_feed_reporting = int(((cur.percent_expected_vote >= 100) & cur.geographic_unit_fips.isin(pre.geographic_unit_fips)).sum())
    for k, c in enumerate(calls):
        if len(c["rep"]) != n_feed_reporting:
            out.append({"kind": "raised", "exc": "ReportingUnitsDiffer", "msg": f"the feed has {n_feed_reporting} reporting units, the model was handed {len(c['rep'])}", "args": list(arg), "tb": ""})
            continue
        rec = {
            "rep": [{"b": b, "c": cc} for b, cc in c["rep"]],
            "non": [{"b": b, "partial": pp} for b, pp in c["non"]],
            "pred": c["pred"],
            "estimator": estimator,
            "seed": seed,
            "wprop": c["wprop"],
            "hamlets": False,
        }
        out.append(rec)
        if k < len(hamlet_calls):
            out.append(dict(rec, wprop=hamlet_calls[k]["wprop"], hamlets=True))
        if k < len(fault_calls):
            f = fault_calls[k]
            if [tuple(x) for x in f["rep"]] == [tuple(x) for x in c["rep"]] and [tuple(x) for x in f["non"]] == [tuple(x) for x in c["non"]]:
                out.append(dict(rec, pred=f["pred"], wprop=f["wprop"], faulted=True))
            else:
                out.append({"kind": "raised", "exc": "FaultedRunDiffers", "msg": "the faulted run saw other units than the ordinary run", "args": list(arg), "tb": ""})
    return out


def chunks(seq, n):
    seq = list(seq)
    return [seq[i : i + n] for i in range(0, len(seq), n)]


def stratified(items, key, total, rnd):
    """Seeded stratified sample: at most `total` items, every stratum represented."""
    groups = {}
    for it in items:
        groups.setdefault(key(it), []).append(it)
    if len(items) <= total:
        return list(items)
    per = max(1, total // len(groups))
    out = []
    for k in sorted(groups, key=str):
        g = groups[k]
        out.extend(g if len(g) <= per else rnd.sample(g, per))
    return out
