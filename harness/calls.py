"""Calls engine (C06 C07 C08): drive the real BootstrapElectionModel aggregate / national-summary functions with an
injected bootstrap state, so that every row of a TLC-generated decision table can be replayed exactly.

Injection (verified against the code): one nonreporting unit per contest, empty reporting / unexpected frames;
    weighted_z_test_pred = 1000,  weighted_yz_test_pred = p   (p in thousandths  ->  contest margin p/1000)
    errors_B_3 = errors_B_4 = 1000, errors_B_2 = 0, errors_B_1 = draws (thousandths)  ->  error_diff = draws/1000
With B = 3 draws (b, a, a) and alpha = 0.9 the code's quantile levels are 0 and 2/3, which np.quantile evaluates
without interpolation error: Q(0) = b, Q(2/3) = a.  All values are k/1000.0 computed the same way on both sides,
so exact ties (a bound exactly 0) are bit-exact.
"""
import os

import numpy as np
import pandas as pd

from harness import synth  # noqa: F401

NR_COLS = [
    "postal_code",
    "district",
    "geographic_unit_fips",
    "results_margin",
    "results_weights",
    "results_normalized_margin",
    "turnout_factor",
    "reporting",
    "baseline_weights",
    "unit_category",
    "baseline_dem",
    "baseline_gop",
    "baseline_turnout",
    "pred_margin",
    "pred_turnout",
]


def new_model(B=3, **settings):
    from elexmodel.models.BootstrapElectionModel import BootstrapElectionModel

    ms = {"features": ["baseline_normalized_margin"], "B": B}
    ms.update(settings)
    return BootstrapElectionModel(model_settings=ms)


def frames(contests, district=False):
    """contests: list of names (state, or state_district when district=True)."""
    rows = []
    for i, c in enumerate(contests):
        st, d = (c.split("_") + ["1"])[:2] if district else (c, "1")
        rows.append(
            dict(
                postal_code=st,
                district=d,
                geographic_unit_fips=f"u{i:04d}",
                results_margin=0.0,
                results_weights=0.0,
                results_normalized_margin=0.0,
                turnout_factor=0.0,
                reporting=0,
                baseline_weights=1000.0,
                unit_category="expected",
                baseline_dem=500.0,
                baseline_gop=500.0,
                baseline_turnout=1000.0,
                pred_margin=0.0,
                pred_turnout=1000.0,
            )
        )
    nr = pd.DataFrame(rows, columns=NR_COLS)
    empty = nr.iloc[0:0].copy()
    return empty.copy(), nr, empty.copy()


def inject(model, preds_milli, draws_milli):
    """preds_milli: list (one per contest, frame order); draws_milli: list of B-lists."""
    n = len(preds_milli)
    model.ran_bootstrap = True
    model.B = len(draws_milli[0])
    model.weighted_z_test_pred = np.full((n, 1), 1000.0)
    model.weighted_yz_test_pred = np.asarray(preds_milli, dtype=float).reshape(-1, 1)
    model.errors_B_1 = np.asarray(draws_milli, dtype=float)
    model.errors_B_2 = np.zeros_like(model.errors_B_1)
    model.errors_B_3 = np.full_like(model.errors_B_1, 1000.0)
    model.errors_B_4 = np.full_like(model.errors_B_1, 1000.0)
    return model


def run_top_level(contests, preds_milli, draws_milli, alphas=(0.9,), lhs=(), rhs=(), stop=(), district=False, settings=None):
    """Returns (pred list, {alpha: (lower list, upper list)}, model) through the real aggregate functions."""
    model = inject(new_model(B=len(draws_milli[0]), **(settings or {})), preds_milli, draws_milli)
    r, nr, x = frames(contests, district)
    nr["pred_margin"] = np.asarray(preds_milli, dtype=float)
    agg = ["postal_code", "district"] if district else ["postal_code"]
    df = model.get_aggregate_predictions(r, nr, x, agg, "margin", lhs_called_contests=list(lhs), rhs_called_contests=list(rhs))
    out = {}
    for a in alphas:
        lo, hi = model.get_aggregate_prediction_intervals(
            r, nr, x, agg, a, None, "margin", lhs_called_contests=list(lhs), rhs_called_contests=list(rhs), stop_model_call=list(stop)
        )
        out[a] = (np.asarray(lo).flatten().tolist(), np.asarray(hi).flatten().tolist())
    return df, out, model


def to_milli(x):
    return int(round(float(x) * 1000))


def exact_milli(x, tol=1e-9):
    """float margin -> integer thousandths, or None if it is not (numerically) a multiple of 0.001"""
    v = float(x) * 1000
    r = round(v)
    return int(r) if abs(v - r) < tol * 1000 else None


# ----------------------------------------------------------------------------------------------------------------
# C08: national summary


def run_summary_injected(ns, alpha=0.9, sigmoid_T=None, earlier_round=False):
    """ns: a NationalSummary scenario (p, b1, b2 per contest in thousandths, w, lhs, rhs, stop, corr, base, nweights).
    Drives the real get_aggregate_predictions -> get_aggregate_prediction_intervals -> get_national_summary_estimates."""
    from elexmodel.models.BootstrapElectionModel import BootstrapElectionModelException

    contests = sorted(ns["p"])
    extra = {} if sigmoid_T is None else {"agg_model_hard_threshold": False, "T": sigmoid_T}
    model = new_model(B=2, national_summary_correlation=bool(ns["corr"]), **extra)
    preds = [ns["p"][c] for c in contests]
    inject(model, preds, [ns["b1"][c] for c in contests])
    model.errors_B_2 = np.asarray([ns["b2"][c] for c in contests], dtype=float)
    r, nr, x = frames(contests)
    nr["pred_margin"] = np.asarray(preds, dtype=float)
    agg = ["postal_code"]
    kw = dict(lhs_called_contests=list(ns["lhs"]), rhs_called_contests=list(ns["rhs"]))
    if earlier_round:
        # an earlier round of the contest-level calls on the SAME model object with other lists (every contest called for the
        # side its prediction favours, every contest on the stop list): the model object carries `called_contests` /
        # `stop_model_call` from one aggregate call to the summary, and every top-level aggregate call overwrites them -
        # the summary is a function of the lists in force, not of what was in force before (NationalSummary.tla: `called`,
        # `stop` are assigned by every top-level interval step; seeded change C08_J)
        kw0 = dict(lhs_called_contests=[c for c in contests if ns["p"][c] > 0], rhs_called_contests=[c for c in contests if ns["p"][c] <= 0])
        model.get_aggregate_predictions(r, nr, x, agg, "margin", **kw0)
        model.get_aggregate_prediction_intervals(r, nr, x, agg, alpha, None, "margin", stop_model_call=list(contests), **kw0)
    model.get_aggregate_predictions(r, nr, x, agg, "margin", **kw)
    model.get_aggregate_prediction_intervals(r, nr, x, agg, alpha, None, "margin", stop_model_call=list(ns["stop"]), **kw)
    weights = {c: ns["w"][c] for c in contests[: max(0, min(len(contests), ns["nweights"]))]}  # {} when nweights = 0
    for k in range(max(0, ns["nweights"] - len(contests))):
        weights[f"zz{k}"] = 1
    try:
        out = model.get_national_summary_estimates(weights, ns["base"], alpha)["margin"]
    except BootstrapElectionModelException:
        return {"kind": "error", "pred": 0, "lower": 0, "upper": 0}
    if sigmoid_T is not None:
        # the sigmoid summary is a real number (reported with two decimals): hundredths
        return {"kind": "ok", "pred": int(round(out[0] * 100)), "lower": int(round(out[1] * 100)), "upper": int(round(out[2] * 100))}
    vals = []
    for v in out:
        if abs(v - round(v)) > 1e-9:
            raise ValueError(f"national summary value not integral with integer weights: {out}")
        vals.append(int(round(v)))
    return {"kind": "ok", "pred": vals[0], "lower": vals[1], "upper": vals[2]}


# ----------------------------------------------------------------------------------------------------------------
# C06: ranks, bounds, client tables


def ranks_record(B):
    m = new_model(B=B)
    rl, ru = [], []
    for A in range(1, 1000):
        lq, uq = m._get_quantiles(A / 1000)
        rl.append(int(round(float(lq) * B)))
        ru.append(int(round(float(uq) * B)))
    return {"kind": "ranks", "B": B, "rl": rl, "ru": ru}


UNDEFINED = -(10 ** 9)  # how an undefined (NaN) number of a returned table is shown to the trace specification


def sgn_scaled(x, scale):
    if float(x) != float(x):
        return UNDEFINED
    v = int(round(float(x) * scale))
    if v == 0 and float(x) != 0.0:
        v = 1 if x > 0 else -1
    return v


def bounds_record(p, xs, levels, rnd):
    """p, xs integers (thousandths for the aggregate, arbitrary units for the unit).  xs is passed shuffled."""
    draws = list(xs)
    rnd.shuffle(draws)
    obs = []
    model = inject(new_model(B=len(draws)), [p], [draws])
    for A in levels:
        pi = model.get_unit_prediction_intervals(None, None, A / 1000, "margin")
        ulo, uhi = float(np.asarray(pi.lower).flatten()[0]), float(np.asarray(pi.upper).flatten()[0])
        df, out, _ = run_top_level(["AA"], [p], [draws], alphas=(A / 1000,))
        alo, ahi = out[A / 1000][0][0], out[A / 1000][1][0]
        obs.append({"ulo": int(round(ulo)), "uhi": int(round(uhi)), "alo": sgn_scaled(alo, 1e6), "ahi": sgn_scaled(ahi, 1e6)})
        if abs(ulo - round(ulo)) > 1e-9 or abs(uhi - round(uhi)) > 1e-9:
            raise ValueError("unit bounds are not whole numbers")
    return {"kind": "bounds", "p": p, "xs": sorted(xs), "levels": list(levels), "obs": obs}


def _tok(vals):
    import hashlib

    return hashlib.sha1("|".join(float(v).hex() for v in vals).encode()).hexdigest()[:12]


def client_record(seed, with_lists=True):
    """A real bootstrap client run (random election/configuration) with call / stop lists, and the same run
    without lists for the 'untouched rows are unchanged' clause."""
    import random as _r

    from harness import synth

    rnd = _r.Random(seed)
    district = rnd.random() < 0.35 and seed % 5 != 0
    states = ("AA", "BB", "CC") if rnd.random() < 0.6 else ("AA", "BB", "CC", "DD")
    n = rnd.choice([48, 60, 72])
    # some elections are fully reported (no outstanding unit anywhere): calls and stops must still be honoured
    frac = rnd.choice([0.5, 0.7, 0.85, 1.0])
    pre, cur = synth.make_election(n=n, states=states, seed=seed, district=district, frac_reporting=frac, thr=100)
    pre = synth.with_margin_features(pre)
    stress = rnd.random() < 0.4 and frac < 1.0
    if stress:
        # a few outstanding units far outside the covariate range of the reporting units: the regression
        # extrapolates their margin / turnout factor far beyond the admissible ranges, which the clips must contain
        # make the margin depend strongly on x1 (so that its coefficient is large)
        x1 = pre.set_index("geographic_unit_fips").x1.reindex(cur.geographic_unit_fips).to_numpy()
        two = (cur.results_dem + cur.results_gop).to_numpy().astype(float)
        share = np.clip(np.divide(cur.results_dem.to_numpy(), np.maximum(two, 1)) + 0.12 * x1, 0.02, 0.98)
        cur["results_dem"] = np.round(two * share).astype(int)
        cur["results_gop"] = (two - cur["results_dem"]).astype(int)
        nonrep = cur[cur.percent_expected_vote < 100].geographic_unit_fips.tolist()
        far = set(rnd.sample(nonrep, min(len(nonrep), 4)))
        pre.loc[pre.geographic_unit_fips.isin(far), "x1"] = [rnd.choice([-60.0, 60.0]) for _ in range(int(pre.geographic_unit_fips.isin(far).sum()))]
    empty_contest = (not district) and (seed % 5 == 0 or rnd.random() < 0.2)
    if empty_contest:
        # a contest in which nothing can be predicted yet: its only unit has a zero baseline and no votes (set aside by
        # the model), so its margin is 0 / 0 - a call or a stop for it must be honoured all the same (seeded change C07_E)
        states = tuple(states) + ("ZE",)
        row = pre.iloc[0].copy()
        row["postal_code"], row["geographic_unit_fips"], row["county_fips"] = "ZE", "ZE000_9999", "ZE000"
        for c in ("baseline_turnout", "baseline_dem", "baseline_gop"):
            row[c] = 0
        pre = pd.concat([pre, pd.DataFrame([row])], ignore_index=True)
        pre = synth.with_margin_features(pre)
        crow = cur.iloc[0].copy()
        crow["postal_code"], crow["geographic_unit_fips"] = "ZE", "ZE000_9999"
        for c in ("results_turnout", "results_dem", "results_gop"):
            crow[c] = 0
        crow["percent_expected_vote"] = rnd.choice([0, 100])
        cur = pd.concat([cur, pd.DataFrame([crow])], ignore_index=True)
    if seed % 7 == 3:
        # a fully counted unit one of whose party counts did not arrive: under the default policy the unit is dropped from
        # the joined data and comes back as an unexpected unit; a missing count counts as no votes (finding F18: it used
        # to make every contest undefined) - and calls and stops are honoured all the same (seeded change C07_G)
        jr = int(cur.index[cur.percent_expected_vote >= 100][0])
        cur["results_dem"] = cur["results_dem"].astype(float)
        cur.loc[jr, "results_dem"] = float("nan")
    if seed % 3 == 1:
        # a baseline unit whose feed row carries votes but no expected-vote percentage (the provider has not estimated it
        # yet): neither at nor below the threshold - it must not reach the model as an outstanding unit with undefined
        # clipping bounds (seeded change C06_H)
        j = int(cur.index[cur.percent_expected_vote < 100][0]) if (cur.percent_expected_vote < 100).any() else 0
        cur["percent_expected_vote"] = cur["percent_expected_vote"].astype(float)
        cur.loc[j, "percent_expected_vote"] = float("nan")
    office = "H" if district else "G"
    gut = "precinct-district" if district else "precinct"
    aggs = ["postal_code", "county_fips"] if not district else ["postal_code", "district", "county_fips"]
    if rnd.random() < 0.4:
        aggs.append("county_classification")
    rnd.shuffle(aggs)
    mp = {"B": rnd.choice([2, 3, 10, 40])}
    if rnd.random() < 0.5:
        # units the model sets aside itself (blocklisted, some of them reporting with votes; one with a zero baseline):
        # they carry a county and a classification, so they are part of those groups' counted votes (seeded change C06_E)
        ids = pre.geographic_unit_fips.tolist()
        mp["unit_blocklist"] = rnd.sample(ids, 4)
        z = rnd.choice([i for i in ids if i not in mp["unit_blocklist"]])
        for c in ("baseline_turnout", "baseline_dem", "baseline_gop"):
            pre.loc[pre.geographic_unit_fips == z, c] = 0
        pre = synth.with_margin_features(pre)
    lam = rnd.choice([0, 1.0, None])
    if lam is not None:
        mp["lambda_"] = lam
    if frac < 1.0 and rnd.random() < 0.3:
        # an error bound on the expected-vote percentage larger than one half: for a unit between 50 percent and the bound
        # the naive denominator (percentage - bound) is negative - the admissible range handed to the clips must stay a
        # range (lower <= upper, turnout not negative; seeded change C06_J)
        mp["percent_expected_vote_error_bound"] = rnd.choice([0.6, 0.75])
        nonrep_idx = cur.index[cur.percent_expected_vote < 100]
        if len(nonrep_idx):
            cur["percent_expected_vote"] = cur["percent_expected_vote"].astype(float)
            cur.loc[nonrep_idx[-1], "percent_expected_vote"] = rnd.choice([50.0, 55.0, 58.0])
    fe = rnd.choice([{}, {}, {"county_classification": "all"}, {"postal_code": "all"}])
    alphas = sorted(rnd.sample([0.5, 0.7, 0.9, 0.95, 0.99], rnd.choice([2, 3])))
    if district:
        contests = sorted({f"{r.postal_code}_{r.district}" for r in pre.itertuples()})
    else:
        contests = list(states)
    lhs = rhs = stop = []
    if with_lists:
        roles = {c: rnd.choice(["L", "R", "N", "N", "N"]) for c in contests}
        if empty_contest:
            roles["ZE"] = ("L", "R")[seed % 2] if seed % 5 == 0 else rnd.choice(["L", "R", "N"])
        lhs = [c for c in contests if roles[c] == "L"]
        rhs = [c for c in contests if roles[c] == "R"]
        stop = [c for c in contests if rnd.random() < 0.25]
    pres = (not district) and rnd.random() < 0.3 and frac < 1.0
    if pres:
        # down-ballot correction from a presidential race in the same units (three stored files, served by the fake
        # object store): for a few outstanding units the presidential model predicts a near-unanimous result and this
        # race runs ahead of it, so the corrected margin overshoots what the outstanding vote allows - the clips must hold
        mp["correct_from_presidential"] = True
        m = cur.merge(pre[["geographic_unit_fips", "baseline_dem", "baseline_gop"]], on="geographic_unit_fips")
        key = m.geographic_unit_fips.str.split("_").str[1]
        two = (m.results_dem + m.results_gop).astype(float)
        marg = np.divide((m.results_dem - m.results_gop).astype(float), np.maximum(two, 1.0))
        nonrep_mask = (m.percent_expected_vote < 100).to_numpy()
        hot = np.zeros(len(m), dtype=bool)
        hot[np.where(nonrep_mask)[0][:5]] = True
        pres_marg_partial = np.clip(marg - 0.06, -0.99, 0.99)
        pres_pred_norm = np.where(hot, rnd.choice([0.995, -0.995]), np.clip(pres_marg_partial + 0.01, -0.99, 0.99))
        final_turnout = np.maximum(two * 100.0 / np.maximum(m.percent_expected_vote.to_numpy(), 1), 1.0)
        root = f"{os.environ['MODEL_S3_PATH_ROOT']}-{os.environ['DATA_ENV']}/{synth.EID}"
        synth.OBJECTS[f"{root}/data/P/data_county.csv"] = pd.DataFrame({"geographic_unit_fips": key, "baseline_dem": m.baseline_dem, "baseline_gop": m.baseline_gop}).to_csv(index=False)
        synth.OBJECTS[f"{root}/results/P/county/current.csv"] = pd.DataFrame({"geographic_unit_fips": key, "results_weights": two}).to_csv(index=False)
        synth.OBJECTS[f"{root}/predictions/P/county/unit_data/current.csv"] = pd.DataFrame(
            {"postal_code": m.postal_code, "geographic_unit_fips": key, "pred_margin": pres_pred_norm * final_turnout, "reporting": (~nonrep_mask).astype(int),
             "unit_category": "expected", "results_margin": pres_marg_partial * two, "pred_turnout": final_turnout}
        ).to_csv(index=False)
    kw = dict(estimands=("margin",), pi_method="bootstrap", features=("baseline_normalized_margin", "x1"), office=office, gut=gut,
              aggregates=aggs + ["unit"], model_parameters=mp, pis=alphas, fixed_effects=fe)
    c1, res1 = synth.run_client(pre, cur, lhs_called_contests=lhs, rhs_called_contests=rhs, stop_model_call=stop, **kw)
    c0, res0 = synth.run_client(pre, cur, **kw)
    level_of = {"state_data": "postal_code", "district_data": "district", "county_data": "county_fips", "classification_data": "county_classification"}
    order = ["postal_code", "district", "county_classification", "county_fips"]
    groups = []
    for tname, df in res1.items():
        if tname == "unit_data":
            continue
        lv = level_of[tname]
        keys = [k for k in order if k in ({"postal_code", lv} | ({"district"} if district else set()))]
        top = keys == (["postal_code", "district"] if district else ["postal_code"])
        base = res0[tname].set_index(keys)
        for _, r in df.iterrows():
            key = tuple(r[k] for k in keys)
            ikey = key if len(keys) > 1 else key[0]
            cols = ["pred_margin", "results_margin", "pred_turnout"] + [f"{b}_{a}_margin" for a in alphas for b in ("lower", "upper")]
            same = ikey in base.index and _tok([r[c] for c in cols]) == _tok([base.loc[ikey][c] for c in cols])
            groups.append(
                {
                    "table": tname,
                    "name": "_".join(str(x) for x in key),
                    "top": bool(top),
                    "pred": sgn_scaled(r["pred_margin"], 1e6),
                    "lower": [sgn_scaled(r[f"lower_{a}_margin"], 1e6) for a in alphas],
                    "upper": [sgn_scaled(r[f"upper_{a}_margin"], 1e6) for a in alphas],
                    "turnout": sgn_scaled(r["pred_turnout"], 1000),
                    "same": bool(same),
                }
            )
    units = []
    for _, r in res1["unit_data"].iterrows():
        final = int(r["reporting"]) == 1 or str(r["unit_category"]) != "expected"
        units.append(
            {
                "pred": sgn_scaled(r["pred_margin"], 1000),
                "lower": [sgn_scaled(r[f"lower_{a}_margin"], 1000) for a in alphas],
                "upper": [sgn_scaled(r[f"upper_{a}_margin"], 1000) for a in alphas],
                "turnout": sgn_scaled(r["pred_turnout"], 1000),
                "final": bool(final),
            }
        )
    return {"kind": "client", "lhs": lhs, "rhs": rhs, "stop": stop, "alphas": alphas, "district": district, "B": mp["B"],
            "lambda": "cv" if lam is None else lam, "stress": stress, "fully_reported": frac == 1.0, "presidential": bool(pres), "groups": groups, "units": units,
            "set_aside": len(mp.get("unit_blocklist", [])), "empty_contest": bool(empty_contest and with_lists and roles.get("ZE") in ("L", "R")), "missing_count": seed % 7 == 3}


def known_part_record(rnd):
    """C06 / C11: a group with a reporting unit, an unexpected unit and a nonreporting unit with injected draws, through
    the real get_aggregate_predictions / get_aggregate_prediction_intervals at a NON-top level (county), so that no
    call logic interferes.  All inputs are small integers; the specification recomputes the bounds exactly."""
    from fractions import Fraction

    while True:
        w, y, z = rnd.choice([2, 4, 6]), rnd.choice([-1, 0, 1]), rnd.choice([1, 2])
        mu, wu = rnd.randint(-4, 4), rnd.randint(4, 7)
        yz, zp = rnd.randint(-3, 3), rnd.randint(3, 5)
        e = [[rnd.randint(-3, 3) for _ in range(2)] for _ in range(2)] + [[rnd.randint(2, 5) for _ in range(2)] for _ in range(2)]
        e1, e2, e3, e4 = e
        Kyz, Kz = w * y * z + mu, w * z + wu
        d = [Fraction(Kyz + e1[k], Kz + e3[k]) - Fraction(Kyz + e2[k], Kz + e4[k]) for k in range(2)]
        if d[0] <= d[1]:
            break
    model = new_model(B=3)
    r, nr, x = frames(["AA"])
    cols = list(nr.columns) + ["county_fips"]
    nr["county_fips"] = "c1"
    rr = nr.copy()
    rr["geographic_unit_fips"] = "r0001"
    rr["reporting"] = 1
    rr["baseline_weights"] = float(w)
    rr["results_normalized_margin"] = float(y)
    rr["turnout_factor"] = float(z)
    rr["results_margin"] = float(w * y * z)
    rr["results_weights"] = float(w * z)
    rr["pred_margin"] = float(w * y * z)
    rr["pred_turnout"] = float(w * z)
    xx = nr.copy()
    xx["geographic_unit_fips"] = "x0001"
    xx["unit_category"] = "unexpected"
    xx["results_margin"] = float(mu)
    xx["results_weights"] = float(wu)
    xx["results_normalized_margin"] = float(mu) / float(wu)
    xx["pred_margin"] = float(mu)
    xx["pred_turnout"] = float(wu)
    nr["pred_margin"] = float(yz)
    nr["pred_turnout"] = float(zp)
    model.ran_bootstrap = True
    model.B = 3
    model.weighted_z_test_pred = np.array([[float(zp)]])
    model.weighted_yz_test_pred = np.array([[float(yz)]])
    model.errors_B_1 = np.array([[e1[0], e1[1], e1[1]]], dtype=float)
    model.errors_B_2 = np.array([[e2[0], e2[1], e2[1]]], dtype=float)
    model.errors_B_3 = np.array([[e3[0], e3[1], e3[1]]], dtype=float)
    model.errors_B_4 = np.array([[e4[0], e4[1], e4[1]]], dtype=float)
    agg = ["postal_code", "county_fips"]
    df = model.get_aggregate_predictions(rr, nr, xx, agg, "margin")
    lo, hi = model.get_aggregate_prediction_intervals(rr, nr, xx, agg, 0.9, None, "margin")
    obs = {"pred": sgn_scaled(df["pred_margin"].iloc[0], 1e4), "lower": sgn_scaled(np.asarray(lo).flatten()[0], 1e4), "upper": sgn_scaled(np.asarray(hi).flatten()[0], 1e4)}
    return {"kind": "known", "w": w, "y": y, "z": z, "mu": mu, "wu": wu, "yz": yz, "zp": zp, "e1": e1, "e2": e2, "e3": e3, "e4": e4, "obs": obs}
