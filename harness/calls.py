"""Calls engine (C06 C07 C08): drive the real BootstrapElectionModel aggregate / national-summary functions with an
injected bootstrap state, so that every row of a TLC-generated decision table can be replayed exactly.

Injection (verified against the code): one nonreporting unit per contest, empty reporting / unexpected frames;
    weighted_z_test_pred = 1000,  weighted_yz_test_pred = p   (p in thousandths  ->  contest margin p/1000)
    errors_B_3 = errors_B_4 = 1000, errors_B_2 = 0, errors_B_1 = draws (thousandths)  ->  error_diff = draws/1000
With B = 3 draws (b, a, a) and alpha = 0.9 the code's quantile levels are 0 and 2/3, which np.quantile evaluates
without interpolation error: Q(0) = b, Q(2/3) = a.  All values are k/1000.0 computed the same way on both sides,
so exact ties (a bound exactly 0) are bit-exact.
"""
import numpy as np
import pandas as pd

from harness import synth  # noqa: F401

NR_COLS = [
    "postal_code",
    "district",
    "geographic_unit_fips",
    "results_margin",
    "results_weights",
    "results_normalized_margin",
    "turnout_factor",
    "reporting",
    "baseline_weights",
    "unit_category",
    "baseline_dem",
    "baseline_gop",
    "baseline_turnout",
    "pred_margin",
    "pred_turnout",
]


def new_model(B=3, **settings):
    from elexmodel.models.BootstrapElectionModel import BootstrapElectionModel

    ms = {"features": ["baseline_normalized_margin"], "B": B}
    ms.update(settings)
    return BootstrapElectionModel(model_settings=ms)


def frames(contests, district=False):
    """contests: list of names (state, or state_district when district=True)."""
    rows = []
    for i, c in enumerate(contests):
        st, d = (c.split("_") + ["1"])[:2] if district else (c, "1")
        rows.append(
            dict(
                postal_code=st,
                district=d,
                geographic_unit_fips=f"u{i:04d}",
                results_margin=0.0,
                results_weights=0.0,
                results_normalized_margin=0.0,
                turnout_factor=0.0,
                reporting=0,
                baseline_weights=1000.0,
                unit_category="expected",
                baseline_dem=500.0,
                baseline_gop=500.0,
                baseline_turnout=1000.0,
                pred_margin=0.0,
                pred_turnout=1000.0,
            )
        )
    nr = pd.DataFrame(rows, columns=NR_COLS)
    empty = nr.iloc[0:0].copy()
    return empty.copy(), nr, empty.copy()


def inject(model, preds_milli, draws_milli):
    """preds_milli: list (one per contest, frame order); draws_milli: list of B-lists."""
    n = len(preds_milli)
    model.ran_bootstrap = True
    model.B = len(draws_milli[0])
    model.weighted_z_test_pred = np.full((n, 1), 1000.0)
    model.weighted_yz_test_pred = np.asarray(preds_milli, dtype=float).reshape(-1, 1)
    model.errors_B_1 = np.asarray(draws_milli, dtype=float)
    model.errors_B_2 = np.zeros_like(model.errors_B_1)
    model.errors_B_3 = np.full_like(model.errors_B_1, 1000.0)
    model.errors_B_4 = np.full_like(model.errors_B_1, 1000.0)
    return model


def run_top_level(contests, preds_milli, draws_milli, alphas=(0.9,), lhs=(), rhs=(), stop=(), district=False, settings=None):
    """Returns (pred list, {alpha: (lower list, upper list)}, model) through the real aggregate functions."""
    model = inject(new_model(B=len(draws_milli[0]), **(settings or {})), preds_milli, draws_milli)
    r, nr, x = frames(contests, district)
    nr["pred_margin"] = np.asarray(preds_milli, dtype=float)
    agg = ["postal_code", "district"] if district else ["postal_code"]
    df = model.get_aggregate_predictions(r, nr, x, agg, "margin", lhs_called_contests=list(lhs), rhs_called_contests=list(rhs))
    out = {}
    for a in alphas:
        lo, hi = model.get_aggregate_prediction_intervals(
            r, nr, x, agg, a, None, "margin", lhs_called_contests=list(lhs), rhs_called_contests=list(rhs), stop_model_call=list(stop)
        )
        out[a] = (np.asarray(lo).flatten().tolist(), np.asarray(hi).flatten().tolist())
    return df, out, model


def to_milli(x):
    return int(round(float(x) * 1000))


def exact_milli(x, tol=1e-9):
    """float margin -> integer thousandths, or None if it is not (numerically) a multiple of 0.001"""
    v = float(x) * 1000
    r = round(v)
    return int(r) if abs(v - r) < tol * 1000 else None


# ----------------------------------------------------------------------------------------------------------------
# C08: national summary


def run_summary_injected(ns, alpha=0.9):
    """ns: a NationalSummary scenario (p, b1, b2 per contest in thousandths, w, lhs, rhs, stop, corr, base, nweights).
    Drives the real get_aggregate_predictions -> get_aggregate_prediction_intervals -> get_national_summary_estimates."""
    from elexmodel.models.BootstrapElectionModel import BootstrapElectionModelException

    contests = sorted(ns["p"])
    model = new_model(B=2, national_summary_correlation=bool(ns["corr"]))
    preds = [ns["p"][c] for c in contests]
    inject(model, preds, [ns["b1"][c] for c in contests])
    model.errors_B_2 = np.asarray([ns["b2"][c] for c in contests], dtype=float)
    r, nr, x = frames(contests)
    nr["pred_margin"] = np.asarray(preds, dtype=float)
    agg = ["postal_code"]
    kw = dict(lhs_called_contests=list(ns["lhs"]), rhs_called_contests=list(ns["rhs"]))
    model.get_aggregate_predictions(r, nr, x, agg, "margin", **kw)
    model.get_aggregate_prediction_intervals(r, nr, x, agg, alpha, None, "margin", stop_model_call=list(ns["stop"]), **kw)
    weights = {c: ns["w"][c] for c in contests}
    extra = ns["nweights"] - len(contests)
    for k in range(max(0, extra)):
        weights[f"zz{k}"] = 1
    if extra < 0:
        weights.pop(contests[-1])
    try:
        out = model.get_national_summary_estimates(weights, ns["base"], alpha)["margin"]
    except BootstrapElectionModelException:
        return {"kind": "error", "pred": 0, "lower": 0, "upper": 0}
    vals = []
    for v in out:
        if abs(v - round(v)) > 1e-9:
            raise ValueError(f"national summary value not integral with integer weights: {out}")
        vals.append(int(round(v)))
    return {"kind": "ok", "pred": vals[0], "lower": vals[1], "upper": vals[2]}
