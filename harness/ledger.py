"""Ledger engine (C01 C02 C03 C09 C11): materialise abstract Ledger scenarios as real elections, run the real
client, project the returned tables back onto the specification's variables.

An abstract scenario `sc` is exactly the record of spec/Ledger.tla (see MC_Ledger.MkUnit).  Several scenarios are
packed into one client run: scenario p lives in its own states  P<pp>1 / P<pp>2 / P<pp>0, and a ballast state ZZ
provides enough well-behaved reporting units for every estimator's minimum-units gate (all aggregates are keyed by
postal_code first, so packing cannot mix ledgers).
"""
import math
import random
from fractions import Fraction

import numpy as np
import pandas as pd

from harness import synth

NA = "~"
THR = 90  # the customary reporting threshold of materialised runs
# ... but the threshold is an argument like any other: runs are spread over several values, among them values where
# percent / 100 and threshold * 0.01 are different floats (70, 83, 95, 57: seeded change C01_E) and the maximum 100
THRS = (90, 70, 95, 90, 83, 100, 57, 90)


def thr_for(seed):
    return THRS[int(seed) % len(THRS)]

EST_SETUP = {
    "nonparametric": dict(estimands=("turnout",), features=("x1",), mp={}),
    "gaussian": dict(estimands=("turnout",), features=("x1",), mp={}),
    "bootstrap": dict(estimands=("margin",), features=("baseline_normalized_margin", "x1"), mp={"B": 8}),
}
LEVEL_TABLE = {
    "postal_code": "state_data",
    "county_fips": "county_data",
    "district": "district_data",
    "county_classification": "classification_data",
}
AGG_ORDER = ["postal_code", "district", "county_classification", "county_fips"]


def agg_keys(level, district_office):
    want = {"postal_code", level} | ({"district"} if district_office else set())
    return [c for c in AGG_ORDER if c in want]


# ----------------------------------------------------------------------------------------------------------------
# ballast


def ballast(seed, n_rep=26, n_non=3, district_gut=False, high_pev=False):
    thr = thr_for(seed)
    rng = np.random.default_rng(seed)
    rows, feed = [], []
    for i in range(n_rep + n_non):
        county = f"z{i // 5}"
        d = f"d{1 + i % 2}"
        fid = f"{d}_{county}_ZZ{i:03d}" if district_gut else f"{county}_ZZ{i:03d}"
        bt = int(rng.integers(400, 3000))
        bd = int(bt * rng.uniform(0.25, 0.7))
        bg = bt - bd
        rows.append(
            dict(
                postal_code="ZZ",
                geographic_unit_fips=fid,
                county_fips=county,
                county_classification=["k1", "k2", "k3"][i % 3],
                district=d,
                baseline_turnout=bt,
                baseline_dem=bd,
                baseline_gop=bg,
                x1=float(rng.normal()),
            )
        )
        swing = rng.normal(0.04, 0.08)
        t = max(10, int(round(bt * (1 + swing))))
        share = float(np.clip(bd / bt + rng.normal(0, 0.04), 0.05, 0.95))
        dem = int(round(t * share))
        pev = 100
        if i >= n_rep:
            pev = int(rng.integers(min(60 if high_pev else 10, thr - 12), thr))
            t = int(t * pev / 100)
            dem = int(dem * pev / 100)
        feed.append(
            dict(
                postal_code="ZZ",
                geographic_unit_fips=fid,
                results_turnout=t,
                results_dem=dem,
                results_gop=t - dem,
                percent_expected_vote=pev,
            )
        )
    return rows, feed


# ----------------------------------------------------------------------------------------------------------------
# materialiser


def _state(p, s):
    return {"S1": f"P{p:02d}1", "S2": f"P{p:02d}2", "S0": f"P{p:02d}0"}.get(s, s)


def unit_id(p, i, u, district_gut):
    # the precinct part of an id may itself contain separators (split precincts): every other unit gets one
    tag = f"P{p:02d}u{i}" if (i + p) % 2 == 0 else f"P{p:02d}_u{i}_b"
    if u["inBase"]:
        co, di = u["county"], u["district"]
    else:
        co, di = u["idCounty"], u["idDistrict"]
    return f"{di}_{co}_{tag}" if district_gut else f"{co}_{tag}"


TF_VARIANTS = [Fraction(1, 2), Fraction(2), Fraction(1, 4), Fraction(4)]  # = lo, = hi, < lo, > hi


def materialise(pack, seed, vote_scale=3, exact_boundaries=True, ballast_rep=26, ballast_non=3, shuffle=True, high_pev=False):
    """pack: list of abstract scenarios sharing policy, districtOffice, levels.  Returns pre, cur, meta."""
    sc0 = pack[0]
    district_gut = sc0["districtGut"]
    brow, frow = ballast(seed, n_rep=ballast_rep, n_non=ballast_non, district_gut=district_gut, high_pev=high_pev)
    thr = thr_for(seed)
    meta = {"units": {}, "states": {}, "blocklist": [], "unit_blocklist": [], "ballast_rep": ballast_rep}
    for p, sc in enumerate(pack):
        assert (sc["policy"], sc["districtOffice"], list(sc["levels"])) == (
            sc0["policy"],
            sc0["districtOffice"],
            list(sc0["levels"]),
        )
        for s in sc["blockStates"]:
            meta["blocklist"].append(_state(p, s))
        for idx, u in enumerate(sc["units"]):
            i = idx + 1
            fid = unit_id(p, i, u, district_gut)
            meta["units"][(p, i)] = fid
            v = int(u["votes"])
            # feed numbers: turnout = 3v (dem 2v, gop v) so that margin = v and two-party weights = turnout
            t, dem, gop = vote_scale * v, 2 * v, v
            # the baseline is derived from "base_votes" when present (C10 perturbs the feed count only)
            vb = int(u.get("base_votes", v))
            tb = vote_scale * vb
            if u["inBase"]:
                if u["zeroBase"]:
                    bt = 0
                elif u["tfStrange"] and vb > 0:
                    f = TF_VARIANTS[(i + p) % 4] if exact_boundaries else TF_VARIANTS[2 + (i + p) % 2]
                    bt = int(Fraction(tb) / f)
                    assert Fraction(tb, bt) == f
                elif u.get("hamlet"):
                    bt = 1
                elif vb > 0 and u.get("extreme"):
                    # inside the hard limits (factor 1.9) but far from everybody else in turnout AND in margin change
                    # (baseline 39 : 1 against, result 2 : 1 for): meant to be flagged by BOTH default outlier models
                    bt = max(2, (tb * 10) // 19)
                elif vb > 0:
                    # a modelled unit: factor strictly inside (0.5, 2); vary it a little
                    bt = [tb, tb + tb // 4, tb - tb // 4][(i + p) % 3]
                else:
                    bt = vote_scale * 4 ** (1 + i % 5)
                bd = bt // 2 + (i % 3 if bt > 4 else 0)
                if u.get("extreme") and vb > 0:
                    bd = bt // 40
                if u.get("hamlet"):
                    bd = 1
                brow.append(
                    dict(
                        postal_code=_state(p, u["bstate"]),
                        geographic_unit_fips=fid,
                        county_fips=u["county"],
                        county_classification=u["cls"],
                        district=u["district"],
                        baseline_turnout=bt,
                        baseline_dem=bd,
                        baseline_gop=bt - bd,
                        x1=float(((i * 7 + p * 3) % 11 - 5) / 5.0),
                    )
                )
                if u["blockUnit"]:
                    meta["unit_blocklist"].append(fid)
            if u["inFeed"]:
                if u["rep"]:
                    # at the threshold, at 100, or above 100 (more votes in than the provider expected): reporting all the same
                    pev = thr if (i + p) % 2 == 0 else (100 if (i + p) % 4 == 1 else 103)
                else:
                    pev = thr - 1 if (i + p) % 2 == 0 else min(70 if high_pev else 40, thr - 3)
                    if exact_boundaries and (i + p) % 5 == 0 and not high_pev:
                        pev = 0
                frow.append(
                    dict(
                        postal_code=_state(p, u["fstate"]),
                        geographic_unit_fips=fid,
                        results_turnout=t,
                        # a missing result for ANOTHER requested estimand (multi-estimand runs only)
                        results_dem=float("nan") if u.get("nullRes") else dem,
                        results_gop=gop,
                        percent_expected_vote=pev,
                    )
                )
    pre = pd.DataFrame(brow)
    cur = pd.DataFrame(frow)
    pre = synth.with_margin_features(pre)
    # shuffle rows: nothing may depend on input order
    if shuffle:
        rnd = np.random.default_rng(seed + 1)
        pre = pre.iloc[rnd.permutation(len(pre))].reset_index(drop=True)
        cur = cur.iloc[rnd.permutation(len(cur))].reset_index(drop=True)
    return pre, cur, meta


class OutlierRecorder:
    """Run-time wrapper around CombinedDataHandler._fit_outlier_detection_model: which response variables the
    outlier model was consulted for, and which units it flagged (an oracle input of the Ledger specification)."""

    def __init__(self):
        self.calls = {}
        self.inputs = {}  # response variable -> ids of the units the outlier model was fitted on (its read set)

    def __enter__(self):
        from elexmodel.handlers.data.CombinedData import CombinedDataHandler

        self.cls = CombinedDataHandler
        self.orig = CombinedDataHandler._fit_outlier_detection_model
        rec = self

        def wrapped(self_, reporting_units, response_variable, outlier_z_threshold):
            out = rec.orig(self_, reporting_units, response_variable, outlier_z_threshold)
            rec.calls[response_variable] = set(out["geographic_unit_fips"].tolist())
            rec.inputs[response_variable] = set(reporting_units["geographic_unit_fips"].tolist())
            return out

        CombinedDataHandler._fit_outlier_detection_model = wrapped
        return self

    def __exit__(self, *a):
        self.cls._fit_outlier_detection_model = self.orig


def run_pack(pack, estimator, seed, pis=(0.7, 0.9), extra_mp=None, client=None, ballast_rep=26, ballast_non=3, shuffle=True, high_pev=False, frames=None, **kw):
    sc0 = pack[0]
    if frames is not None:
        pre, cur, meta = frames
    else:
        pre, cur, meta = materialise(pack, seed, ballast_rep=ballast_rep, ballast_non=ballast_non, shuffle=shuffle, high_pev=high_pev)
    setup = EST_SETUP[estimator]
    office = "H" if sc0["districtOffice"] else "G"
    gut = "precinct-district" if sc0["districtGut"] else "precinct"
    mp = dict(setup["mp"])
    mp.update({"unit_blocklist": meta["unit_blocklist"], "postal_code_blocklist": meta["blocklist"]})
    mp["fit_turnout_outlier_model"] = bool(sc0.get("optT", False))
    mp["fit_margin_outlier_model"] = bool(sc0.get("optM", False))
    if extra_mp:
        mp.update(extra_mp)
    aggregates = list(sc0["levels"]) + ["unit"]
    with OutlierRecorder() as rec:
        c, res = _run_client(pre, cur, setup, office, pis, gut, aggregates, estimator, sc0, mp, client, kw, thr_for(seed))
    meta["outlier_calls"] = rec.calls
    meta["outlier_inputs"] = rec.inputs
    return c, res, meta, (pre, cur)


def _run_client(pre, cur, setup, office, pis, gut, aggregates, estimator, sc0, mp, client, kw, thr=THR):
    estimands = setup["estimands"]
    if sc0.get("multiEst"):
        assert estimator != "bootstrap"
        estimands = ("dem", "turnout")  # the estimand with the missing values is not the last one
    return synth.run_client(
        pre,
        cur,
        estimands=estimands,
        office=office,
        pis=pis,
        thr=thr,
        gut=gut,
        features=setup["features"],
        aggregates=aggregates,
        pi_method=estimator,
        handle_unreporting=sc0["policy"],
        model_parameters=mp,
        client=client,
        **kw,
    )


# ----------------------------------------------------------------------------------------------------------------
# projector


def _int(x, what):
    if x is None or (isinstance(x, float) and (math.isnan(x) or math.isinf(x))):
        raise ValueError(f"non-finite value in {what}: {x}")
    r = round(float(x))
    if abs(float(x) - r) > 1e-6 * max(1.0, abs(r)):
        raise ValueError(f"non-integral value in {what}: {x!r}")
    return int(r)


def _milli(x, what):
    x = float(x)
    if math.isnan(x) or math.isinf(x):
        raise ValueError(f"non-finite value in {what}: {x}")
    return int(round(x * 1000))


def _token(r):
    """Digest of every value on a table row: equal tokens <=> bit-for-bit equal rows."""
    parts = []
    for k in r.index:
        v = r[k]
        if isinstance(v, (float, np.floating)):
            parts.append(f"{k}={float(v).hex()}")
        else:
            parts.append(f"{k}={v}")
    import hashlib

    return hashlib.sha1("|".join(parts).encode()).hexdigest()[:16]


class Projection:
    """Abstract view of the tables one run returned, per packed scenario."""

    def __init__(self, pack, res, meta, estimator, pis, vote_scale=3):
        self.pack, self.res, self.meta, self.estimator, self.pis = pack, res, meta, estimator, list(pis)
        self.est = "margin" if estimator == "bootstrap" else "turnout"
        self.scale = 1 if self.est == "margin" else vote_scale
        self.errors = []
        ut = res["unit_data"]
        self.unit_rows = {}
        for fid, grp in ut.groupby("geographic_unit_fips"):
            self.unit_rows[fid] = grp

    def _votes(self, row, col_prefix="results"):
        return row[f"{col_prefix}_{self.est}"]

    def _scaled(self, x, what):
        # raw counted value of the estimand (abstract votes v appear as scale * v)
        return _int(x, what)

    def unit(self, p, i):
        fid = self.meta["units"][(p, i)]
        g = self.unit_rows.get(fid)
        if g is None:
            return {"present": False, "count": 0}
        r = g.iloc[0]
        out = {
            "present": True,
            "count": int(len(g)),
            "state": _unstate(r["postal_code"]),
            "cat": str(r["unit_category"]),
            "reporting": _int(r["reporting"], "unit reporting"),
            "votes": self._scaled(r[f"results_{self.est}"], f"unit {fid} results"),
            "pred": self._unit_out(r, f"pred_{self.est}"),
            "lower": [self._unit_out(r, f"lower_{a}_{self.est}") for a in self.pis],
            "upper": [self._unit_out(r, f"upper_{a}_{self.est}") for a in self.pis],
            "pt": _milli(r["pred_turnout"], "unit pred_turnout") if self.est == "margin" else 0,
            "pm": _milli(r["pred_margin"], "unit pred_margin") if self.est == "margin" else 0,
            "tok": _token(r),
        }
        return out

    def _unit_out(self, r, col):
        # unit outputs are model output in raw votes.  Under the bootstrap estimator the outputs of nonreporting
        # units are real-valued unnormalised margins (not part of the vote-count identities): logged rounded.
        if self.est == "margin":
            x = float(r[col])
            if math.isnan(x) or math.isinf(x):
                raise ValueError(f"non-finite value in {col}: {x}")
            if int(r["reporting"]) == 0 and str(r["unit_category"]) == "expected":
                return int(round(x))
        return _int(r[col], col)

    def table(self, p, level):
        """Rows of one aggregate table that belong to packed scenario p, in returned order."""
        sc0 = self.pack[0]
        keys = agg_keys(level, sc0["districtOffice"])
        df = self.res[LEVEL_TABLE[level]]
        prefix = f"P{p:02d}"
        rows = []
        for _, r in df[df["postal_code"].astype(str).str.startswith(prefix)].iterrows():
            key = [_unstate(r[k]) if k == "postal_code" else str(r[k]) for k in keys]
            row = {"key": key, "reporting": _int(r["reporting"], "group reporting")}
            if self.est == "margin":
                # counted margin is reported divided by the predicted two-party turnout
                row["counted"] = _int(
                    round(float(r["results_margin"]) * float(r["pred_turnout"]), 6), f"{level} {key} counted margin"
                )
                row["pred"] = 0
                row["lower"] = [0 for _ in self.pis]
                row["upper"] = [0 for _ in self.pis]
                row["pt"] = _milli(r["pred_turnout"], "group pred_turnout")
                row["pm"] = _milli(float(r["pred_margin"]) * float(r["pred_turnout"]), "group pred_margin * pred_turnout")
            else:
                row["pt"] = 0
                row["pm"] = 0
                row["counted"] = self._scaled(r[f"results_{self.est}"], f"{level} {key} counted")
                row["pred"] = _int(r[f"pred_{self.est}"], "group pred")
                row["lower"] = [_int(r[f"lower_{a}_{self.est}"], "group lower") for a in self.pis]
                row["upper"] = [_int(r[f"upper_{a}_{self.est}"], "group upper") for a in self.pis]
            row["tok"] = _token(r)
            rows.append(row)
        return rows


def _unstate(s):
    s = str(s)
    if len(s) == 4 and s[0] == "P" and s[1:3].isdigit():
        return {"1": "S1", "2": "S2", "0": "S0"}[s[3]]
    return s


# ----------------------------------------------------------------------------------------------------------------
# random scenarios (code -> spec direction): larger than anything TLC enumerates

KINDS = ["rep", "part", "none0", "absent", "blkRep", "blkNon", "zeroRep", "zeroNon", "tfRep", "rep0", "blkZero"]
XKINDS = ["unexpRep", "unexpNon"]


def mk_unit(i, k, st, co, cl, di, idc, idd, votes):
    isx = k in XKINDS
    v = 0 if k in ("none0", "absent", "rep0") else votes
    return {
        "inBase": not isx,
        "inFeed": k != "absent",
        "bstate": NA if isx else st,
        "fstate": ("S2" if st == "S1" else "S1") if k == "mismatch" else st,
        "county": NA if isx else co,
        "cls": NA if isx else cl,
        "district": NA if isx else di,
        "idCounty": idc if isx else co,
        "idDistrict": idd if isx else di,
        "rep": k in ("rep", "blkRep", "zeroRep", "tfRep", "rep0", "blkZero", "mismatch", "unexpRep", "nullOther"),
        "nullRes": k == "nullOther",
        "votes": v,
        "blockUnit": k in ("blkRep", "blkNon", "blkZero"),
        "zeroBase": k in ("zeroRep", "zeroNon", "blkZero"),
        "tfStrange": k in ("tfRep", "rep0", "zeroRep", "blkZero"),
        "outlierT": False,
        "outlierM": False,
        "kind": k,
        "pt": 0,
        "pm": 0,
        "pred": v,
        "lower": [],
        "upper": [],
    }


LEVEL_LISTS = [
    ["postal_code"],
    ["postal_code", "county_fips", "county_classification", "district"],
    ["county_classification", "postal_code"],
    ["county_fips", "postal_code"],
    ["district", "county_fips", "postal_code"],
    ["postal_code", "county_classification", "county_fips"],
]


def random_scenario(rnd, n_units, policy, district_office, levels, allow_mismatch=False, p_weird=0.45, multi_est=False):
    units = []
    counties = ["c1", "c2", "c3"]
    # district names of which one is a prefix of another ("1", "10"): joined names then sort differently from key tuples
    dists, new_d = (["1", "10"], "2") if rnd.random() < 0.5 else (["d1", "d2"], "d9")
    for i in range(1, n_units + 1):
        if rnd.random() < p_weird:
            k = rnd.choice(KINDS[1:] + XKINDS + XKINDS + (["mismatch"] if allow_mismatch else []) + (["nullOther"] * 3 if multi_est else []))
        else:
            k = rnd.choice(["rep", "rep", "part"])
        votes = rnd.randrange(1, 400) * 4  # multiples of 4 so that factor-1/4 baselines are integral
        units.append(
            mk_unit(
                i,
                k,
                rnd.choice(["S1", "S2"]),
                rnd.choice(counties),
                rnd.choice(["k1", "k2"]),
                rnd.choice(dists),
                rnd.choice(counties + ["c9"]),
                rnd.choice(dists + [new_d]),
                votes,
            )
        )
    # hamlets: outstanding units with a single baseline voter, alone in their own county (and class): a group whose
    # predicted turnout is a fraction of one vote (seeded change C02_F: division by "at least one vote")
    if rnd.random() < 0.5:
        for _ in range(rnd.randint(1, 3)):
            h = mk_unit(len(units) + 1, "none0", rnd.choice(["S1", "S2"]), "c7", "k7", rnd.choice(dists), "c7", rnd.choice(dists), 0)
            h["hamlet"] = True
            units.append(h)
    return {
        "policy": policy,
        "districtOffice": district_office,
        "districtGut": district_office,
        "levels": list(levels),
        "blockStates": ["S2"] if rnd.random() < 0.15 else [],
        "nalpha": 0,
        "order": [],
        "extraRep": 0,
        "optT": False,
        "optM": False,
        "isMargin": False,
        "multiEst": bool(multi_est),
        "units": units,
    }


def _rep_expected(sc, u):
    """reporting expected row of the joined data (before non-modelled units are removed), as Ledger.RepExpected"""
    matched = u["inBase"] and u["inFeed"] and u["bstate"] == u["fstate"]
    return bool(matched and u["rep"] and not u.get("nullRes"))


def trace_of(pack, res, meta, estimator, pis):
    """One trace element per packed scenario: sc (+ unit outputs copied from the real unit table) and obs."""
    proj = Projection(pack, res, meta, estimator, pis)
    out = []
    calls = meta.get("outlier_calls", {})
    inputs = meta.get("outlier_inputs", {})
    for p, sc in enumerate(pack):
        sc = {k: v for k, v in sc.items()}
        sc["estimator"] = estimator
        sc["nalpha"] = len(pis)
        sc["isMargin"] = proj.est == "margin"
        sc["extraRep"] = meta["ballast_rep"] + sum(
            1 for q, other in enumerate(pack) if q != p for u in other["units"] if _rep_expected(other, u)
        )
        units = []
        obs_units = []
        for idx, u in enumerate(sc["units"]):
            o = proj.unit(p, idx + 1)
            u = dict(u)
            # counted value of the estimand on the feed row (turnout: 3v, margin: v), from the scenario itself
            u["votes"] = int(u["votes"]) * proj.scale
            fid = meta["units"][(p, idx + 1)]
            u["outlierT"] = fid in calls.get("turnout_factor", ())
            u["outlierM"] = fid in calls.get("results_normalized_margin", ())
            if o["present"]:
                # the model's outputs for this unit are inputs of the ledger
                u["pred"], u["lower"], u["upper"] = o["pred"], o["lower"], o["upper"]
                u["pt"], u["pm"] = o["pt"], o["pm"]
            else:
                u["pred"], u["lower"], u["upper"] = 0, [0] * len(pis), [0] * len(pis)
                o = dict(o, state="", cat="", reporting=0, votes=0, pred=0, lower=[0] * len(pis), upper=[0] * len(pis), pt=0, pm=0, tok="absent")
            units.append(u)
            obs_units.append(o)
        sc["units"] = units
        tables = {lv: proj.table(p, lv) for lv in sc["levels"]}
        keystrings = set()
        for lv in tables:
            for r in tables[lv]:
                keystrings.update(r["key"])
        for u in units:
            keystrings.update([u["bstate"], u["fstate"], u["county"], u["cls"], u["district"], u["idCounty"], u["idDistrict"]])
        keystrings.discard(NA)
        sc["order"] = sorted(keystrings)
        out.append(
            {
                "sc": sc,
                "obs": {
                    "utable": obs_units,
                    "tables": tables,
                    "calledT": "turnout_factor" in calls,
                    "calledM": "results_normalized_margin" in calls,
                    # the scenario units each outlier model was fitted on (indices): its read set
                    "fitT": [i + 1 for i in range(len(sc["units"])) if meta["units"][(p, i + 1)] in inputs.get("turnout_factor", ())],
                    "fitM": [i + 1 for i in range(len(sc["units"])) if meta["units"][(p, i + 1)] in inputs.get("results_normalized_margin", ())],
                },
            }
        )
    return out


def pair_traces(pack0, extras, estimator, seed, pis, **kw):
    """C11: run the same election without and with one extra unexpected feed row per packed scenario."""
    pack1 = []
    for sc, x in zip(pack0, extras):
        sc1 = dict(sc)
        sc1["units"] = list(sc["units"]) + [x]
        pack1.append(sc1)
    # the second run is the caller's NEXT POLL: it is handed the frame object the first run was handed, with the new row
    # added - whatever the first run wrote into the caller's frame (derived results columns) is still there and is
    # missing for the new row (ClientHistory.tla, switch FeedCopied; seeded change C11_J).  On a tree that leaves the
    # caller's frame alone this is exactly the materialised second feed.
    fkw = {k: kw[k] for k in ("ballast_rep", "ballast_non", "high_pev") if k in kw}
    pre0, cur0, m0 = materialise(pack0, seed, shuffle=False, **fkw)
    c0, res0, meta0, _ = run_pack(pack0, estimator, seed, pis=pis, shuffle=False, frames=(pre0, cur0, m0), copy_feed=False, **kw)
    pre1, cur1, m1 = materialise(pack1, seed, shuffle=False, **fkw)
    left = [c for c in cur0.columns if c not in cur1.columns]
    if left:
        keys = ["postal_code", "geographic_unit_fips"]
        cur1 = cur1.merge(cur0[keys + left].drop_duplicates(keys), on=keys, how="left")
    c1, res1, meta1, _ = run_pack(pack1, estimator, seed, pis=pis, shuffle=False, frames=(pre1, cur1, m1), copy_feed=False, **kw)
    t0 = trace_of(pack0, res0, meta0, estimator, pis)
    t1 = trace_of(pack1, res1, meta1, estimator, pis)
    out = []
    for a, b in zip(t0, t1):
        sc0 = a["sc"]
        sc0["order"] = b["sc"]["order"]
        out.append({"sc0": sc0, "extra": b["sc"]["units"][-1], "obs0": a["obs"], "obs1": b["obs"]})
    return out


def random_extra(rnd, new_state=False):
    k = rnd.choice(XKINDS)
    u = mk_unit(
        99,
        k,
        "S0" if new_state else rnd.choice(["S1", "S2"]),
        NA,
        NA,
        NA,
        rnd.choice(["c1", "c2", "c3", "c9"]),
        rnd.choice(["d1", "d2", "d9"]),
        rnd.randrange(1, 500) * 4,
    )
    u["kind"] = "extra"
    return u


def states_with_units(sc):
    """postal codes that appear on some row handed to the model (joined data or unexpected feed rows)."""
    out = set()
    for u in sc["units"]:
        matched = u["inBase"] and u["inFeed"] and u["bstate"] == u["fstate"]
        in_data = u["inBase"] and (sc["policy"] == "zero" or matched)
        if in_data:
            out.add(u["bstate"])
        elif u["inFeed"]:
            out.add(u["fstate"])
    return out


PERTURBABLE = ("part", "none0", "blkRep", "blkNon", "blkZero", "zeroRep", "zeroNon", "unexpRep", "unexpNon")


def perturb_traces(pack0, estimator, seed, pis, rnd, **kw):
    """C10: the same election twice; in the second run the counted votes of ONE outstanding / excluded unit per
    packed scenario are different (its percent expected vote, baseline and features are not)."""
    pack1, chosen = [], []
    for sc in pack0:
        cand = [i for i, u in enumerate(sc["units"]) if u["kind"] in PERTURBABLE]
        if not cand:
            pack1.append(sc)
            chosen.append(None)
            continue
        i = rnd.choice(cand)
        u = dict(sc["units"][i])
        old = int(u["votes"])
        u["base_votes"] = old
        new = old + 4 if rnd.random() < 0.5 else (old + 1) * 12
        if u["kind"] == "none0" or rnd.random() < 0.15:
            new = rnd.choice([0, 8, 400]) if old != 0 else rnd.choice([8, 400])
        u["votes"] = new
        sc1 = dict(sc)
        sc1["units"] = list(sc["units"])
        sc1["units"][i] = u
        pack1.append(sc1)
        chosen.append((i + 1, old, new))
    c0, res0, meta0, _ = run_pack(pack0, estimator, seed, pis=pis, shuffle=False, **kw)
    c1, res1, meta1, _ = run_pack(pack1, estimator, seed, pis=pis, shuffle=False, **kw)
    t0 = trace_of(pack0, res0, meta0, estimator, pis)
    t1 = trace_of(pack1, res1, meta1, estimator, pis)
    out = []
    for a, b, ch in zip(t0, t1, chosen):
        if ch is None:
            continue
        scale = 1 if EST_SETUP[estimator]["estimands"][0] == "margin" else 3
        out.append({"kind": "pair", "sc": a["sc"], "u": ch[0], "delta": (ch[2] - ch[1]) * scale, "obs0": a["obs"], "obs1": b["obs"],
                    "unit_kind": a["sc"]["units"][ch[0] - 1]["kind"]})
    return out


def two_poll_traces(pack, estimator, seed, pis):
    """Two polls of one election night on the SAME feed frame object, updated in place between the polls (as a caller
    that keeps its results frame would do).  Returns the traces of the second poll: its tables must be the ledger of
    the second feed."""
    import copy

    pre, cur, meta = materialise(pack, seed, shuffle=False)
    run_pack(pack, estimator, seed, pis=pis, frames=(pre, cur, meta), copy_feed=False)
    pack2 = copy.deepcopy(pack)
    for sc in pack2:
        for i, u in enumerate(sc["units"]):
            # (small units are left alone: +4 votes on a 4-vote unit would double its turnout factor)
            if u["inFeed"] and u["votes"] >= 80 and u["kind"] in ("rep", "part", "unexpRep", "unexpNon", "blkRep", "blkNon"):
                u["base_votes"] = u["votes"]
                u["votes"] = u["votes"] + 4 * (1 + i % 3) if u["kind"] != "rep" else u["votes"] + 4
    pre2, cur2, meta2 = materialise(pack2, seed, shuffle=False)
    assert list(cur2.geographic_unit_fips) == list(cur.geographic_unit_fips)
    for col in ("results_turnout", "results_dem", "results_gop", "percent_expected_vote"):
        cur[col] = cur2[col].to_numpy()  # in place: every other column the first poll may have added stays
    c, res, meta2b, _ = run_pack(pack2, estimator, seed, pis=pis, frames=(pre2, cur, meta2), copy_feed=False)
    return trace_of(pack2, res, meta2b, estimator, pis)
