"""Engine `controlb`: materialisers, runners and projectors for C12 (ClientHistory) and C13 (ClientLoops).

Nothing in this module decides a property.  It (1) turns the call histories / request sets chosen by TLC into calls
of the real `ModelClient`, (2) projects what came back to tokens (bit-level digests of tables, of table cells, the
sequence of calls the client made on the model object, the keys of the gaussian bounds cache it touched) and
(3) packs them into trace records for Trace_ClientHistory / Trace_ClientLoops.

IMPORTANT for C12: nothing here seeds any generator.  Between two calls of the code under test the process-global
numpy / random state is *perturbed with entropy* (perturb_globals), so that a run that reads global state returns
something else the next time.
"""
import hashlib
import json
import math
import os
import random
import subprocess
import sys
import tempfile
import time

from harness import synth  # noqa: F401  (must precede every import of elexmodel)

import numpy as np  # noqa: E402
import pandas as pd  # noqa: E402

ROOT = os.path.dirname(os.path.dirname(os.path.abspath(__file__)))
TABLE_OF_LEVEL = {
    "postal_code": "state_data",
    "county_fips": "county_data",
    "district": "district_data",
    "county_classification": "classification_data",
    "unit": "unit_data",
}
LEVEL_OF_TABLE = {v: k for k, v in TABLE_OF_LEVEL.items()}
STATES = ("AA", "BB", "CC")


# ---------------------------------------------------------------------------------------------------------------
# digests


def _cell(v):
    """Canonical, bit-level text of one table cell."""
    if isinstance(v, bool):
        return "b1" if v else "b0"
    if isinstance(v, int):
        return "i%d" % v
    if isinstance(v, float):
        if math.isnan(v):
            return "fnan"
        return "f" + v.hex()
    if v is None:
        return "none"
    if isinstance(v, str):
        return "s" + v
    return "r" + repr(v)


def table_digest(df):
    """dtype-aware digest of a whole table: column names and order, dtypes, index, every cell (float.hex)."""
    h = hashlib.sha256()
    h.update(repr([str(c) for c in df.columns]).encode())
    h.update(repr([str(t) for t in df.dtypes]).encode())
    h.update(repr([_cell(x) for x in df.index.tolist()]).encode())
    for c in df.columns:
        h.update(b"|")
        for v in df[c].tolist():
            h.update(_cell(v).encode())
            h.update(b",")
    return h.hexdigest()[:16]


def result_digest(res):
    """res: dict table name -> DataFrame (the order of the dict is not part of the digest)."""
    tabs = {k: table_digest(v) for k, v in res.items() if isinstance(v, pd.DataFrame)}
    tok = hashlib.sha256(repr(sorted(tabs.items())).encode()).hexdigest()[:16]
    return tok, tabs


def perturb_globals():
    """Advance every process-global random state by an unpredictable amount (os entropy).  Never a fixed seed."""
    k = 1 + os.urandom(1)[0] % 13
    np.random.seed(None)
    np.random.random(k)
    random.seed()
    for _ in range(k):
        random.random()


# ---------------------------------------------------------------------------------------------------------------
# C12: worlds (election + the two concrete argument tuples A, B per estimator) and history execution

OUTLIERS_OFF = {"fit_margin_outlier_model": False, "fit_turnout_outlier_model": False}
OMIT = "__omit__"  # the argument is not passed at all: the callee's (mutable) default object is used

WORLD_TEMPLATES = [
    {
        # A: every defaultable argument omitted (mutable defaults in use); B: own lists, fixed effects, more levels
        "conformal": {
            "A": dict(estimands=["turnout"], pis=OMIT, mp=OMIT, aggregates=["postal_code", "unit"], features=["x1"], fixed_effects={}),
            "B": dict(estimands=["dem", "turnout"], pis=[0.9, 0.5], mp=dict(OUTLIERS_OFF, robust=True, beta=2, lambda_=0.5),
                      aggregates=["postal_code", "county_fips", "county_classification", "district", "unit"],
                      features=["x1", "x2"], fixed_effects=["county_classification"]),
        },
        "bootstrap": {
            # lambda_ unset: the cross-validation path shuffles with the model's generator
            "A": dict(estimands=["margin"], pis=OMIT, mp={"B": 12}, aggregates=["postal_code", "unit"],
                      features=["baseline_normalized_margin", "x1"], fixed_effects={}),
            # several strata columns: the order of the list the caller passed must be kept
            "B": dict(estimands=["margin"], pis=[0.9, 0.5], mp=dict(OUTLIERS_OFF, B=16, lambda_=1.0, strata=["county_classification", "district"]),
                      aggregates=["postal_code", "county_fips", "county_classification", "unit"],
                      features=["baseline_normalized_margin", "x1", "x2"], fixed_effects=["county_classification"]),
        },
        "summary": {"A": dict(weights={"AA": 3, "BB": 5, "CC": 7}, base=0, alphas=OMIT),
                    "B": dict(weights={"AA": 11, "BB": 5, "CC": 3}, base=12, alphas=[0.7, 0.9])},
    },
    {
        "conformal": {
            "A": dict(estimands=["dem"], pis=OMIT, mp=OMIT, aggregates=["postal_code", "county_fips", "unit"],
                      features=["x1", "x2"], fixed_effects=["postal_code"]),
            "B": dict(estimands=["turnout", "gop", "dem"], pis=[0.7], mp={}, aggregates=["county_classification", "postal_code"],
                      features=["x2"], fixed_effects={}),
        },
        "bootstrap": {
            # A: model_parameters omitted as well (B = 500 draws, cross-validated lambda)
            "A": dict(estimands=["margin"], pis=OMIT, mp=OMIT, aggregates=["postal_code", "county_fips", "unit"],
                      features=["baseline_normalized_margin", "x2"], fixed_effects=["postal_code"]),
            "B": dict(estimands=["margin"], pis=[0.7], mp=dict(B=8, lambda_=0.0), aggregates=["county_classification", "postal_code"],
                      features=["baseline_normalized_margin"], fixed_effects={}),
        },
        "summary": {"A": dict(weights={"AA": 1, "BB": 2, "CC": 4}, base=5, alphas=[0.9]),
                    "B": dict(weights={"AA": 7, "BB": 7, "CC": 7}, base=0, alphas=OMIT)},
    },
]


def world(wid, seed):
    """World `wid`: template wid % 2, election drawn from (seed, wid)."""
    return {"wid": wid, "eseed": (seed * 31 + wid * 7) % 100000, "template": wid % len(WORLD_TEMPLATES)}


_ELECTIONS = {}


def _election(eseed, district=False, big=False, n_units=None, nan_cls=False):
    key = (eseed, district, big, n_units, nan_cls)
    if nan_cls and key not in _ELECTIONS:
        # two units without a classification, taken from the most frequent classes so that the frequencies of the
        # remaining classes tie exactly: whatever a model does about a missing stratum must not be decided by the
        # iteration order of a set (seeded change C12_G).  Only in worlds whose requests do not join stratum names.
        pre, cur = _election(eseed, district, big, n_units)
        pre = pre.copy()
        for _ in range(2):
            vc = pre["county_classification"].value_counts()
            top = sorted(c for c in vc.index if vc[c] == vc.max())[0]
            pre.loc[pre.index[pre.county_classification == top][-1], "county_classification"] = np.nan
        _ELECTIONS[key] = (pre, cur)
    if big and key not in _ELECTIONS:
        # one state with several thousand precincts: more than a thousand gaussian calibration units in one group (whatever
        # is done to very large groups - subsampling, chunking - must be seed-derived too: seeded change C12_F)
        pre, cur = synth.make_election(n=4800, states=("AA",), seed=eseed, frac_reporting=0.75)
        _ELECTIONS[key] = (synth.with_margin_features(pre), cur)
    if key not in _ELECTIONS:
        # district=False is the election of the C12 worlds: large enough that every state / classification holds at
        # least ten gaussian calibration units (30 % of the reporting units), so that the per-group gaussian models - and
        # whatever seeds their resampling - are really used (seeded change C12_C); the C13 district election stays small
        n, frac = (48, 0.6) if district else (132, 0.85)
        if n_units:
            n = n_units
        pre, cur = synth.make_election(n=n, states=STATES, seed=eseed, frac_reporting=frac, district=district)
        if not district:
            # close contests: every state's counted two-party vote is within half a percent of a tie, so that the national
            # summary (which thresholds the contest margins) is sensitive to what the bootstrap errors are - a summary
            # that is computed from corrupted errors the second time differs visibly (seeded change C12_B)
            two = (cur["results_dem"] + cur["results_gop"]).to_numpy()
            rs = np.random.default_rng(eseed + 17)
            lean = {st: e for st, e in zip(STATES, (0.004, -0.004, 0.001))}
            share = np.array([0.5 + lean.get(st, 0.0) for st in cur["postal_code"]]) + rs.normal(0, 0.02, len(cur))
            cur["results_dem"] = np.round(two * np.clip(share, 0.05, 0.95)).astype(int)
            cur["results_gop"] = (two - cur["results_dem"]).astype(int)
        if not district:
            # a few reporting units with a large third-party vote: their two-party votes are less than half of their
            # baseline turnout while their turnout is ordinary - a turnout / party run that (through a frame shared with
            # an earlier margin run) used the two-party votes as results weights would set them aside (FeedCopied)
            rep_rows = cur.index[cur.percent_expected_vote >= 100]
            for j in (rep_rows[4], rep_rows[19], rep_rows[33]):
                for c in ("results_dem", "results_gop"):
                    cur.loc[j, c] = int(cur.loc[j, c] * 0.4)
        # degenerate baselines (a precinct where one party, or nobody, had votes last time): how such a unit is
        # categorised must not depend on which estimands a request names (seeded change C13_C)
        for i, col in ((5, "baseline_dem"), (11, "baseline_gop"), (17, "baseline_dem"), (22, "baseline_gop"), (29, "baseline_turnout")):
            pre.loc[i, col] = 0
        pre = synth.with_margin_features(pre)
        if district:
            pre["geographic_unit_type"] = "precinct-district"
            # two precincts the baseline does not know (complete feed plus extras): which county they are attributed to
            # must not depend on the aggregate levels a request names (seeded change C13_G)
            extra = cur.iloc[[0, 1]].copy()
            ids = extra.geographic_unit_fips.str.split("_")
            extra["geographic_unit_fips"] = [f"{p[0]}_{p[1]}_9{k}" for k, p in enumerate(ids)]
            cur = pd.concat([cur, extra], ignore_index=True)
        else:
            # the baseline of turnout may be pointed at another column by the configuration (`baseline_pointer`); the
            # column is there for every unit, gaussian requests use it (seeded change C13_H)
            pre["baseline_turnout_pres"] = (pre["baseline_turnout"] * 1.15).round().astype(int)
            # (for a few units the other baseline is far away: a turnout factor computed against it would fall outside the
            #  limits, one computed against baseline_turnout does not - which units are set aside must not depend on whether
            #  turnout is among the requested estimands)
            for j in (3, 8, 14, 21):
                pre.loc[j, "baseline_turnout_pres"] = int(pre.loc[j, "baseline_turnout"] * 2.6)
            # one reporting unit is the only one of its classification: with fixed effects on the classification a
            # calibration split can leave that value out of the training rows (whatever the code then does must be
            # derived from the seed: seeded change C12_H)
            rep_ids = cur[cur.percent_expected_vote >= 100].geographic_unit_fips.tolist()
            pre.loc[pre.geographic_unit_fips == rep_ids[len(rep_ids) // 2], "county_classification"] = "exurb"
        _ELECTIONS[key] = (pre, cur)
    return _ELECTIONS[key]


def concrete_args(w, est, arg):
    t = WORLD_TEMPLATES[w["template"]]
    return t["bootstrap" if est == "bootstrap" else "conformal"][arg]


def call_estimates(client, pre, cur, est, a, office="G", gut="precinct", copy_pre=True, pointer=None, copy_cur=True):
    """One real get_estimates call; omitted arguments are really omitted.  copy_pre=False hands the caller's own
    baseline frame to the client (a caller that loads its baseline data once and polls all night does that)."""
    kw = dict(
        raw_config=synth.config(office, STATES, pointer=pointer),
        preprocessed_data=pre.copy() if copy_pre else pre,
        features=list(a["features"]),
        aggregates=list(a["aggregates"]),
        fixed_effects=(dict(a["fixed_effects"]) if isinstance(a["fixed_effects"], dict) else list(a["fixed_effects"])),
        pi_method=est,
        save_output=[],
    )
    if a["mp"] is not OMIT and a["mp"] != OMIT:
        kw["model_parameters"] = json.loads(json.dumps(a["mp"]))
    if a["pis"] is OMIT or a["pis"] == OMIT:
        return client.get_estimates(
            cur.copy() if copy_cur else cur, synth.EID, office, list(a["estimands"]), percent_reporting_threshold=100, geographic_unit_type=gut, **kw
        )
    return client.get_estimates(cur.copy() if copy_cur else cur, synth.EID, office, list(a["estimands"]), list(a["pis"]), 100, gut, **kw)


def run_history(w, hist):
    """Execute one TLC history on the real client.  Returns one observation per call: tok + per-table digests."""
    from elexmodel.client import ModelClient

    # (nan_cls stays off: on the tree as it is a missing classification makes the bootstrap estimator raise as soon as
    #  the classification is an aggregate level or one of several strata - TypeError in the join of the level names)
    pre, cur = _election(w["eseed"], big=bool(w.get("big")))
    # the caller's baseline frame: ONE object for the whole history (every call is handed the same frame, as a caller
    # that loads its baseline data once would do); whatever a run does to it must not change what a later run returns
    pre = pre.copy()
    # ... and ONE feed frame object (a caller that keeps its feed frame between polls and between the margin run and the
    # turnout / party runs of one poll): whatever a run writes into it must not change what a later run returns
    # (ClientHistory.tla, switch FeedCopied; seeded changes C01_J / C09_J / C11_J / C12_J)
    cur = cur.copy()
    client = ModelClient()
    out = []
    for ev in hist:
        perturb_globals()
        tabs = {}
        try:
            if ev["op"] == "est":
                if ev["fresh"]:
                    client = ModelClient()
                res = call_estimates(client, pre, cur, ev["est"], concrete_args(w, ev["est"], ev["arg"]), copy_pre=False, copy_cur=False)
                tok, tabs = result_digest(res)
            elif ev["op"] == "summary":
                # the summary has its own argument tuple, independent of the arguments of the run it follows
                s = WORLD_TEMPLATES[w["template"]]["summary"][ev.get("sarg", ev["arg"])]
                if s["alphas"] == OMIT:
                    df = client.get_national_summary_votes_estimates(dict(s["weights"]), s["base"])
                else:
                    df = client.get_national_summary_votes_estimates(dict(s["weights"]), s["base"], list(s["alphas"]))
                tok, tabs = result_digest({"nat_sum_data": df})
            else:
                raise ValueError("unknown history event " + str(ev))
        except Exception as e:  # noqa: BLE001  (an exception is an observation too: equal arguments, equal outcome)
            tok = "raised:" + hashlib.sha256((type(e).__name__ + ":" + str(e)[:300]).encode()).hexdigest()[:10]
            tabs = {"exception": type(e).__name__ + ": " + str(e)[:200]}
        out.append({"op": ev["op"], "est": ev["est"], "arg": ev["arg"], "sarg": ev.get("sarg", "-"), "fresh": bool(ev["fresh"]), "tok": tok, "tabs": tabs})
    return out


def job_histories(job):
    """Pool / subprocess job: a list of (world, history) executed back to back in ONE interpreter process."""
    t0 = time.time()
    runs = []
    for w, hist in job["items"]:
        runs.append({"wid": w["wid"], "hist": hist, "obs": run_history(w, hist)})
    return {"label": job["label"], "hash": job["hash"], "pid": os.getpid(), "runs": runs, "wall": time.time() - t0,
            "hashseed_env": os.environ.get("PYTHONHASHSEED", "unset"), "probe": hash("controlb-probe") & 0xFFFF}


def spawn_hashseed_leg(hashseed, jobs, nproc=4, timeout=1500):
    """Run `jobs` in a NEW interpreter with PYTHONHASHSEED=hashseed (and the same VERIF_REPO_SRC).  Returns a Popen
    handle plus the path the results will be written to."""
    fd, inp = tempfile.mkstemp(prefix="c12in_", suffix=".json")
    with os.fdopen(fd, "w") as f:
        json.dump({"jobs": jobs, "nproc": nproc}, f)
    outp = inp.replace("c12in_", "c12out_")
    env = dict(os.environ)
    env["PYTHONHASHSEED"] = str(hashseed)
    env["PYTHONPATH"] = ROOT + os.pathsep + env.get("PYTHONPATH", "")
    for k in ("OMP_NUM_THREADS", "OPENBLAS_NUM_THREADS", "MKL_NUM_THREADS"):
        env.setdefault(k, "1")
    p = subprocess.Popen(
        [sys.executable, "-m", "harness.controlb", "c12leg", inp, outp], cwd=ROOT, env=env,
        stdout=subprocess.PIPE, stderr=subprocess.STDOUT, text=True,
    )
    return p, inp, outp


def _c12leg_main(inp, outp):
    import multiprocessing as mp

    with open(inp) as f:
        spec = json.load(f)
    jobs = spec["jobs"]
    if spec.get("nproc", 1) > 1 and len(jobs) > 1:
        with mp.get_context("fork").Pool(min(spec["nproc"], len(jobs))) as pool:
            res = pool.map(job_histories, jobs, chunksize=1)
    else:
        res = [job_histories(j) for j in jobs]
    with open(outp, "w") as f:
        json.dump({"results": res, "repo_src": synth.REPO_SRC}, f)


def history_traces(results, worlds):
    """One Trace_ClientHistory trace per world: every process leg, every history, in execution order."""
    per = {w["wid"]: [] for w in worlds}
    pcount = {w["wid"]: 0 for w in worlds}
    for r in results:
        seen_w = set()
        for run in r["runs"]:
            wid = run["wid"]
            if wid not in seen_w:
                seen_w.add(wid)
                pcount[wid] += 1
                per[wid].append({"op": "process", "est": "-", "arg": "-", "sarg": "-", "fresh": True, "tok": "-", "hash": str(r["hash"]),
                                 "label": r["label"], "p": pcount[wid]})
            first = True
            for o in run["obs"]:
                per[wid].append({"op": o["op"], "est": o["est"], "arg": o["arg"], "sarg": o.get("sarg", "-"), "fresh": bool(o["fresh"] or (first and o["op"] == "est")),
                                 "tok": o["tok"], "hash": str(r["hash"]), "label": r["label"], "p": pcount[wid]})
                first = False
    return [{"wid": wid, "events": evs} for wid, evs in per.items() if evs]


# ---------------------------------------------------------------------------------------------------------------
# C13: recorder (calls the client makes on the model object, gaussian cache accesses), request runner, projection

_SINK = None
_CTX = {}
_INSTALLED = False


class RecDict(dict):
    """The gaussian alpha -> bounds cache, recording which keys are written and read."""

    def __init__(self, which):
        super().__init__()
        self.which = which

    def __setitem__(self, k, v):
        if _SINK is not None and _SINK:
            _SINK[-1].setdefault("cw", []).append(fmt_alpha(k))
        super().__setitem__(k, v)

    def __getitem__(self, k):
        if _SINK is not None and _SINK:
            _SINK[-1].setdefault("cr", []).append(fmt_alpha(k))
        return super().__getitem__(k)

    def get(self, k, d=None):
        if _SINK is not None and _SINK:
            _SINK[-1].setdefault("cr", []).append(fmt_alpha(k))
        return super().get(k, d)


def fmt_alpha(a):
    try:
        return repr(float(a))
    except (TypeError, ValueError):
        return str(a)


def _emit(op, e="-", a="-", gl=(), g="-"):
    if _SINK is not None:
        _SINK.append({"op": op, "e": str(e), "a": a if a == "-" else fmt_alpha(a), "gl": list(gl), "g": str(g)})


def install_recorder():
    """Wrap (at run time, nothing in /repo is touched) the calls ModelClient.get_estimates makes."""
    global _INSTALLED
    if _INSTALLED:
        return
    import inspect

    from elexmodel.handlers.data.ModelResults import ModelResultsHandler
    from elexmodel.models.BootstrapElectionModel import BootstrapElectionModel
    from elexmodel.models.GaussianElectionModel import GaussianElectionModel
    from elexmodel.models.NonparametricElectionModel import NonparametricElectionModel

    def wrap(cls, name, op, fields):
        orig = getattr(cls, name)
        sig = inspect.signature(orig)

        def inner(self, *args, **kw):
            try:
                b = sig.bind(self, *args, **kw).arguments
            except TypeError:
                b = {}
            kwargs = b.get("kwargs", {}) or {}
            vals = {f: b.get(src, kwargs.get(src, "-")) for f, src in fields.items()}
            _emit(op, **vals)
            return orig(self, *args, **kw)

        inner.__wrapped__ = orig
        setattr(cls, name, inner)

    for cls in (NonparametricElectionModel, GaussianElectionModel, BootstrapElectionModel):
        wrap(cls, "get_unit_predictions", "upred", {"e": "estimand"})
        wrap(cls, "get_unit_prediction_intervals", "uint", {"e": "estimand", "a": "alpha"})
        wrap(cls, "get_aggregate_predictions", "apred", {"e": "estimand", "gl": "aggregate"})
        wrap(cls, "get_aggregate_prediction_intervals", "aint", {"e": "estimand", "a": "alpha", "gl": "aggregate"})
    wrap(ModelResultsHandler, "add_unit_intervals", "uadd", {"e": "estimand"})
    wrap(ModelResultsHandler, "add_agg_predictions", "aadd", {"e": "estimand", "g": "aggregate"})
    wrap(ModelResultsHandler, "process_final_results", "final", {})

    g_init = GaussianElectionModel.__init__

    def gaussian_init(self, *a, **k):
        g_init(self, *a, **k)
        for which in ("lower", "upper"):
            name = f"alpha_to_nonreporting_{which}_bounds"
            if not isinstance(getattr(self, name, None), dict):
                raise RuntimeError(f"recorder: GaussianElectionModel.{name} is not a dict any more")
            setattr(self, name, RecDict(which))

    GaussianElectionModel.__init__ = gaussian_init
    _INSTALLED = True


KEY_NAMES = ("postal_code", "district", "county_classification", "county_fips", "geographic_unit_fips", "reporting", "unit_category")
ROW_KEYS = ("postal_code", "district", "county_classification", "county_fips", "geographic_unit_fips")


def parse_column(name):
    """Column name -> the column record of ClientLoops (KeyCol / ValCol, with a pandas merge suffix if present)."""
    s = ""
    base = name
    for suf in ("_x", "_y"):
        if name.endswith(suf):
            s, base = suf[1], name[: -len(suf)]
    if base in KEY_NAMES:
        return {"t": "key", "n": base, "e": "-", "a": "-", "s": s}
    parts = base.split("_")
    if parts[0] in ("pred", "results") and len(parts) == 2:
        return {"t": "val", "n": parts[0], "e": parts[1], "a": "-", "s": s}
    if parts[0] in ("lower", "upper") and len(parts) == 3:
        try:
            return {"t": "val", "n": parts[0], "e": parts[2], "a": fmt_alpha(parts[1]), "s": s}
        except ValueError:
            pass
    return {"t": "other", "n": name, "e": "-", "a": "-", "s": ""}


def cell_tokens(level, df):
    """One token per non-row-key column: the values by row key (row order and dtype are not part of a cell)."""
    rk = [c for c in df.columns if parse_column(c)["t"] == "key" and parse_column(c)["n"] in ROW_KEYS]
    keys = list(zip(*[df[c].astype(str).tolist() for c in rk])) if rk else [()] * len(df)
    out = {}
    for c in df.columns:
        if c in rk:
            continue
        vals = df[c].tolist()
        body = sorted((k, _cell(float(v)) if isinstance(v, (int, float)) and not isinstance(v, bool) else _cell(v)) for k, v in zip(keys, vals))
        out[f"{level}/{c}"] = hashlib.sha256(repr(body).encode()).hexdigest()[:12]
    return out


def request_args(req):
    boot = req["estimator"] == "bootstrap"
    return dict(
        estimands=list(req["ests"]),
        pis=[float(a) for a in req["alphas"]],
        mp=dict(OUTLIERS_OFF, **({"B": 12} if boot else {})),
        aggregates=list(req["aggs"]),
        features=["baseline_normalized_margin", "x1"] if boot else ["x1"],
        fixed_effects={},
    )


def run_request(job):
    """One real run for one TLC-chosen request on the (fixed, complete-feed) election of its group."""
    global _SINK
    from elexmodel.client import ModelClient

    install_recorder()
    req, eseed = job["req"], job["eseed"]
    district = bool(req["district"])
    # gaussian requests run on a larger election: with a few hundred training units two interval levels within the same
    # percent (0.9 and 0.909) have different quantile regressions, so a cache keyed too coarsely shows (seeded change C13_E);
    # with more than five hundred training units so have two levels that agree to two decimals (0.9 and 0.904: C13_I)
    pre, cur = _election(eseed, district, n_units=(1300 if req["estimator"] == "gaussian" and not district else None))
    office, gut = ("H", "precinct-district") if district else ("G", "precinct")
    group = f"{req['estimator']}|{office}|{eseed}"
    rec = {"group": group, "req": req, "events": [], "tables": {}, "cells": {}, "status": "ok", "eseed": eseed}
    t0 = time.time()
    _SINK = []
    try:
        # (gaussian requests use the configuration whose turnout baseline points at the other column, the others the
        #  identity pointers: the cells of one estimator are only ever compared with cells of the same estimator)
        pointer = {"turnout": "turnout_pres"} if (not district and req["estimator"] == "gaussian") else None
        res = call_estimates(ModelClient(), pre, cur, req["estimator"], request_args(req), office=office, gut=gut, pointer=pointer)
        for tname, df in res.items():
            lvl = LEVEL_OF_TABLE.get(tname, tname)
            rec["tables"][lvl] = [parse_column(c) for c in df.columns]
            for k, v in cell_tokens(lvl, df).items():
                rec["cells"][group + "/" + k] = v
    except Exception as e:  # noqa: BLE001
        rec["status"] = f"raised {type(e).__name__}: {str(e)[:200]}"
    finally:
        rec["events"] = [dict(ev, cw=sorted(set(ev.get("cw", []))), cr=sorted(set(ev.get("cr", [])))) for ev in _SINK]
        _SINK = None
    rec["wall"] = round(time.time() - t0, 2)
    return rec


def job_f19(seed):
    """Open finding F19: the same turnout request (default outlier models ON) on a fresh baseline frame and on the frame
    object an earlier margin run was handed.  Returns what differs."""
    from elexmodel.client import ModelClient

    pre, cur = synth.make_election(n=120, states=STATES, seed=seed, frac_reporting=0.75)

    def call(p, est, method, feats, mp):
        return ModelClient().get_estimates(cur.copy(), synth.EID, "G", [est], [0.9], 100, "precinct", raw_config=synth.config("G", STATES),
                                           preprocessed_data=p, pi_method=method, features=feats, aggregates=["postal_code", "unit"], save_output=[], model_parameters=mp)

    a = pre.copy()
    r1 = call(a, "turnout", "nonparametric", ["x1"], {})
    b = pre.copy()
    call(b, "margin", "bootstrap", ["baseline_normalized_margin"], {"B": 3})
    left = sorted(set(b.columns) - set(pre.columns))
    r2 = call(b, "turnout", "nonparametric", ["x1"], {})
    t1, t2 = result_digest(r1)[0], result_digest(r2)[0]
    u1, u2 = r1["unit_data"].set_index("geographic_unit_fips"), r2["unit_data"].set_index("geographic_unit_fips")
    return {"seed": seed, "differs": t1 != t2, "columns_left_in_the_callers_frame": left,
            "unit_categories_differing": int((u1.unit_category != u2.unit_category.reindex(u1.index)).sum()),
            "state_predictions": [r1["state_data"].pred_turnout.tolist(), r2["state_data"].pred_turnout.tolist()]}


def diff_requests(job):
    """Diagnosis for a rejected C13 trace: rerun two requests and list the cells whose rows differ."""
    a, b = run_request(job["a"]), run_request(job["b"])
    common = sorted(set(a["cells"]) & set(b["cells"]))
    return {"differing_cells": [k for k in common if a["cells"][k] != b["cells"][k]][:40], "a": a["req"], "b": b["req"]}


if __name__ == "__main__":
    if len(sys.argv) == 4 and sys.argv[1] == "c12leg":
        _c12leg_main(sys.argv[2], sys.argv[3])
    else:
        print("usage: python -m harness.controlb c12leg <in.json> <out.json>")
        sys.exit(2)
