"""Gaussian engine (C15): materialise abstract GaussianFallback scenarios as synthetic conformalization / reporting /
nonreporting frames, call the real GaussianElectionModel.get_aggregate_prediction_intervals, project what it did back
onto the specification's variables (fit calls, fitted models, which pool served which group) and check the numeric
clause (closed-form bound from the logged pool statistics; trusted base scipy.stats.norm.ppf / scipy.stats.bootstrap).

Also the code -> spec direction: real gaussian estimate runs through the public client under run-time wrappers, one
trace per call of get_aggregate_prediction_intervals, validated by spec/Trace_GaussianFallback.tla.

Python here only materialises, runs the real code, projects and compares; the decision which pool a group must
receive is TLC's (exported `expect`) or the trace specification's.
"""
import math
import random
from fractions import Fraction

from harness import synth  # noqa: F401  (must precede every elexmodel import: env, fake S3, VERIF_REPO_SRC)

import numpy as np  # noqa: E402
import pandas as pd  # noqa: E402
from scipy import stats as sstats  # noqa: E402

from harness.tlc import MachineryError  # noqa: E402

EST = "turnout"
WCOL = f"last_election_results_{EST}"
RCOL = f"results_{EST}"
KEYCOLS = {2: ["postal_code", "county_fips"], 3: ["postal_code", "district", "county_fips"]}
PREFIX = {"postal_code": "S", "district": "d", "county_fips": "x", "county_classification": "x"}
MODEL_SETTINGS = {
    "save_conformalization": False,
    "election_id": "2099-11-03_USA_G",
    "office": "G",
    "geographic_unit_type": "precinct",
}
SEED_DEFAULT = 4191  # GaussianModel's default model seed


# ----------------------------------------------------------------------------------------------------------------
# run-time wrappers (nothing in /repo is touched)


class FastBoot:
    """Quick tier: call math_utils.boot_sigma with a smaller value of its own `num_iterations` parameter."""

    def __init__(self, num_iterations):
        self.n = num_iterations

    def __enter__(self):
        from elexmodel.utils import math_utils

        self.mod = math_utils
        self.orig = math_utils.boot_sigma
        if self.n is not None:
            orig, n = self.orig, self.n

            def boot_sigma(data, conf, num_iterations=10000, winsorize=False, rng=None):
                return orig(data, conf, num_iterations=n, winsorize=winsorize, rng=rng)

            math_utils.boot_sigma = boot_sigma
        return self

    def __exit__(self, *a):
        self.mod.boot_sigma = self.orig


class Recorder:
    """Logs every GaussianModel.fit call (pre-order: level, number of calibration rows, counts per group), every
    _fit (per fitted group: its statistics and the ids of the calibration units it was computed from) and every
    GaussianElectionModel.get_aggregate_prediction_intervals call (inputs, modeled_bounds_agg, returned bounds)."""

    def __init__(self, capture_frames=True):
        self.agg_calls = []  # one dict per get_aggregate_prediction_intervals
        self.unit_bounds = {}  # (estimand, alpha) -> unadjusted unit bounds as the unit stage computed them
        self.cur = None
        self.capture_frames = capture_frames

    def __enter__(self):
        from elexmodel.distributions.GaussianModel import GaussianModel
        from elexmodel.models.GaussianElectionModel import GaussianElectionModel

        self.GM, self.GEM = GaussianModel, GaussianElectionModel
        self.o_fit, self.o__fit, self.o_counts = GaussianModel.fit, GaussianModel._fit, GaussianModel._get_n_units_per_group
        self.o_agg = GaussianElectionModel.get_aggregate_prediction_intervals
        self.o_ub = GaussianElectionModel.get_unit_prediction_interval_bounds
        rec = self

        def unit_bounds(self_, reporting_units, nonreporting_units, conf_frac, alpha, estimand):
            out = rec.o_ub(self_, reporting_units, nonreporting_units, conf_frac, alpha, estimand)
            # the property's "summed unadjusted unit bounds" are THIS estimand's, whatever the model object keeps
            rec.unit_bounds[(estimand, alpha)] = (np.asarray(out.lower, dtype=float).copy(), np.asarray(out.upper, dtype=float).copy())
            return out

        def fit(self_, conformalization_data, reporting_units, nonreporting_units, estimand, aggregate=[], alpha=0.9, reweight=False, top_level=True):
            ctx = rec.cur
            entry = None
            if ctx is not None:
                entry = {"lvl": len(aggregate), "n": int(conformalization_data.shape[0]), "counts": [], "aggregate": list(aggregate)}
                ctx["calls"].append(entry)
                ctx["stack"].append(entry)
                if len(ctx["stack"]) > 10:
                    raise RecursionError("GaussianModel.fit recursion deeper than 10 frames (legitimate depth is at most 2 * len(aggregate) + 1)")
            try:
                out = rec.o_fit(self_, conformalization_data, reporting_units, nonreporting_units, estimand, aggregate=aggregate, alpha=alpha, reweight=reweight, top_level=top_level)
            finally:
                if ctx is not None:
                    ctx["stack"].pop()
            if ctx is not None and not ctx["stack"]:
                ctx["model"] = out.copy()
            return out

        def _get_n(self_, conformalization_data, nonreporting_units, aggregate):
            out = rec.o_counts(self_, conformalization_data, nonreporting_units, aggregate)
            ctx = rec.cur
            if ctx is not None and ctx["stack"]:
                e = ctx["stack"][-1]
                if not aggregate:
                    e["counts"] = [((), int(out["n"]))]
                else:
                    e["counts"] = [(tuple(r[c] for c in aggregate), int(r["n"])) for _, r in out.iterrows()]
            return out

        def _fit(self_, conformalization_data, estimand, aggregate, alpha):
            out = rec.o__fit(self_, conformalization_data, estimand, aggregate, alpha)
            ctx = rec.cur
            if ctx is not None:
                if aggregate:
                    members = {k if isinstance(k, tuple) else (k,): list(g["geographic_unit_fips"]) for k, g in conformalization_data.groupby(aggregate)}
                else:
                    members = {(): list(conformalization_data["geographic_unit_fips"])}
                for _, r in out.iterrows():
                    k = tuple(r[c] for c in aggregate)
                    ctx["fits"].append({"aggregate": list(aggregate), "key": k, "stats": stats_of(r), "members": members.get(k, [])})
            return out

        def agg(self_, reporting_units, nonreporting_units, unexpected_units, aggregate, alpha, unit_prediction_intervals, estimand, **kw):
            ctx = {
                "aggregate": list(aggregate),
                "alpha": alpha,
                "estimand": estimand,
                "calls": [],
                "stack": [],
                "fits": [],
                "model": None,
                "seed": self_.model_settings.get("seed", SEED_DEFAULT),
                # the scale multiplier of the model settings (1 unless the request sets it): applied ONCE to the scale
                "beta": float(self_.model_settings.get("beta", 1)),
            }
            if rec.capture_frames:
                ctx["conf"] = unit_prediction_intervals.conformalization.copy()
                ctx["reporting"] = reporting_units.copy()
                ctx["nonreporting"] = nonreporting_units.copy()
                ctx["unexpected"] = unexpected_units.copy()
                lo, hi = rec.unit_bounds.get((estimand, alpha), (None, None))
                if lo is None:  # model driven without the unit stage under the recorder
                    lo = self_.alpha_to_nonreporting_lower_bounds.get(alpha)
                    hi = self_.alpha_to_nonreporting_upper_bounds.get(alpha)
                ctx["unit_lo"] = None if lo is None else np.asarray(lo, dtype=float).copy()
                ctx["unit_hi"] = None if hi is None else np.asarray(hi, dtype=float).copy()
            rec.cur = ctx
            self_.modeled_bounds_agg = None
            try:
                out = rec.o_agg(self_, reporting_units, nonreporting_units, unexpected_units, aggregate, alpha, unit_prediction_intervals, estimand, **kw)
            finally:
                rec.cur = None
            ctx["modeled"] = None if self_.modeled_bounds_agg is None else self_.modeled_bounds_agg.copy()
            ctx["lower"] = np.asarray(out[0], dtype=float)
            ctx["upper"] = np.asarray(out[1], dtype=float)
            del ctx["stack"]
            rec.agg_calls.append(ctx)
            return out

        GaussianModel.fit = fit
        GaussianModel._fit = _fit
        GaussianModel._get_n_units_per_group = _get_n
        GaussianElectionModel.get_aggregate_prediction_intervals = agg
        GaussianElectionModel.get_unit_prediction_interval_bounds = unit_bounds
        return self

    def __exit__(self, *a):
        self.GM.fit, self.GM._fit, self.GM._get_n_units_per_group = self.o_fit, self.o__fit, self.o_counts
        self.GEM.get_aggregate_prediction_intervals = self.o_agg
        if "get_unit_prediction_interval_bounds" in self.GEM.__dict__:
            del self.GEM.get_unit_prediction_interval_bounds  # inherited from ConformalElectionModel


STAT_COLS = ["var_inflate", "mu_lower_bound", "mu_upper_bound", "sigma_lower_bound", "sigma_upper_bound"]


def stats_of(row):
    return tuple(float(row[c]) for c in STAT_COLS)


# ----------------------------------------------------------------------------------------------------------------
# exact reference statistics (rationals; float ties admitted explicitly)


def inflate_exact(ws):
    return Fraction(sum(w * w for w in ws), sum(ws) ** 2)


def wmedian_candidates(xs, ws):
    """math_utils.weighted_median on exact rationals.  xs pairwise distinct.  Returns the set of admissible values:
    one value, or three at an exact tie of the cumulative share with 1/2 (the floating-point comparison with 0.5 may
    resolve either way: midpoint if it compares equal, the lower / upper neighbour otherwise)."""
    order = sorted(range(len(xs)), key=lambda i: xs[i])
    x = [Fraction(xs[i]) for i in order]
    tot = sum(Fraction(w) for w in ws)
    cum, acc = [], Fraction(0)
    for i in order:
        acc += Fraction(ws[i]) / tot
        cum.append(acc)
    half = Fraction(1, 2)
    if cum[0] > half:
        return {x[0]}
    idx = max(j for j in range(len(x)) if cum[j] <= half)
    if cum[idx] == half:
        return {(x[idx] + x[idx + 1]) / 2, x[idx], x[idx + 1]}
    return {x[idx + 1]}


def boot_sigma_ref(data, conf, n_resamples, seed):
    """The definition of the bootstrapped scale pinned by the repository: upper end of the basic bootstrap confidence
    interval (level conf) of the sample standard deviation, resampling generator seeded with the model seed."""

    def sample_std(x, axis):
        return np.std(x, ddof=1, axis=-1)

    return float(
        sstats.bootstrap(
            np.asarray(data, dtype=float).reshape(1, -1),
            sample_std,
            confidence_level=conf,
            method="basic",
            n_resamples=n_resamples,
            random_state=np.random.default_rng(seed),
        ).confidence_interval.high
    )


def bound_ref(side, sum_w_bound, W, W2, mu, sigma, infl, alpha):
    """Summed unadjusted unit bounds shifted by the normal quantile at (3+alpha)/4 of the aggregated centre and scale."""
    q = (3 + alpha) / 4
    corr = float(sstats.norm.ppf(q, loc=W * mu, scale=sigma * math.sqrt(W2 + infl * W * W)))
    return sum_w_bound - corr if side == "lower" else sum_w_bound + corr


# ----------------------------------------------------------------------------------------------------------------
# materialiser (spec -> code)


def keyname(col, k):
    return f"{PREFIX[col]}{k}"


def leafkey(t):
    return tuple(int(x) for x in t)


class Frames:
    pass


def materialise(sc, seed, second_col=None):
    """sc: the scenario record of spec/GaussianFallback.tla ({L, leaves:[{key, cal, out}]}).  Draws dyadic weights,
    scores and unit bounds until every candidate pool has a distinguishable (inflate, centre) signature."""
    rnd = random.Random(seed)
    for _ in range(60):
        fr = _draw(sc, rnd, second_col)
        if _distinguishable(fr):
            return fr
    raise MachineryError(f"materialiser: no distinguishable draw for scenario {sc}")


def _draw(sc, rnd, second_col):
    leaves = [dict(key=leafkey(lf["key"]), cal=int(lf["cal"]), out=bool(lf["out"])) for lf in sc["leaves"]]
    D = len(leaves[0]["key"])
    cols = list(KEYCOLS[D])
    if D == 2 and second_col:
        cols[1] = second_col
    L = int(sc["L"])
    ncal = sum(lf["cal"] for lf in leaves)
    lo_scores = rnd.sample(range(-300, 300), ncal)  # /2048, pairwise distinct
    hi_scores = rnd.sample(range(-1200, 1200), ncal)  # /2048, four times the spread of the lower scores
    conf_rows, rep_rows, non_rows, unx_rows = [], [], [], []
    uid = [0]

    def base(lf, kind):
        uid[0] += 1
        row = {c: keyname(c, lf["key"][j]) for j, c in enumerate(cols)}
        row["geographic_unit_fips"] = f"{kind}{uid[0]:03d}"
        return row

    ci = 0
    for lf in leaves:
        for _ in range(lf["cal"]):
            r = base(lf, "c")
            w = 32 * rnd.randint(1, 32)
            r[WCOL] = float(w)
            r[RCOL] = float(w + 8 * rnd.randint(-3, 6))
            r["reporting"] = 1
            rep_rows.append(dict(r))
            r["lower_bounds"] = lo_scores[ci] / 2048.0
            r["upper_bounds"] = hi_scores[ci] / 2048.0
            r["_lo"] = Fraction(lo_scores[ci], 2048)
            r["_hi"] = Fraction(hi_scores[ci], 2048)
            r["_leaf"] = lf["key"]
            ci += 1
            conf_rows.append(r)
        for _ in range(rnd.choice([0, 0, 1, 2])):  # reporting units of the training split: must not influence any statistic
            r = base(lf, "t")
            w = 32 * rnd.randint(1, 32)
            r[WCOL] = float(w)
            r[RCOL] = float(w + 8 * rnd.randint(-3, 6))
            r["reporting"] = 1
            rep_rows.append(r)
        if lf["out"]:
            floor_case = rnd.random() < 0.2
            for _ in range(rnd.randint(1, 3)):
                r = base(lf, "n")
                w = 32 * rnd.randint(1, 32)
                r[WCOL] = float(w)
                # partial count; sometimes larger than anything the interval can reach (the floor must then apply)
                r[RCOL] = float(4 * w if floor_case else rnd.choice([0, w // 4, w // 2]))
                r["reporting"] = 0
                r["_lo"] = Fraction(-rnd.randint(0, 48), 256)
                r["_hi"] = Fraction(rnd.randint(0, 48), 256)
                r["_leaf"] = lf["key"]
                non_rows.append(r)
        if rnd.random() < 0.25:
            r = base(lf, "u")
            r[WCOL] = 0.0
            r[RCOL] = float(16 * rnd.randint(1, 20))
            r["reporting"] = rnd.choice([0, 1])
            unx_rows.append(r)
    rnd.shuffle(conf_rows)
    rnd.shuffle(rep_rows)
    rnd.shuffle(non_rows)
    fr = Frames()
    fr.sc, fr.L, fr.D, fr.cols, fr.aggregate = sc, L, D, cols, cols[:L]
    fr.leaves = leaves
    fr.conf_rows, fr.non_rows = conf_rows, non_rows
    pub = [c for c in cols] + ["geographic_unit_fips", WCOL, RCOL, "reporting"]
    fr.conf = pd.DataFrame([{k: r[k] for k in pub + ["lower_bounds", "upper_bounds"]} for r in conf_rows])
    fr.reporting = pd.DataFrame([{k: r[k] for k in pub} for r in rep_rows], columns=pub)
    fr.nonreporting = pd.DataFrame([{k: r[k] for k in pub} for r in non_rows], columns=pub)
    fr.unexpected = pd.DataFrame([{k: r[k] for k in pub} for r in unx_rows], columns=pub)
    for df in (fr.reporting, fr.nonreporting, fr.unexpected):
        for c in (WCOL, RCOL):
            df[c] = df[c].astype(float)
        df["reporting"] = df["reporting"].astype(int)
    fr.unit_lo = np.array([float(r["_lo"]) for r in non_rows])
    fr.unit_hi = np.array([float(r["_hi"]) for r in non_rows])
    fr.pools = _candidate_pools(fr)
    return fr


def _candidate_pools(fr):
    """Every pool the specification can name (all calibration units below a key prefix of any length) plus the pools a
    wrong merge could form (same sub key across states, single leaves): frozenset(leaf keys) -> reference statistics."""
    cal_leaves = [lf["key"] for lf in fr.leaves if lf["cal"] > 0]
    cands = set()
    for k in range(0, fr.D + 1):
        for p in {lk[:k] for lk in cal_leaves}:
            cands.add(frozenset(lk for lk in cal_leaves if lk[:k] == p))
    for j in range(1, fr.D):
        for v in {lk[j:] for lk in cal_leaves}:
            cands.add(frozenset(lk for lk in cal_leaves if lk[j:] == v))
    pools = {}
    for pool in cands:
        rows = [r for r in fr.conf_rows if r["_leaf"] in pool]  # calibration frame order
        ws = [int(r[WCOL]) for r in rows]
        pools[pool] = {
            "n": len(rows),
            "inflate": inflate_exact(ws),
            "mu_lo": wmedian_candidates([r["_lo"] for r in rows], ws),
            "mu_hi": wmedian_candidates([r["_hi"] for r in rows], ws),
            "lo": [float(r["_lo"]) for r in rows],
            "hi": [float(r["_hi"]) for r in rows],
        }
    return pools


def _distinguishable(fr):
    items = list(fr.pools.items())
    for a in range(len(items)):
        for b in range(a + 1, len(items)):
            pa, pb = items[a][1], items[b][1]
            if pa["inflate"] == pb["inflate"] and (pa["mu_lo"] & pb["mu_lo"]) and (pa["mu_hi"] & pb["mu_hi"]):
                return False
    return True


def decode_pool(fr, st, tol=1e-12):
    """Which candidate pool do these observed statistics (var_inflate, mu_lower, mu_upper, ...) belong to?"""
    infl, mu_lo, mu_hi = st[0], st[1], st[2]
    if any(math.isnan(x) or math.isinf(x) for x in st):
        return None
    hits = []
    for pool, ref in fr.pools.items():
        if abs(float(ref["inflate"]) - infl) > tol * max(1.0, abs(infl)):
            continue
        if not any(abs(float(c) - mu_lo) <= tol for c in ref["mu_lo"]):
            continue
        if not any(abs(float(c) - mu_hi) <= tol for c in ref["mu_hi"]):
            continue
        hits.append(pool)
    if len(hits) > 1:
        raise MachineryError("decode_pool: ambiguous signature (materialiser should have prevented this)")
    return hits[0] if hits else None


def code_of(col, v):
    """Key string -> the specification's integer key part (0 = missing)."""
    if v is None or (isinstance(v, float) and math.isnan(v)) or v is pd.NA:
        return 0
    s = str(v)
    if s in ("nan", "<NA>", "None"):
        return 0
    return int(s[len(PREFIX[col]):])


def run_scenario(sc, seed, alpha=0.9, boot_iterations=None, second_col=None):
    """Materialise, run the real aggregate-interval function under the recorder, return (frames, recorded call)."""
    from elexmodel.models.ConformalElectionModel import PredictionIntervals
    from elexmodel.models.GaussianElectionModel import GaussianElectionModel

    fr = materialise(sc, seed, second_col)
    fr.alpha = alpha
    fr.boot_iterations = boot_iterations
    fr.beta = (1, 1, 2, 0.5)[seed % 4]
    m = GaussianElectionModel(dict(MODEL_SETTINGS, beta=fr.beta))
    # normally left on the model by get_unit_prediction_intervals: the unadjusted unit bounds of the nonreporting rows
    m.alpha_to_nonreporting_lower_bounds[alpha] = fr.unit_lo.copy()
    m.alpha_to_nonreporting_upper_bounds[alpha] = fr.unit_hi.copy()
    pi = PredictionIntervals(fr.unit_lo.copy(), fr.unit_hi.copy(), fr.conf.copy())
    with FastBoot(boot_iterations), Recorder(capture_frames=False) as rec:
        m.get_aggregate_prediction_intervals(
            fr.reporting.copy(), fr.nonreporting.copy(), fr.unexpected.copy(), list(fr.aggregate), alpha, pi, EST
        )
    return fr, rec.agg_calls[0]


# ----------------------------------------------------------------------------------------------------------------
# projector (code -> abstract state) for materialised scenarios


def project(fr, call):
    """Abstract view of what the real code did: fit calls, fitted models (key, pool), modeled rows (key, pool)."""
    agg = fr.aggregate
    obs = {"calls": [], "models": [], "modeled": [], "problems": []}
    for c in call["calls"]:
        cols = c["aggregate"]
        obs["calls"].append(
            {
                "lvl": c["lvl"],
                "n": c["n"],
                "counts": sorted((tuple(code_of(col, v) for col, v in zip(cols, k)), n) for k, n in c["counts"]),
            }
        )
    gm = call["model"]
    if gm is not None:
        for _, r in gm.iterrows():
            key = tuple(code_of(col, r[col]) if col in gm.columns else 0 for col in agg)
            pool = decode_pool(fr, stats_of(r))
            obs["models"].append({"key": key, "pool": pool, "stats": stats_of(r)})
    mb = call["modeled"]
    if mb is None:
        obs["problems"].append("modeled_bounds_agg was not set")
    else:
        for _, r in mb.iterrows():
            key = tuple(code_of(col, r[col]) for col in agg)
            st = stats_of(r)
            obs["modeled"].append(
                {
                    "key": key,
                    "pool": decode_pool(fr, st),
                    "stats": st,
                    "finite": all(not (math.isnan(x) or math.isinf(x)) for x in st),
                    "W": float(r["nonreporting_weight_sum"]),
                    "W2": float(r["nonreporting_weight_ssum"]),
                    "slo": float(r["nonreporting_aggregate_lower_bound"]),
                    "shi": float(r["nonreporting_aggregate_upper_bound"]),
                }
            )
    return obs


def _sorted_groups(frames, agg):
    ks = set()
    for df in frames:
        if len(df):
            ks |= {tuple(r) for r in df[agg].itertuples(index=False, name=None)}
    return sorted(ks)


def numeric_check(fr, call, obs):
    """The numeric clause on one materialised scenario.  Returns a list of problem dicts (empty = holds).

    For every group with outstanding units: the logged statistics equal the reference statistics of the pool that
    served it (exact inflate, centre within the tie candidate set, sigma = seeded bootstrap of that pool's scores), and
    the returned bounds equal   counted + max(last + sum(w*b) -/+ ppf((3+alpha)/4; W*mu, sigma*sqrt(W2 + infl*W^2)),
    partial)   up to the code's final rounding.  Groups without outstanding units: bounds = counted votes."""
    bad = []
    agg, alpha = fr.aggregate, fr.alpha
    q_conf = (3 + alpha) / 4
    n_boot = fr.boot_iterations or 10000
    is_class = "county_classification" in agg
    votes_frames = [fr.reporting] if is_class else [fr.reporting, fr.unexpected]
    groups = _sorted_groups(votes_frames + [fr.nonreporting], agg)
    lower, upper = call["lower"], call["upper"]
    if len(lower) != len(groups) or len(upper) != len(groups):
        return [{"clause": "returned_row_count", "expected": len(groups), "observed": [len(lower), len(upper)]}]

    def gsum(df, g, col):
        if not len(df):
            return 0.0
        m = np.ones(len(df), dtype=bool)
        for c, v in zip(agg, g):
            m &= (df[c] == v).to_numpy()
        return float(df.loc[m, col].sum())

    by_key = {}
    for r in obs["modeled"]:
        by_key.setdefault(r["key"], []).append(r)
    non = fr.nonreporting.assign(_lo=fr.unit_lo, _hi=fr.unit_hi)
    out_order = [tuple(code_of(c, v) for c, v in zip(agg, g)) for g in _sorted_groups([fr.nonreporting], agg)]
    for gi, g in enumerate(groups):
        counted = sum(gsum(df, g, RCOL) for df in votes_frames)
        gk = tuple(code_of(c, v) for c, v in zip(agg, g))
        m = np.ones(len(non), dtype=bool)
        for c, v in zip(agg, g):
            m &= (non[c] == v).to_numpy()
        sub = non[m]
        if len(sub) == 0:
            for side, arr in (("lower", lower), ("upper", upper)):
                if not (abs(arr[gi] - counted) <= 0.5):
                    bad.append({"clause": f"reported_group_{side}_is_counted", "group": list(g), "expected": counted, "observed": float(arr[gi])})
            continue
        rows = by_key.get(gk, [])
        if len(rows) != 1 or rows[0]["pool"] is None or not rows[0]["finite"]:
            if not (math.isfinite(lower[gi]) and math.isfinite(upper[gi])):
                bad.append({"clause": "interval_finite", "group": list(g), "observed": [float(lower[gi]), float(upper[gi])]})
            continue  # which-pool mismatch is reported by the comparison with TLC's expectation
        r = rows[0]
        ref = fr.pools[r["pool"]]
        infl, mu_lo, mu_hi, s_lo, s_hi = r["stats"]
        # the statistics of the pool
        beta = float(getattr(fr, "beta", 1))
        s_lo_ref = beta * boot_sigma_ref(ref["lo"], q_conf, n_boot, SEED_DEFAULT)
        s_hi_ref = beta * boot_sigma_ref(ref["hi"], q_conf, n_boot, SEED_DEFAULT)
        for name, o, e in (("sigma_lower", s_lo, s_lo_ref), ("sigma_upper", s_hi, s_hi_ref)):
            if not (abs(o - e) <= 1e-9 * max(1.0, abs(e))):
                bad.append({"clause": f"{name}_is_seeded_bootstrap_of_pool_scores", "group": list(g), "expected": e, "observed": o})
        W = float(sub[WCOL].sum())
        W2 = float((sub[WCOL] ** 2).sum())
        slo = float((sub[WCOL] * sub["_lo"]).sum())
        shi = float((sub[WCOL] * sub["_hi"]).sum())
        for name, o, e in (("weight_sum", r["W"], W), ("weight_ssum", r["W2"], W2), ("sum_lower", r["slo"], slo), ("sum_upper", r["shi"], shi)):
            if o != e:
                bad.append({"clause": f"group_{name}", "group": list(g), "expected": e, "observed": o})
        last = W
        partial = float(sub[RCOL].sum())
        lb = bound_ref("lower", slo, W, W2, mu_lo, s_lo, infl, alpha)
        ub = bound_ref("upper", shi, W, W2, mu_hi, s_hi, infl, alpha)
        exp_lo = counted + max(last + lb, partial)
        exp_hi = counted + max(last + ub, partial)
        for side, o, e in (("lower", float(lower[gi]), exp_lo), ("upper", float(upper[gi]), exp_hi)):
            if not (math.isfinite(o) and abs(o - e) <= 0.5 + 1e-6 and o == round(o)):
                bad.append({"clause": f"{side}_bound_formula", "group": list(g), "expected_unrounded": e, "observed": o,
                            "stats": list(r["stats"]), "W": W, "W2": W2, "partial": partial, "counted": counted})
        r["floor_active"] = (last + lb < partial) or (last + ub < partial)
        # row position in modeled_bounds (concat order of the matching loop) vs position in the groupby frames the floor
        # comes from: the floor is applied by position, so a displaced row with an active floor is the critical case
        r["displaced"] = out_order.index(gk) != [x["key"] for x in obs["modeled"]].index(gk)
        r["correction"] = abs(last + lb - (last + slo))
    return bad


# ----------------------------------------------------------------------------------------------------------------
# code -> spec: real client runs


def random_election(rnd, district=False):
    """A random election whose counties hold very different numbers of reporting units, so that county groups land on
    both sides of the threshold, some states fall back to the pool of everything and some counties have no
    reporting unit at all.  Returns (pre, cur, info)."""
    shapes = [
        # (state, [county sizes]) - roughly 30 % of the reporting units become calibration units
        [("AA", [50, 42, 6, 3]), ("BB", [9, 7, 4])],
        [("AA", [60, 8, 5, 2]), ("BB", [44, 5]), ("CC", [6, 3])],
        [("AA", [36, 36, 36, 4, 2])],
        [("AA", [12, 9, 6]), ("BB", [8, 7])],
        [("AA", [70, 3]), ("BB", [40, 38, 2, 2])],
        [("AA", [5, 4, 3]), ("BB", [3, 3])],
    ]
    shape = rnd.choice(shapes)
    rows = []
    i = 0
    nprng = np.random.default_rng(rnd.randrange(1 << 30))
    for st, sizes in shape:
        for ci, size in enumerate(sizes):
            size = max(1, size + rnd.randint(-1, 2))
            county = f"{st}{ci:03d}"
            # share of the county's units that report: everything, most, few, nothing
            frac = rnd.choice([1.0, 0.9, 0.9, 0.8, 0.5, 0.2, 0.0])
            for _ in range(size):
                d = str(1 + (ci % 2))
                fid = f"{d}_{county}_{i:04d}" if district else f"{county}_{i:04d}"
                bt = int(nprng.integers(200, 3000))
                bd = int(bt * nprng.uniform(0.2, 0.7))
                rows.append(
                    dict(
                        postal_code=st,
                        geographic_unit_fips=fid,
                        county_fips=county,
                        county_classification=synth.CLASSES[ci % 3],
                        district=d,
                        baseline_turnout=bt,
                        baseline_dem=bd,
                        baseline_gop=bt - bd - int(bt * 0.03),
                        x1=float(nprng.normal()),
                        _rep=rnd.random() < frac,
                    )
                )
                i += 1
    # the client's minimum-units gate of the gaussian estimator needs 7 reporting units; stay clear of it
    short = 9 - sum(1 for r in rows if r["_rep"])
    if short > 0:
        for r in rnd.sample([r for r in rows if not r["_rep"]], short):
            r["_rep"] = True
    pre = pd.DataFrame(rows)
    n = len(pre)
    swing = nprng.normal(0.05, 0.1, n)
    cur = pre[["postal_code", "geographic_unit_fips"]].copy()
    t = np.maximum(0, pre.baseline_turnout * (1 + swing)).round().astype(int)
    share = np.clip(pre.baseline_dem / pre.baseline_turnout + nprng.normal(0, 0.04, n), 0.02, 0.95)
    dem = (t * share).round().astype(int)
    gop = ((t * 0.97).round().astype(int) - dem).clip(lower=0)
    pev = np.where(pre["_rep"], 100, nprng.integers(0, 95, n))
    part = pev / 100.0
    cur["results_turnout"] = np.floor(t * part).astype(int)
    cur["results_dem"] = np.floor(dem * part).astype(int)
    cur["results_gop"] = np.floor(gop * part).astype(int)
    cur["percent_expected_vote"] = pev
    pre = pre.drop(columns=["_rep"])
    return pre, cur, {"shape": shape, "district": district, "n": n, "n_reporting": int((pev == 100).sum())}


def run_real(seed, boot_iterations=None, district=False, pis=(0.7, 0.9), estimands=None):
    """One real gaussian estimate run through the public client under the recorder."""
    rnd = random.Random(seed)
    pre, cur, info = random_election(rnd, district)
    if district:
        kw = dict(office="H", gut="precinct-district", aggregates=["postal_code", "district", "county_fips", "unit"])
    else:
        kw = dict(office="G", gut="precinct", aggregates=["postal_code", "county_fips", "unit"])
    with FastBoot(boot_iterations), Recorder(capture_frames=True) as rec:
        # every third run asks for a second estimand (before or after): the unit stage and the aggregate stage of one
        # estimand must use that estimand's own unit bounds (seeded change C15_D)
        if estimands is None:
            estimands = {0: (EST,), 1: (EST, "dem"), 2: ("dem", EST)}[seed % 3]
        beta = (1, 2, 1, 0.5)[(seed // 3) % 4]
        if beta != 1:
            kw["model_parameters"] = {"beta": beta}
        synth.run_client(pre, cur, estimands=estimands, pis=pis, thr=100, features=("x1",), pi_method="gaussian", **kw)
    for c in rec.agg_calls:
        c["boot_iterations"] = boot_iterations
    return rec.agg_calls, info


def _tuplekey(df, cols):
    return [tuple(r) for r in df[cols].itertuples(index=False, name=None)]


def trace_of(call):
    """One recorded get_aggregate_prediction_intervals call -> (trace for Trace_GaussianFallback, python problems).

    Key strings are mapped to 1..n per column in sorted order (0 = missing).  A pool is reported as the set of
    aggregate groups whose calibration units it consists of (`whole` = it is exactly the union of those groups)."""
    agg = call["aggregate"]
    L = len(agg)
    conf, non = call["conf"], call["nonreporting"]
    problems = []
    vals = {c: sorted(set(conf[c].dropna().astype(str)) | set(non[c].dropna().astype(str))) for c in agg}
    code = {c: {v: i + 1 for i, v in enumerate(vals[c])} for c in agg}

    def enc(cols, k):
        out = []
        for c, v in zip(cols, k):
            if v is None or (isinstance(v, float) and math.isnan(v)) or v is pd.NA or str(v) in ("nan", "<NA>", "None"):
                out.append(0)
            else:
                out.append(code[c].get(str(v), 99))
        return out

    conf_keys = _tuplekey(conf, agg)
    cal = {}
    unit_leaf = {}
    for fid, k in zip(conf["geographic_unit_fips"], conf_keys):
        cal[k] = cal.get(k, 0) + 1
        unit_leaf[fid] = k
    out_groups = set(_tuplekey(non, agg)) if len(non) else set()
    leaves = [{"key": enc(agg, k), "cal": cal.get(k, 0), "out": k in out_groups} for k in sorted(set(cal) | out_groups)]
    leaf_units = {}
    for fid, k in unit_leaf.items():
        leaf_units.setdefault(k, set()).add(fid)

    # _fit rows: statistics -> member units; verify each row against its members (projector sanity, float tolerance)
    by_stats = {}
    w_of = dict(zip(conf["geographic_unit_fips"], conf[f"last_election_results_{call['estimand']}"].astype(float)))
    lo_of = dict(zip(conf["geographic_unit_fips"], conf["lower_bounds"].astype(float)))
    hi_of = dict(zip(conf["geographic_unit_fips"], conf["upper_bounds"].astype(float)))
    q_conf = (3 + call["alpha"]) / 4
    for f in call["fits"]:
        mem = f["members"]
        by_stats.setdefault(f["stats"], set()).add(frozenset(mem))
        ws = np.array([w_of[u] for u in mem])
        infl = float(np.sum(ws**2) / np.sum(ws) ** 2)
        mu_lo = _wmedian_float([lo_of[u] for u in mem], ws)
        mu_hi = _wmedian_float([hi_of[u] for u in mem], ws)
        st = f["stats"]
        ok = abs(st[0] - infl) <= 1e-9 and st[1] in mu_lo and st[2] in mu_hi
        if ok and len(mem) >= 2:
            n_boot = call.get("boot_iterations") or 10000
            beta = float(call.get("beta", 1))
            ok = abs(st[3] - beta * boot_sigma_ref([lo_of[u] for u in mem], q_conf, n_boot, call["seed"])) <= 1e-9 * max(1, abs(st[3])) and abs(
                st[4] - beta * boot_sigma_ref([hi_of[u] for u in mem], q_conf, n_boot, call["seed"])
            ) <= 1e-9 * max(1, abs(st[4]))
        if not ok:
            problems.append({"clause": "fit_row_statistics_of_its_group", "key": [str(x) for x in f["key"]], "stats": list(st), "n_members": len(mem)})

    def pool_of(st):
        sets = by_stats.get(st)
        if not sets or len(sets) != 1:
            return [], False
        units = next(iter(sets))
        ks = sorted({unit_leaf[u] for u in units if u in unit_leaf})
        whole = set().union(*[leaf_units[k] for k in ks]) == set(units) if ks else False
        return [enc(agg, k) for k in ks], whole

    models = []
    gm = call["model"]
    if gm is not None:
        for _, r in gm.iterrows():
            pool, whole = pool_of(stats_of(r))
            models.append({"key": enc(agg, [r[c] if c in gm.columns else None for c in agg]), "pool": pool, "whole": whole})
    modeled = []
    mb = call["modeled"]
    if mb is not None:
        for _, r in mb.iterrows():
            st = stats_of(r)
            pool, whole = pool_of(st)
            modeled.append({"key": enc(agg, [r[c] for c in agg]), "pool": pool, "whole": whole, "finite": all(math.isfinite(x) for x in st)})
    calls = []
    for c in call["calls"]:
        calls.append({"lvl": c["lvl"], "n": c["n"], "counts": [{"key": enc(c["aggregate"], k), "n": n} for k, n in sorted(c["counts"], key=lambda t: enc(c["aggregate"], t[0]))]})
    trace = {
        "sc": {"L": L, "leaves": leaves},
        "obs": {"calls": calls, "models": models, "modeled": modeled},
        "meta": {"aggregate": agg, "alpha": call["alpha"]},
    }
    return trace, problems


def _wmedian_float(xs, ws):
    """Admissible values of the code's weighted median in floating point (exact ties admitted)."""
    xs = np.asarray(xs, dtype=float)
    w = np.asarray(ws, dtype=float)
    w = w / w.sum()
    o = np.argsort(xs, kind="stable")
    x, cum = xs[o], np.cumsum(w[o])
    out = set()
    for eps in (-1e-12, 0.0, 1e-12):
        c = cum + eps
        if c[0] > 0.5:
            out.add(float(x[0]))
            continue
        idx = np.where(c <= 0.5)[0][-1]
        if idx + 1 >= len(x):
            out.add(float(x[idx]))
            continue
        out.add(float(x[idx + 1]))
        if abs(c[idx] - 0.5) <= 2e-12:
            out.add(float((x[idx] + x[idx + 1]) / 2))
    return out


def numeric_check_real(call):
    """The numeric clause on a recorded real call (float weights: relative tolerance 1e-9 plus the code's rounding)."""
    bad = []
    agg, alpha, est = call["aggregate"], call["alpha"], call["estimand"]
    wcol, rcol = f"last_election_results_{est}", f"results_{est}"
    non, rep, unx, mb = call["nonreporting"], call["reporting"], call["unexpected"], call["modeled"]
    if mb is None or not len(non):
        return bad
    is_class = "county_classification" in agg
    votes = {}
    for df in [rep] if is_class else [rep, unx]:
        if len(df):
            for k, v in df.dropna(subset=agg).groupby(agg)[rcol].sum().items():
                k = k if isinstance(k, tuple) else (k,)
                votes[k] = votes.get(k, 0.0) + float(v)
    non = non.assign(_lo=call["unit_lo"], _hi=call["unit_hi"]).dropna(subset=agg)
    ngroups = {(k if isinstance(k, tuple) else (k,)): g for k, g in non.groupby(agg)}
    groups = sorted(set(votes) | set(ngroups))
    lower, upper = call["lower"], call["upper"]
    if len(lower) != len(groups):
        return [{"clause": "returned_row_count", "expected": len(groups), "observed": len(lower)}]
    rows = {}
    for _, r in mb.iterrows():
        rows.setdefault(tuple(r[c] for c in agg), []).append(r)
    for gi, g in enumerate(groups):
        counted = votes.get(g, 0.0)
        if g not in ngroups:
            if abs(lower[gi] - counted) > 0.5 or abs(upper[gi] - counted) > 0.5:
                bad.append({"clause": "reported_group_bounds_are_counted", "group": list(g), "observed": [float(lower[gi]), float(upper[gi])], "expected": counted})
            continue
        if len(rows.get(g, [])) != 1:
            continue  # reported by the trace specification
        r, sub = rows[g][0], ngroups[g]
        infl, mu_lo, mu_hi, s_lo, s_hi = stats_of(r)
        if not all(math.isfinite(x) for x in (infl, mu_lo, mu_hi, s_lo, s_hi)):
            continue
        W, W2 = float(sub[wcol].sum()), float((sub[wcol] ** 2).sum())
        slo, shi = float((sub[wcol] * sub["_lo"]).sum()), float((sub[wcol] * sub["_hi"]).sum())
        partial = float(sub[rcol].sum())
        lb = bound_ref("lower", slo, W, W2, mu_lo, s_lo, infl, alpha)
        ub = bound_ref("upper", shi, W, W2, mu_hi, s_hi, infl, alpha)
        for side, o, e in (("lower", float(lower[gi]), counted + max(W + lb, partial)), ("upper", float(upper[gi]), counted + max(W + ub, partial))):
            if not (math.isfinite(o) and abs(o - e) <= 0.5 + 1e-6 * max(1.0, abs(e))):
                bad.append({"clause": f"{side}_bound_formula", "group": [str(x) for x in g], "expected_unrounded": e, "observed": o})
    return bad
