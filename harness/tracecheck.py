"""Batched trace validation: write traces to a scratch JSON file, let TLC replay them through a Trace_* spec.

A rejected trace (invariant violated at trace `tid`, clause printed by the spec's Chk operator) is reported through
`on_reject(trace, clause, invariant)`; it is then removed from the batch and the remainder is validated again, so
one rejection does not leave the rest of the batch unexamined.
"""
import json
import os
import tempfile

from harness import report, tlc


def validate(module, cfg, traces, on_reject, run=None, name=None, max_rejects=60, timeout=900, workers=1, chunk=400):
    """traces: list of JSON-able trace objects. Returns number of traces accepted."""
    accepted = 0
    for start in range(0, len(traces), chunk):
        batch = list(traces[start : start + chunk])
        rejects = 0
        while batch:
            fd, path = tempfile.mkstemp(prefix="traces_", suffix=".json")
            with os.fdopen(fd, "w") as f:
                f.write(report.dumps(batch))
            try:
                res = tlc.run_tlc(module, cfg, workers=workers, env={"TRACE_FILE": path}, timeout=timeout)
            finally:
                os.unlink(path)
            if run is not None:
                run.add_tlc(name or f"{module}/{cfg}", res, {"traces": len(batch)})
                # advisory clauses: the implementation differs from the specification's exact model in a way the
                # property itself does not forbid; counted in the evidence, never a violation
                for t, v in res.printed:
                    if t == "ADVISORY":
                        adv = run.cov.setdefault("advisory_drift", {})
                        adv[v["clause"]] = adv.get(v["clause"], 0) + 1
            if res.violation is None and not res.postcondition_failed:
                accepted += len(batch)
                break
            fails = [v for t, v in res.printed if t == "FAIL"]
            if res.violation is None or not fails:
                raise tlc.MachineryError(
                    f"{module}/{cfg}: trace batch not fully consumed and no clause reported:\n" + res.stdout[-3000:]
                )
            tid = int(fails[-1]["tid"])
            clause = fails[-1]["clause"]
            on_reject(batch[tid - 1], clause, res.violation)
            accepted += tid - 1
            batch = batch[tid:]
            rejects += 1
            if rejects >= max_rejects or (run is not None and len(run.violations) >= 12):
                return accepted  # enough evidence of a violation; do not grind through the rest
    return accepted
