"""Engine `controla`: C18 (Persistence) and C20 (FitRetry).

Both properties are observed through the real ModelClient in FRESH SUBPROCESSES:

* C18 depends on `elexmodel.utils.file_utils.APP_ENV / S3_FILE_PATH`, module constants read at import time, so the
  environment has to be in place before `elexmodel` is imported;
* C20 depends on the warning filter `ConformalElectionModel` installs at import time (cvxpy UserWarnings -> errors);
  a fresh interpreter that imports `harness.synth`, then `elexmodel`, and nothing else keeps that filter in front.

Parent side:  `spawn(env, jobs)` starts `python -m harness.controla <jobs.json> <out.json>` with `env` merged into the
process environment and returns the list of results.  Child side: `child_main` dispatches on `job["kind"]`:

  "persist"  one client run (optionally followed by the national summary call) in a scratch working directory;
             returns the ordered put sequence projected to the records of spec/Persistence.tla, the local files
             that appeared, and the outcome
  "fit"      one client run with `QuantileRegressionSolver.fit` wrapped (every call logged) and ONE fault injected at
             the k-th call, compared with the fault-free run of the same configuration; returns the record
             validated by spec/Trace_FitRetry.tla

Python here only materialises scenarios, runs the real code and projects; every verdict comes from the TLA+ specs.
"""
import hashlib
import json
import os
import shutil
import subprocess
import sys
import tempfile
import time
import traceback

VERIF = os.path.dirname(os.path.dirname(os.path.abspath(__file__)))
PY = "/venv/bin/python"
SCRATCH_PARENT = os.environ.get("CONTROLA_SCRATCH", tempfile.gettempdir())

NA = "-"
TABLE_OF = {
    "postal_code": "state_data",
    "county_fips": "county_data",
    "district": "district_data",
    "county_classification": "classification_data",
    "unit": "unit_data",
}

# the process environments the behaviours are run in; "remote" = anything but APP_ENV=local
ENV_GROUPS = {
    "local": [
        {"APP_ENV": "local", "DATA_ENV": "dev", "MODEL_S3_BUCKET": "elex-models", "MODEL_S3_PATH_ROOT": "elex-models"},
        {"APP_ENV": "local", "DATA_ENV": "test", "MODEL_S3_BUCKET": "bkt", "MODEL_S3_PATH_ROOT": "some/root"},
    ],
    "remote": [
        {"APP_ENV": "prod", "DATA_ENV": "prod", "MODEL_S3_BUCKET": "elex-models", "MODEL_S3_PATH_ROOT": "elex-models"},
        {"APP_ENV": "staging", "DATA_ENV": "dev", "MODEL_S3_BUCKET": "bkt", "MODEL_S3_PATH_ROOT": "rootx"},
    ],
}
EIDS = ["2099-11-03_USA_G", "2098-11-05_USA_G"]


# =====================================================================================================================
# parent side


def spawn(env, jobs, timeout=900):
    """Run `jobs` in one fresh interpreter whose environment is os.environ + env.  Returns the list of results
    (same order).  A child that dies is a machinery failure."""
    from harness import tlc

    d = tempfile.mkdtemp(prefix="controla_io_", dir=SCRATCH_PARENT)
    jp, op = os.path.join(d, "jobs.json"), os.path.join(d, "out.json")
    with open(jp, "w") as f:
        json.dump(jobs, f)
    e = dict(os.environ)
    for k in ("APP_ENV", "DATA_ENV", "MODEL_S3_BUCKET", "MODEL_S3_PATH_ROOT"):
        e.pop(k, None)
    e.update({k: str(v) for k, v in env.items()})
    e["PYTHONPATH"] = VERIF
    e.setdefault("PYTHONHASHSEED", "0")
    for k in ("OMP_NUM_THREADS", "OPENBLAS_NUM_THREADS", "MKL_NUM_THREADS"):
        e.setdefault(k, "1")
    try:
        p = subprocess.run([PY, "-m", "harness.controla", jp, op], cwd=d, env=e, capture_output=True, text=True, timeout=timeout)
        if p.returncode != 0 or not os.path.exists(op):
            raise tlc.MachineryError(f"controla child failed rc={p.returncode}:\n{p.stdout[-1500:]}\n{p.stderr[-3000:]}")
        with open(op) as f:
            return json.load(f)
    except subprocess.TimeoutExpired:
        raise tlc.MachineryError(f"controla child timed out after {timeout}s ({len(jobs)} jobs)")
    finally:
        shutil.rmtree(d, ignore_errors=True)


def spawn_job(arg):
    """Pool-friendly wrapper: (env, jobs) -> ("ok", results) | ("exc", message)."""
    env, jobs = arg
    try:
        return ("ok", spawn(env, jobs))
    except Exception as e:  # noqa: BLE001
        return ("exc", f"{type(e).__name__}: {e}")


# ---- C18 materialiser


def persist_job(sc, jid, seed, env_variant=0):
    """Scenario record of MC_Persistence -> concrete job (the election itself is built in the child)."""
    return {
        "kind": "persist",
        "id": jid,
        "sc": sc,
        "opts": list(sc["opts"]),
        "estimator": sc["estimator"],
        "gate": sc["gate"],
        "natsum": bool(sc["natsum"]),
        "estimands": list(sc["estimands"]),
        "aggs": list(sc["aggs"]),
        "alphas": list(sc["alphas"]),
        "eid": EIDS[(seed + jid) % len(EIDS)],
        "office": "G",
        "gut": "precinct",
        "seed": seed + jid,
        "n": 40,
    }


def env_of(sc_env, variant):
    g = ENV_GROUPS[sc_env]
    return g[variant % len(g)]


# =====================================================================================================================
# child side


def _project_key(key, root, eid, office, gut):
    """Real S3 key -> put record of spec/Persistence.tla.  Classification ignores blanks so that a key with embedded
    whitespace is still recognised (and reported through `ws`)."""
    ws = any(ch.isspace() for ch in key)
    prefix = f"{root}/{eid}/"
    under = key.startswith(prefix)
    rec = {"kind": "unknown", "est": NA, "agg": NA, "alpha": NA, "table": NA, "ws": ws, "under": under}
    k2 = "".join(ch for ch in key if not ch.isspace())
    p2 = "".join(ch for ch in prefix if not ch.isspace())
    if k2.startswith(p2):
        rel = k2[len(p2):].split("/")
    else:
        segs = k2.split("/")
        marks = [i for i, s in enumerate(segs) if s in ("results", "predictions", "gaussian", "evaluation")]
        rel = segs[marks[0]:] if marks else segs
    if len(rel) >= 3 and (rel[1], rel[2]) != (office, gut):
        rec["kind"] = f"unknown_office_or_unit_type:{key}"
        return rec
    if rel[0] == "results" and len(rel) == 4 and rel[3] in ("current.csv", "current_counties.csv"):
        rec["kind"] = "live" if rel[3] == "current.csv" else "live_counties"
    elif rel[0] == "predictions" and len(rel) == 5 and rel[4] == "current.csv":
        rec["kind"] = "natsum" if rel[3] == "nat_sum_data" else "table"
        rec["table"] = rel[3]
    elif rel[0] == "gaussian" and len(rel) == 5 and rel[4] in ("conformalization_data.csv", "bounds.csv"):
        parts = rel[3].rsplit("-", 2)
        if len(parts) == 3:
            rec["kind"] = "conformalization" if rel[4].startswith("conf") else "bounds"
            rec["est"], rec["agg"], rec["alpha"] = parts
    elif rel[0] == "evaluation" and len(rel) == 5 and rel[4] == "current.json":
        rec["kind"] = "evaluation"
        rec["est"] = rel[3]
    if rec["kind"] == "unknown":
        rec["kind"] = f"unknown:{key}"
    return rec


def _project_files(cwd, eid, office, gut):
    out = []
    for base, _dirs, names in os.walk(cwd):
        for nm in names:
            rel = os.path.relpath(os.path.join(base, nm), cwd)
            if rel == f"config/{eid}.json":
                out.append("config")
            elif rel == f"data/{eid}/{office}/data_{gut}.csv":
                out.append("data")
            else:
                out.append(f"other:{rel}")
    return sorted(out)


def _persist_election(job):
    import numpy as np

    from harness import synth

    boot = job["estimator"] == "bootstrap"
    states = tuple(job.get("states") or (("AA", "BB", "CC") if boot else ("AA", "BB")))
    n = job.get("n", 40)
    pre, cur = synth.make_election(n=n, states=states, seed=job["seed"], frac_reporting=1.0)
    rng = np.random.default_rng(job["seed"] + 77)
    # the failing side of the gate includes the boundary of no reporting unit at all
    k = [3, 0, 1, 2][job["seed"] % 4] if job["gate"] == "fail" else job.get("n_reporting", int(round(n * 0.7)))
    rep = set(rng.choice(n, size=k, replace=False).tolist())
    pev = np.array([100 if i in rep else 50 for i in range(n)])
    for c in ("results_turnout", "results_dem", "results_gop"):
        v = cur[c].to_numpy().copy()
        v[pev < 100] = v[pev < 100] // 2
        cur[c] = v
    cur["percent_expected_vote"] = pev
    if job["gate"] == "fail" and k == 0:
        # the very start of the night: every unit is in the feed, nothing has been counted anywhere (all zero) - the
        # live results are saved all the same before the run ends in the too-few-units error (seeded change C18_E)
        for c in ("results_turnout", "results_dem", "results_gop"):
            cur[c] = 0
        cur["percent_expected_vote"] = 0
    if boot:
        pre = synth.with_margin_features(pre)
    return pre, cur, states


def run_persist(job):
    """One behaviour through the real client.  Returns the projection."""
    from harness import synth  # noqa: F401  (first: environment + fake boto3)
    from elexmodel.client import ModelClient, ModelNotEnoughSubunitsException
    from elexmodel.utils import file_utils

    eid, office, gut = job["eid"], job["office"], job["gut"]
    root = f"{os.environ['MODEL_S3_PATH_ROOT']}-{os.environ['DATA_ENV']}"
    pre, cur, states = _persist_election(job)
    boot = job["estimator"] == "bootstrap"
    features = ["baseline_normalized_margin", "x1"] if boot else ["x1"]
    mp = {"fit_margin_outlier_model": False, "fit_turnout_outlier_model": False}
    if boot:
        mp["B"] = 10
    kw = dict(
        raw_config=synth.config(office, states, eid=eid),
        preprocessed_data=pre.copy(),
        model_parameters=mp,
        features=features,
        aggregates=list(job["aggs"]),
        pi_method=job["estimator"],
    )
    if not job.get("omit_save_output"):
        kw["save_output"] = list(job["opts"])
    cwd0 = os.getcwd()
    scratch = tempfile.mkdtemp(prefix="controla_cwd_", dir=SCRATCH_PARENT)
    os.chdir(scratch)
    del synth.PUTS[:]
    out = {"id": job["id"], "outcome": "ok", "natsum_outcome": NA, "nothing_counted": bool((cur["results_turnout"] == 0).all())}
    try:
        c = ModelClient()
        try:
            c.get_estimates(cur.copy(), eid, office, list(job["estimands"]), [float(a) for a in job["alphas"]], 100, gut, **kw)
            out["tables"] = list(c.results_handler.final_results.keys())
        except ModelNotEnoughSubunitsException:
            out["outcome"] = "not_enough"
        except Exception as e:  # noqa: BLE001
            out["outcome"] = f"raised:{type(e).__name__}"
            out["detail"] = traceback.format_exc()[-1500:]
        if job.get("natsum") and out["outcome"] == "ok":
            try:
                c.get_national_summary_votes_estimates({s: 3 + 2 * i for i, s in enumerate(states)}, 0, [0.9])
                out["natsum_outcome"] = "ok"
            except Exception as e:  # noqa: BLE001
                out["natsum_outcome"] = f"raised:{type(e).__name__}"
                out["detail"] = traceback.format_exc()[-1500:]
        out["keys"] = [p["Key"] for p in synth.PUTS]
        out["buckets"] = sorted({p["Bucket"] for p in synth.PUTS})
        out["puts"] = [_project_key(p["Key"], root, eid, office, gut) for p in synth.PUTS]
        out["files"] = _project_files(scratch, eid, office, gut)
        out["app_env"] = file_utils.APP_ENV
        out["root"] = root
        out["eid"] = eid
    finally:
        os.chdir(cwd0)
        shutil.rmtree(scratch, ignore_errors=True)
        del synth.PUTS[:]
    return out


# ---- C20


def _digest(a):
    import numpy as np

    b = np.ascontiguousarray(np.asarray(a, dtype=float)).tobytes()
    return int(hashlib.sha1(b).hexdigest()[:7], 16)


class FitRecorder:
    """Wraps QuantileRegressionSolver.fit (the class attribute): logs every call and injects one fault at call k.

    The fault is raised where a real one would come from: inside the real `fit`, at the solve (`_fit` /
    `_fit_with_regularization`), i.e. after the argument checks and the weight normalisation and before the
    coefficients are appended.  "warning" is issued like cvxpy issues it (warnings.warn from module
    cvxpy.problems.problem), so it only becomes an exception through the filter installed by ConformalElectionModel;
    if it does not, the solve simply continues (as it would in reality, with the inaccurate solution)."""

    def __init__(self):
        import inspect

        from elexsolver.QuantileRegressionSolver import QuantileRegressionSolver as Q

        self.Q = Q
        self.orig = Q.fit
        self.sig = inspect.signature(self.orig)
        self.calls = []
        self.solvers = []
        self.fault = (0, "none")
        rec = self

        def fit(solver, *a, **kw):
            return rec._call(solver, a, kw)

        Q.fit = fit

    def reset(self, k=0, kind="none"):
        self.calls = []
        self.solvers = []
        self.fault = (k, kind)

    def _raiser(self, kind, through):
        import warnings

        import cvxpy

        def f(*a, **kw):
            if kind == "solver_error":
                raise cvxpy.error.SolverError("Solver 'CLARABEL' failed. Try another solver (injected).")
            warnings.warn_explicit(
                "Solution may be inaccurate. Try another solver, adjusting the solver settings, or solve with "
                "verbose=True for more information. (injected)",
                UserWarning,
                getattr(cvxpy.problems.problem, "__file__", "cvxpy/problems/problem.py"),
                1,
                module="cvxpy.problems.problem",
                registry={},
            )
            return through(*a, **kw)

        return f

    def _call(self, solver, a, kw):
        import numpy as np

        n = len(self.calls) + 1
        if not any(s is solver for s in self.solvers):
            self.solvers.append(solver)
        sidx = [i for i, s in enumerate(self.solvers) if s is solver][0] + 1
        entry = {"n": n, "solver": sidx, "tau": -1, "lam": -1, "intercept": False, "normalize": False, "dx": 0, "dy": 0, "dw": 0, "outcome": "?", "ncoef": -1, "multi_tau": False}
        self.calls.append(entry)
        try:
            ba = self.sig.bind(solver, *a, **kw)
        except TypeError:
            entry["outcome"] = "type_error"
            return self.orig(solver, *a, **kw)  # raises the TypeError the real method raises
        ba.apply_defaults()
        g = ba.arguments
        taus = g["taus"]
        if isinstance(taus, (list, tuple, np.ndarray)):
            entry["multi_tau"] = len(taus) != 1
            taus = taus[0] if len(taus) else -1
        entry["tau"] = int(round(float(taus) * 1e6))
        entry["lam"] = int(round(float(g["lambda_"]) * 1000))
        entry["intercept"] = bool(g["fit_intercept"])
        entry["normalize"] = bool(g["normalize_weights"])
        entry["dx"] = _digest(g["x"])
        entry["dy"] = _digest(g["y"])
        entry["dw"] = _digest(g["weights"]) if g["weights"] is not None else 0
        k, kind = self.fault
        patched = False
        if n == k and kind != "none":
            solver._fit = self._raiser(kind, solver._fit)
            solver._fit_with_regularization = self._raiser(kind, solver._fit_with_regularization)
            patched = True
        try:
            r = self.orig(solver, *a, **kw)
            entry["outcome"] = "ok"
            return r
        except BaseException as e:  # noqa: BLE001
            import cvxpy

            if isinstance(e, cvxpy.error.SolverError):
                entry["outcome"] = "solver_error"
            elif isinstance(e, UserWarning):
                entry["outcome"] = "warning"
            else:
                entry["outcome"] = f"raised:{type(e).__name__}"
            raise
        finally:
            if patched:
                del solver._fit
                del solver._fit_with_regularization
            try:
                entry["ncoef"] = len(solver.coefficients)
            except TypeError:
                entry["ncoef"] = -1


_REC = None
_BASE = {}

EST_LIST = ("turnout", "dem", "gop")
ALPHA_LIST = (0.7, 0.95, 0.8)  # 0.95: bound quantiles 0.025 / 0.975 need a third decimal


def _fit_config_key(job):
    return (job["estimator"], job["lam"], job["n_est"], job["n_alpha"], job["seed"], job["n"], tuple(job.get("features", ("x1",))))


def _fit_run(job, k, kind):
    from harness import synth

    pre, cur = synth.make_election(n=job["n"], seed=job["seed"], frac_reporting=job.get("frac", 0.7))
    if job["seed"] % 3 == 0:
        # very unequal unit sizes: every unit a thousand times larger, one reporting unit with a single baseline voter
        # (the relative size of the smallest weight is what weight normalisation is sensitive to)
        for c in ("baseline_turnout", "baseline_dem", "baseline_gop"):
            pre[c] = pre[c] * 1000
        for c in ("results_turnout", "results_dem", "results_gop"):
            cur[c] = cur[c] * 1000
        fid = cur[cur.percent_expected_vote >= 100].geographic_unit_fips.iloc[0]
        pre.loc[pre.geographic_unit_fips == fid, ["baseline_turnout", "baseline_dem", "baseline_gop"]] = [1, 1, 0]
        cur.loc[cur.geographic_unit_fips == fid, ["results_turnout", "results_dem", "results_gop"]] = [1, 1, 0]
    extra = {}
    if job["seed"] % 2 == 1:
        # fixed effects on the classification with two reporting units in a class of their own: the seeded calibration split
        # can leave the class out of the training rows (an all-zero column in that design) - a failed solve of such a fit
        # is retried like any other (seeded change C20_H)
        rep_ids = cur[cur.percent_expected_vote >= 100].geographic_unit_fips.tolist()
        pre.loc[pre.geographic_unit_fips.isin([rep_ids[1], rep_ids[-1]]), "county_classification"] = "exurb"
        extra["fixed_effects"] = {"county_classification": ["all"]}
    _REC.reset(k, kind)
    c, res = synth.run_client(
        pre,
        cur,
        estimands=EST_LIST[: job["n_est"]],
        pis=ALPHA_LIST[: job["n_alpha"]],
        pi_method=job["estimator"],
        aggregates=["postal_code", "county_fips", "unit"],
        model_parameters={"lambda_": job["lam"]},
        features=tuple(job.get("features", ("x1",))),
        **extra,
    )
    return res


def _compare_tables(a, b):
    """max |difference| over all numeric cells (integer, rounded up), and whether everything else is identical."""
    import math

    import numpy as np
    import pandas as pd

    if list(a.keys()) != list(b.keys()):
        return -1, False
    m = 0.0
    for k in a:
        A, B = a[k], b[k]
        if list(A.columns) != list(B.columns) or len(A) != len(B):
            return -1, False
        for c in A.columns:
            if pd.api.types.is_numeric_dtype(A[c]) and pd.api.types.is_numeric_dtype(B[c]) and A[c].dtype != bool:
                x, y = A[c].to_numpy(float), B[c].to_numpy(float)
                if (np.isnan(x) != np.isnan(y)).any():
                    return -1, False
                d = np.abs(x - y)
                d = d[~np.isnan(d)]
                if len(d):
                    m = max(m, float(d.max()))
            elif not (A[c].astype(str).to_numpy() == B[c].astype(str).to_numpy()).all():
                return -1, False
    return int(math.ceil(m - 1e-9)), True


def run_fit(job):
    """One fault script through the real client; compared with the fault-free run of the same configuration."""
    global _REC
    from harness import synth  # noqa: F401

    if _REC is None:
        import elexmodel.models.ConformalElectionModel  # noqa: F401  (installs the cvxpy warning filter)

        _REC = FitRecorder()
    key = _fit_config_key(job)
    if key not in _BASE:
        res0 = _fit_run(job, 0, "none")
        _BASE[key] = (res0, list(_REC.calls))
    base, base_calls = _BASE[key]
    sc = {
        "estimator": job["estimator"],
        "lam": "zero" if job["lam"] == 0 else "pos",
        "nEst": job["n_est"],
        "alphas": [int(round(a * 1e6)) for a in ALPHA_LIST[: job["n_alpha"]]],
        "fpos": job["fpos"],
        "fkind": job["fkind"] if job["fpos"] else "none",
    }
    out = {"id": job["id"], "sc": sc, "lamv": int(round(job["lam"] * 1000)), "seed": job["seed"], "n": job["n"], "outcome": "ok", "maxdiff": -1, "shape_same": False}
    try:
        if job["fpos"] == 0:
            res = _fit_run(job, 0, "none")  # a second fault-free run: the comparison baseline is itself repeatable
        else:
            res = _fit_run(job, job["fpos"], job["fkind"])
        out["maxdiff"], out["shape_same"] = _compare_tables(base, res)
    except Exception as e:  # noqa: BLE001
        out["outcome"] = f"raised:{type(e).__name__}"
        out["detail"] = traceback.format_exc()[-1500:]
    out["calls"] = [{k: v for k, v in c.items() if k != "n"} for c in _REC.calls]
    out["base_ncalls"] = len(base_calls)
    return out


# ---- dispatcher


def child_main(jobs_path, out_path):
    with open(jobs_path) as f:
        jobs = json.load(f)
    res = []
    for job in jobs:
        t0 = time.time()
        try:
            if job["kind"] == "historical":
                from harness import histflow

                r = histflow.run(job)
            else:
                r = run_persist(job) if job["kind"] == "persist" else run_fit(job)
        except Exception as e:  # noqa: BLE001
            r = {"id": job["id"], "outcome": f"harness_error:{type(e).__name__}", "detail": traceback.format_exc()[-3000:]}
        r["wall"] = round(time.time() - t0, 2)
        res.append(r)
    with open(out_path, "w") as f:
        json.dump(res, f)


if __name__ == "__main__":
    child_main(sys.argv[1], sys.argv[2])
