"""S07: one historical evaluation through the real HistoricalModelClient (HistoricalRun.tla).

Runs in a child interpreter started by harness.controla.spawn (the environment class is read at import time): scratch
working directory with config/ and data/ trees for the running election and its historical elections, the recording
remote fake of harness.synth, a wrapper on ModelClient.get_estimates that captures the feed every inner estimate run
is handed."""
import json
import os
import shutil
import tempfile
import traceback

HISTS = ["2095-11-03_USA_G", "2091-11-03_USA_G"]
TABLE_OF = {"postal_code": "state_data", "county_fips": "county_data", "district": "district_data",
            "county_classification": "classification_data", "unit": "unit_data"}


def make_job(jid, rnd):
    ests = rnd.choice([["turnout"], ["turnout", "dem"], ["dem", "turnout"], ["dem"]])
    return {
        "kind": "historical", "id": jid, "seed": rnd.randint(0, 10**6),
        "hist": rnd.choice([[], ["h1"], ["h1", "h2"], ["h1"], ["h1", "h2"]]),
        "estimands": ests,
        "aggs": rnd.choice([[], ["postal_code"], ["county_fips", "postal_code"], ["postal_code", "unit"]]),
        "save": rnd.choice([{"given": False, "opts": []}, {"given": True, "opts": []}, {"given": True, "opts": ["results"]},
                            {"given": True, "opts": ["data"]}, {"given": True, "opts": ["results", "data"]}]),
        "gate": rnd.choice(["pass", "pass", "fail"]),
    }


def run(job):
    from harness import synth  # noqa: F401  (first: environment + fake boto3)
    import numpy as np
    import pandas as pd  # noqa: F401
    from elexmodel import client as client_mod
    from elexmodel.client import HistoricalModelClient, ModelClient, ModelClientException, ModelNotEnoughSubunitsException

    root = f"{os.environ['MODEL_S3_PATH_ROOT']}-{os.environ['DATA_ENV']}"
    rnd = np.random.default_rng(job["seed"])
    n = 40
    pre, cur = synth.make_election(n=n, states=("AA", "BB"), seed=job["seed"], frac_reporting=1.0)
    k = 3 if job["gate"] == "fail" else 28
    rep = set(rnd.choice(n, size=k, replace=False).tolist())
    pev = np.array([100 if i in rep else int(rnd.integers(0, 100)) for i in range(n)])
    cur["percent_expected_vote"] = pev
    hist_ids = [HISTS[i] for i, _ in enumerate(job["hist"])]
    truth = {}
    out = {"id": job["id"], "job": job, "outcome": "ok", "feeds": {}, "result": {}}
    cwd0 = os.getcwd()
    d = tempfile.mkdtemp(prefix="verif_histflow_")
    orig = ModelClient.get_estimates

    def spy(self_, current_data, election_id, *a, **kw):
        cols = [c for c in current_data.columns if c.startswith("results_")]
        out["feeds"][election_id] = {
            str(r["geographic_unit_fips"]): {c: float(r[c]) for c in cols} for _, r in current_data.iterrows()
        }
        return orig(self_, current_data, election_id, *a, **kw)

    try:
        os.makedirs(f"{d}/config")
        with open(f"{d}/config/{synth.EID}.json", "w") as f:
            json.dump(synth.config("G", ("AA", "BB"), features=("x1",), historical=tuple(hist_ids)), f)
        for hid in hist_ids:
            os.makedirs(f"{d}/data/{hid}/G")
            with open(f"{d}/config/{hid}.json", "w") as f:
                json.dump(synth.config("G", ("AA", "BB"), features=("x1",), eid=hid), f)
            h = pre.copy()
            for c in ("turnout", "dem", "gop"):
                h[f"results_{c}"] = (h[f"baseline_{c}"] * rnd.uniform(0.8, 1.2, len(h))).round().astype(int) + 1
            h["results_turnout"] = np.maximum(h["results_turnout"], h["results_dem"] + h["results_gop"])
            h.to_csv(f"{d}/data/{hid}/G/data_precinct.csv", index=False)
            truth[hid] = {str(r["geographic_unit_fips"]): {c: float(r[f"results_{c}"]) for c in ("turnout", "dem", "gop")} for _, r in h.iterrows()}
        os.chdir(d)
        del synth.PUTS[:]
        ModelClient.get_estimates = spy
        kw = dict(aggregates=list(job["aggs"]), pi_method="nonparametric", features=["x1"],
                  model_parameters={"fit_margin_outlier_model": False, "fit_turnout_outlier_model": False})
        if job["save"]["given"]:
            kw["save_output"] = list(job["save"]["opts"])
        try:
            res = HistoricalModelClient().get_historical_evaluation(cur.copy(), synth.EID, "G", list(job["estimands"]), [0.9], 100, "precinct", **kw)
            for hid, v in res.items():
                ev = v["evaluation"]
                tables = sorted({t for e in ev.values() for t in e})
                out["result"][hid] = {"estimands": sorted(ev), "tables": tables,
                                      "uniform": all(sorted(e) == tables for e in ev.values()),
                                      "has_all": all("all" in e[t] for e in ev.values() for t in e)}
        except ModelNotEnoughSubunitsException:
            out["outcome"] = "not_enough"
        except ModelClientException:
            out["outcome"] = "client_error"
        except TypeError as e:
            out["outcome"] = "type_error"
            out["detail"] = str(e)[:200]
        except Exception as e:  # noqa: BLE001
            out["outcome"] = f"raised:{type(e).__name__}"
            out["detail"] = traceback.format_exc()[-1500:]
        puts = []
        for p in synth.PUTS:
            key = p["Key"]
            ws = any(ch.isspace() for ch in key)
            rec = {"kind": "unknown:" + key, "hist": "-", "table": "-", "ws": ws}
            if key.startswith(root + "/"):
                segs = key[len(root) + 1:].split("/")
                eid = segs[0]
                hid = "-" if eid == synth.EID else ("h%d" % (hist_ids.index(eid) + 1) if eid in hist_ids else "?" + eid)
                if len(segs) >= 2 and segs[1] == "evaluation" and segs[-1] == "current.json":
                    rec.update(kind="evaluation", hist="-" if eid == synth.EID else hid)
                elif len(segs) == 5 and segs[1] == "results" and segs[2:4] == ["G", "precinct"]:
                    rec.update(kind="live" if segs[4] == "current.csv" else "live_counties", hist=hid)
                elif len(segs) == 6 and segs[1] == "predictions" and segs[2:4] == ["G", "precinct"] and segs[5] == "current.csv":
                    rec.update(kind="table", hist=hid, table=segs[4])
            puts.append(rec)
        out["puts"] = puts
        out["keys"] = [p["Key"] for p in synth.PUTS]
        # the feed per historical election: unit -> [pev, truth per estimand-or-turnout column, fed]
        units = {}
        pev_of = {str(r["geographic_unit_fips"]): int(r["percent_expected_vote"]) for _, r in cur.iterrows()}
        for i, hid in enumerate(hist_ids):
            fed = out["feeds"].get(hid)
            if fed is None:
                continue
            units["h%d" % (i + 1)] = {
                u: {"pev": pev_of[u], "res": {c.replace("results_", ""): truth[hid][u][c.replace("results_", "")] for c in cols}, "fed": {c.replace("results_", ""): v for c, v in cols.items()}}
                for u, cols in fed.items()
            }
        out["units"] = units
        out["result"] = {("h%d" % (hist_ids.index(h) + 1)): v for h, v in out["result"].items()}
        del out["feeds"]
    finally:
        ModelClient.get_estimates = orig
        os.chdir(cwd0)
        shutil.rmtree(d, ignore_errors=True)
        del synth.PUTS[:]
    return out
