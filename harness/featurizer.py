"""Binding of spec/FeaturizerSpec.tla to elexmodel.handlers.data.Featurizer (property C16).

spec -> code : `materialise` turns an abstract scenario (rows with role / state / levels, effect list, selected levels,
               feature list, options) into a DataFrame, `run_scenario` calls the real Featurizer the way the callers
               do (prepare_data, then positional slices through filter_to_active_features / generate_holdout_data)
               and projects column lists and matrix entries to the specification's values (structured column ids,
               exact rationals); `compare` reports every difference from TLC's terminal state.
code -> spec : `Recorder` wraps the three Featurizer methods at run time while real estimate runs execute; every use
               of a Featurizer object becomes one trace (scenario read off the frame the caller passed + observed
               column lists, x_all and the slices the caller made) for Trace_FeaturizerSpec.

Python only materialises, calls, projects and compares; every verdict is TLC's terminal state or a TLC invariant.
"""
import inspect
import math
import sys
from fractions import Fraction

import harness.synth as synth  # noqa: F401  (must precede any elexmodel import; honours VERIF_REPO_SRC)

import numpy as np  # noqa: E402
import pandas as pd  # noqa: E402

NA = "~"
MAX_DEN = 100000


# ----------------------------------------------------------------------------------------------------------------
# column ids <-> names


def colname(c):
    return c["f"] if c["l"] == "" else f'{c["f"]}_{c["l"]}'


def col(k, f, l=""):  # noqa: E741
    return {"k": k, "f": f, "l": l}


def _asdict(v):
    # ToJson prints a function with an empty domain as []
    return {} if isinstance(v, list) else v


def frac(v):
    """Project a matrix entry to an exact rational [num, den]; NaN is [0, 0]."""
    if v is None:
        return [0, 0]
    if isinstance(v, (bool, np.bool_)):
        return [int(v), 1]
    if isinstance(v, (int, np.integer)):
        return [int(v), 1]
    v = float(v)
    if math.isnan(v) or math.isinf(v):
        return [0, 0]
    fr = Fraction(v).limit_denominator(MAX_DEN)
    return [fr.numerator, fr.denominator]


def matrix(df):
    return [[frac(v) for v in row] for row in df.to_numpy(dtype=object).tolist()]


# ----------------------------------------------------------------------------------------------------------------
# spec -> code


def materialise(sc):
    """The frame a caller would hand to prepare_data: one row per scenario row, in order."""
    fes = list(sc["fes"])
    feats = list(sc["feats"])
    extra = list(sc.get("extra", []))
    rows = []
    for i, r in enumerate(sc["rows"]):
        lev = _asdict(r["lev"])
        x = _asdict(r["x"])
        d = {
            "postal_code": r["st"],
            "geographic_unit_fips": f"u{i + 1:03d}",
            # a column the Featurizer must ignore
            "results_turnout": 100 + i,
        }
        for fe in fes:
            d[fe] = np.nan if lev[fe] == NA else lev[fe]
        for f in feats:
            n, den = x[f]
            d[f] = float(Fraction(n, den))
        for e in extra:
            d[f'{e["f"]}_{e["l"]}'] = int(e["v"][i])
        d["reporting"] = int(1 if r["rep"] else 0)
        d["unit_category"] = "expected" if r["exp"] else "unexpected"
        rows.append(d)
    return pd.DataFrame(rows)


def featurizer_args(sc, variant=0):
    """Constructor arguments: list form when every effect takes all levels (variants alternate the three spellings)."""
    sel = _asdict(sc["sel"])
    fes = list(sc["fes"])
    if all(sel[fe]["all"] for fe in fes):
        if variant % 3 == 0:
            fixed = list(fes)
        elif variant % 3 == 1:
            fixed = {fe: "all" for fe in fes}
        else:
            fixed = {fe: ["all"] for fe in fes}
    else:
        fixed = {fe: ("all" if sel[fe]["all"] else list(sel[fe]["keep"])) for fe in fes}
    return list(sc["feats"]), fixed, list(sc["sep"])


def _slice(x_all, rows):
    """The callers slice positionally: x_all[a:b]."""
    if not rows:
        return None
    lo, hi = rows[0], rows[-1]
    if list(rows) == list(range(lo, hi + 1)):
        return x_all[lo - 1 : hi]
    return x_all.iloc[[r - 1 for r in rows]]


def run_scenario(sc, variant=0):
    """Call the real Featurizer as the callers do; return the projected observation."""
    from elexmodel.handlers.data.Featurizer import Featurizer

    df = materialise(sc)
    feats, fixed, sep = featurizer_args(sc, variant)
    # every fourth variant: the levels of the fixed effects are NUMBERS (district numbers, codes) in the frame and in the
    # selected lists - same order as the letters; the observed column names are translated back (seeded change C16_E:
    # the column stringified before it is compared with the selected values)
    back = {}
    fes = list(sc["fes"])
    order = list(sc.get("order", []))

    def _before_other(fe):
        # pandas sorts mixed levels numbers first, strings ("other") last: the numeric spelling is order-preserving only
        # where every level of a pooled effect sorts before "other" in the scenario's explicit string order
        if not (isinstance(fixed, dict) and isinstance(fixed.get(fe), list) and fixed[fe] != ["all"]):
            return True
        if "other" not in order:
            return False
        lv = set(df[fe].unique()) | set(fixed[fe])
        return all(x in order and order.index(x) < order.index("other") for x in lv)

    if variant % 4 == 3 and fes and all(df[fe].notna().all() for fe in fes) and all(_before_other(fe) for fe in fes):
        letters = sorted({v for fe in fes for v in df[fe].unique()} | {x for fe in fes if isinstance(fixed, dict) and isinstance(fixed.get(fe), list) for x in fixed[fe] if x != "all"})
        num = {l: 1 + 2 * k for k, l in enumerate(letters)}  # noqa: E741
        for fe in fes:
            df[fe] = df[fe].map(num).astype(int)
            if isinstance(fixed, dict) and isinstance(fixed.get(fe), list):
                fixed[fe] = [num.get(x, x) for x in fixed[fe]]
            for l, k in num.items():  # noqa: E741
                back[f"{fe}_{k}"] = f"{fe}_{l}"

    elif variant % 4 == 1 and fes and all(df[fe].notna().all() for fe in fes) and all(_before_other(fe) for fe in fes):
        # every fourth variant: the levels are strings that are PREFIXES of one another ("1", "10", "100", ... - district
        # numbers), in the same (lexicographic) order as the letters: a level seen on the fitting rows is a proper prefix
        # of levels seen only elsewhere (seeded change C16_I: levels matched to dummy columns with startswith)
        letters = sorted({v for fe in fes for v in df[fe].unique()} | {x for fe in fes if isinstance(fixed, dict) and isinstance(fixed.get(fe), list) for x in fixed[fe] if x != "all"})
        num = {l: "1" + "0" * k for k, l in enumerate(letters)}  # noqa: E741
        for fe in fes:
            df[fe] = df[fe].map(num)
            if isinstance(fixed, dict) and isinstance(fixed.get(fe), list):
                fixed[fe] = [num.get(x, x) for x in fixed[fe]]
            for l, k in num.items():  # noqa: E741
                back[f"{fe}_{k}"] = f"{fe}_{l}"

    def names(cols):
        return [back.get(str(c), str(c)) for c in cols]

    obs = {"raised": None, "complete": None, "active": None, "xall": None, "mats": []}
    try:
        fz = Featurizer(feats, fixed, states_for_separate_model=sep)
        x_all = fz.prepare_data(df, center_features=bool(sc["center"]), scale_features=False, add_intercept=bool(sc["intercept"]))
        obs["complete"] = names(x_all.columns)
        obs["active"] = names(fz.active_features)
        obs["numeric_levels"] = bool(back)
        obs["numeric_levels_pooled"] = bool(back) and isinstance(fixed, dict) and any(isinstance(v, list) and v != ["all"] for v in fixed.values())
        obs["xall"] = matrix(x_all)
        n = len(df)
        for s in sc["slices"]:
            rows = list(s["rows"])
            if rows:
                part = _slice(x_all, rows)
            else:
                # an empty positional slice at the place the caller would cut
                part = x_all[n:n]
            out = fz.filter_to_active_features(part) if s["kind"] == "fit" else fz.generate_holdout_data(part)
            obs["mats"].append({"kind": s["kind"], "rows": rows, "cols": names(out.columns), "M": matrix(out)})
    except Exception as e:  # noqa: BLE001
        obs["raised"] = f"{type(e).__name__}: {str(e)[:200]}"
    return obs


def _eqv(a, b):
    """Equality of two rationals [n, d] (d = 0 encodes NaN)."""
    if a[1] == 0 or b[1] == 0:
        return a[1] == b[1]
    return a[0] * b[1] == b[0] * a[1]


def _cmp_matrix(clause, exp_m, obs_m, bad, extra):
    if len(exp_m) != len(obs_m):
        bad.append(dict(clause=clause + "_rows", expected=len(exp_m), observed=len(obs_m), **extra))
        return
    for i, (er, orow) in enumerate(zip(exp_m, obs_m)):
        if len(er) != len(orow):
            bad.append(dict(clause=clause + "_width", row=i + 1, expected=len(er), observed=len(orow), **extra))
            return
        for j, (ev, ov) in enumerate(zip(er, orow)):
            if not _eqv(ev, ov):
                bad.append(dict(clause=clause + "_cell", row=i + 1, col=j + 1, expected=ev, observed=ov, **extra))
                return


def compare(sc, expect, obs):
    """Differences between TLC's terminal state and the projected observation (empty list = conforms)."""
    bad = []
    if expect["pc"] == "raised":
        if obs["raised"] is None:
            bad.append(dict(clause="expected_raise", observed="returned"))
        return bad
    if obs["raised"] is not None:
        return [dict(clause="raised", observed=obs["raised"])]
    ecomplete = [colname(c) for c in expect["complete"]]
    eactive = [colname(c) for c in expect["active"]]
    if ecomplete != obs["complete"]:
        bad.append(dict(clause="complete_columns", expected=ecomplete, observed=obs["complete"]))
    else:
        _cmp_matrix("xall", expect["xall"], obs["xall"], bad, {})
    if eactive != obs["active"]:
        bad.append(dict(clause="active_columns", expected=eactive, observed=obs["active"]))
    if len(expect["mats"]) != len(obs["mats"]):
        bad.append(dict(clause="slice_count", expected=len(expect["mats"]), observed=len(obs["mats"])))
        return bad
    for a, (em, om) in enumerate(zip(expect["mats"], obs["mats"])):
        ecols = [colname(c) for c in em["cols"]]
        kind = em["kind"]
        if ecols != om["cols"]:
            bad.append(dict(clause=f"{kind}_columns", slice=a + 1, expected=ecols, observed=om["cols"]))
            continue
        _cmp_matrix(f"{kind}_matrix", em["M"], om["M"], bad, {"slice": a + 1})
    return bad


# ----------------------------------------------------------------------------------------------------------------
# code -> spec: run-time recorder

CALLERS = {
    "get_unit_predictions": "pred",
    "get_unit_prediction_interval_bounds": "interval",
    "compute_bootstrap_errors": "bootstrap",
    "_fit_outlier_detection_model": "prepare",
    "_get_strata": "prepare",
}


class Recorder:
    """Wraps Featurizer.prepare_data / filter_to_active_features / generate_holdout_data (class level, run time only).

    One record per prepare_data call; the slices later passed through the other two methods of the same object are
    attached to it, each located in x_all by position."""

    def __init__(self):
        self.records = []
        self._by_obj = {}

    def __enter__(self):
        from elexmodel.handlers.data.Featurizer import Featurizer

        self.cls = Featurizer
        self.orig = (Featurizer.prepare_data, Featurizer.filter_to_active_features, Featurizer.generate_holdout_data)
        rec = self
        sig = inspect.signature(self.orig[0])

        def prepare_data(fz, *a, **k):
            out = rec.orig[0](fz, *a, **k)
            b = sig.bind(fz, *a, **k)
            b.apply_defaults()
            rec._on_prepare(fz, b.arguments, out, sys._getframe(1).f_code.co_name)
            return out

        def filter_to_active_features(fz, df):
            out = rec.orig[1](fz, df)
            name = sys._getframe(1).f_code.co_name
            if name != "generate_holdout_data":
                rec._on_slice(fz, "fit", df, out)
            return out

        def generate_holdout_data(fz, df):
            out = rec.orig[2](fz, df)
            rec._on_slice(fz, "holdout", df, out)
            return out

        Featurizer.prepare_data = prepare_data
        Featurizer.filter_to_active_features = filter_to_active_features
        Featurizer.generate_holdout_data = generate_holdout_data
        return self

    def __exit__(self, *a):
        self.cls.prepare_data, self.cls.filter_to_active_features, self.cls.generate_holdout_data = self.orig

    def _on_prepare(self, fz, args, out, caller):
        df = args["df"]
        keep = [c for c in ["reporting", "unit_category", "postal_code"] + list(fz.fixed_effect_cols) + list(fz.features) if c in df.columns]
        r = {
            "caller_fn": caller,
            "caller": CALLERS.get(caller, "prepare"),
            "frame": df[list(dict.fromkeys(keep))].copy(),
            "frame_columns": [str(c) for c in df.columns],
            "features": list(fz.features),
            "fes": list(fz.fixed_effect_cols),
            "params": {fe: list(v) for fe, v in fz.fixed_effect_params.items()},
            "sep": list(fz.states_for_separate_model),
            "center": bool(args["center_features"]),
            "scale": bool(args["scale_features"]),
            "intercept": bool(args["add_intercept"]),
            "xall": out.copy(),
            "complete": [str(c) for c in fz.complete_features],
            "active": [str(c) for c in fz.active_features],
            "slices": [],
        }
        self._by_obj[id(fz)] = r
        self.records.append(r)

    def _on_slice(self, fz, kind, df_in, out):
        r = self._by_obj.get(id(fz))
        if r is None:
            return
        r["slices"].append({"kind": kind, "inp": df_in.copy(), "out": out.copy()})


def _locate(xall, part):
    """Positions (1-based) of the rows of `part` in x_all.  Callers slice contiguously, so try that first; fall back
    to matching row by row on the row's values (the drivers give every unit a distinct x1)."""
    m = len(part)
    if m == 0:
        return []
    xa = xall.to_numpy(dtype=float)
    pa = part[list(xall.columns)].to_numpy(dtype=float) if set(xall.columns) <= set(part.columns) else None
    if pa is None:
        raise ValueError("slice does not carry the columns of x_all")

    def same(u, v):
        return bool(np.all((u == v) | (np.isnan(u) & np.isnan(v))))

    starts = [a for a in range(0, len(xa) - m + 1) if same(xa[a : a + m], pa)]
    if len(starts) == 1:
        return list(range(starts[0] + 1, starts[0] + m + 1))
    if len(starts) > 1:
        # identical blocks: use the index labels to disambiguate
        lab = list(part.index)
        starts2 = [a for a in starts if list(xall.index[a : a + m]) == lab]
        a = (starts2 or starts)[0]
        return list(range(a + 1, a + m + 1))
    pos = []
    for i in range(m):
        hits = [a for a in range(len(xa)) if same(xa[a], pa[i])]
        if len(hits) != 1:
            raise ValueError(f"cannot locate slice row {i} in x_all ({len(hits)} candidates)")
        pos.append(hits[0] + 1)
    return pos


def trace_of(r):
    """One recorded Featurizer use -> one trace for Trace_FeaturizerSpec ({sc, obs})."""
    fr = r["frame"]
    fes, feats = r["fes"], r["features"]
    n = len(fr)
    rep = np.isclose(fr["reporting"].to_numpy(dtype=float), 1)
    exp = (fr["unit_category"] == "expected").to_numpy()
    levels = set()
    rows = []
    for i in range(n):
        lev = {}
        for fe in fes:
            v = fr[fe].iloc[i]
            lev[fe] = NA if (v is None or (isinstance(v, float) and math.isnan(v)) or v is pd.NA) else str(v)
            if lev[fe] != NA:
                levels.add(lev[fe])
        rows.append(
            {
                "rep": bool(rep[i]),
                "exp": bool(exp[i]),
                "st": str(fr["postal_code"].iloc[i]),
                "lev": lev,
                "x": {f: frac(fr[f].iloc[i]) for f in feats},
            }
        )
    sel = {}
    for fe in fes:
        p = r["params"][fe]
        sel[fe] = {"all": "all" in p, "keep": [str(v) for v in p if v != "all"]}
        levels |= set(sel[fe]["keep"])
    levels.add("other")
    states = sorted({row["st"] for row in rows} | set(r["sep"]))
    # name -> column id, from the scenario (no parsing of names)
    ids = {"intercept": col("int", "intercept")}
    clash = []
    def put(name, c):
        if name in ids and ids[name] != c:
            clash.append(name)
        ids[name] = c
    for f in feats:
        put(f, col("feat", f))
    for f in feats:
        for s in states:
            put(f"{f}_{s}", col("sfeat", f, s))
    for fe in fes:
        for lv in sorted(levels):
            put(f"{fe}_{lv}", col("dummy", fe, lv))
    def cid(name):
        return ids.get(name, col("unknown", name))
    slices = []
    mats = []
    for s in r["slices"]:
        pos = _locate(r["xall"], s["inp"])
        slices.append({"kind": s["kind"], "rows": pos})
        mats.append({"kind": s["kind"], "rows": pos, "cols": [cid(str(c)) for c in s["out"].columns], "M": matrix(s["out"])})
    sc = {
        "rows": rows,
        "fes": fes,
        "sel": sel,
        "feats": feats,
        "intercept": r["intercept"],
        "center": r["center"],
        "scale": r["scale"],
        "sep": r["sep"],
        "order": sorted(levels),
        "extra": [],
        "caller": r["caller"],
        "caller_fn": r["caller_fn"],
        "slices": slices,
        "name_clash": clash,
        # frame columns (other than the effect columns themselves) whose name starts with "<fe>_"
        "prefixed_columns": [c for c in r["frame_columns"] if any(c.startswith(fe + "_") for fe in fes)],
    }
    obs = {
        "complete": [cid(c) for c in r["complete"]],
        "active": [cid(c) for c in r["active"]],
        "xall": matrix(r["xall"]),
        "mats": mats,
    }
    return {"sc": sc, "obs": obs}


# ----------------------------------------------------------------------------------------------------------------
# drivers: real estimate runs with fixed effects


FE_CHOICES = [
    {"county_classification": "all"},
    ["county_fips"],
    {"county_classification": ["urban", "rural"]},
    ["postal_code", "county_classification"],
    {"county_fips": "all", "county_classification": ["suburb"]},
    ["postal_code"],
    {},
]


def make_case(seed, n=48, states=("AA", "BB", "CC"), n_unexpected=0, n_per_county=3):
    """A small election in which some counties and one classification occur only among nonreporting units and one
    state has no reporting unit at all in half of the cases.  x1, x2 are integer valued (exact centring); x1
    identifies the unit."""
    rnd = np.random.default_rng(seed)
    pre, cur = synth.make_election(n=n, states=states, seed=seed, frac_reporting=1.0, n_per_county=n_per_county)
    pre = synth.with_margin_features(pre)
    # counties shared by n_per_county units of the same state (synth rotates states, which makes every county a singleton)
    within = pre.groupby("postal_code").cumcount()
    pre["county_fips"] = [f"{st}{k // n_per_county:03d}" for st, k in zip(pre.postal_code, within)]
    pre["x1"] = rnd.permutation(n).astype(float)
    pre["x2"] = rnd.integers(0, 7, size=n).astype(float)
    cls = pre["county_classification"].to_numpy(dtype=object).copy()
    non = np.zeros(n, dtype=bool)
    # a classification that exists only on nonreporting units
    lonely = rnd.choice(n, size=2, replace=False)
    cls[lonely] = "exurb"
    non[lonely] = True
    pre["county_classification"] = cls
    # all units of one county outstanding
    counties = sorted(set(pre.county_fips))
    for c in rnd.choice(counties, size=1, replace=False):
        non |= (pre.county_fips == c).to_numpy()
    # the last state reports nothing in half of the cases
    silent_state = None
    if seed % 2 == 0:
        silent_state = states[-1]
        non |= (pre.postal_code == silent_state).to_numpy()
    # a few more at random
    non |= rnd.random(n) < 0.08
    cur = cur.copy()
    pev = np.where(non, rnd.integers(0, 90, size=n), 100)
    for c in ("results_turnout", "results_dem", "results_gop"):
        cur[c] = np.where(non, np.floor(cur[c].to_numpy() * pev / 100.0), cur[c].to_numpy()).astype(int)
    cur["percent_expected_vote"] = pev
    if n_unexpected:
        extra = []
        for k in range(n_unexpected):
            st = states[k % len(states)]
            extra.append(
                dict(postal_code=st, geographic_unit_fips=f"{st}900_{9000 + k}", results_turnout=300 + k, results_dem=160,
                     results_gop=130 + k, percent_expected_vote=100 if k % 2 == 0 else 50)
            )
        cur = pd.concat([cur, pd.DataFrame(extra)], ignore_index=True)
    meta = {"silent_state": silent_state, "n_nonreporting": int(non.sum()), "n": n}
    return pre, cur, meta


def run_recorded(job):
    """One real estimate run under the recorder.  job: dict(seed, estimator, fe, sep, n_unexpected, outliers)."""
    seed = job["seed"]
    est = job["estimator"]
    states = ("AA", "BB", "CC")
    mp = {}
    if est == "bootstrap":
        estimands, features = ("margin",), ("baseline_normalized_margin", "x1")
        mp["B"] = 6
        if job.get("sep"):
            mp["states_for_separate_model"] = list(job["sep"])
        npc = 8  # few counties: the OLS solver needs more rows than columns in every cross-validation fold
    else:
        estimands, features = ("turnout",), ("x1", "x2")
        npc = 3
    pre, cur, meta = make_case(seed, n=job.get("n", 48), states=states, n_unexpected=job.get("n_unexpected", 0), n_per_county=npc)
    mp["fit_turnout_outlier_model"] = bool(job.get("outliers"))
    mp["fit_margin_outlier_model"] = bool(job.get("outliers")) and est == "bootstrap"
    with Recorder() as rec:
        synth.run_client(
            pre,
            cur,
            estimands=estimands,
            pis=(0.7, 0.8),
            thr=100,
            features=features,
            aggregates=["postal_code", "unit"],
            pi_method=est,
            fixed_effects=job["fe"],
            model_parameters=mp,
            handle_unreporting="drop",
        )
    return [trace_of(r) for r in rec.records], meta
