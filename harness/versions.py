"""Engine `versions`: materialisers, scripted fakes, runners and projectors for

  C19  S3VersionUtil.list_versions / get / make_request / wait_for_versions, VersionedDataHandler.get_versioned_results
  C17  VersionedDataHandler.compute_versioned_margin_estimate, BootstrapElectionModel._extrapolate_unit_margin

Python here only materialises scenarios, calls the real code, projects results to the abstract state of the
specifications (spec/S3Versions.tla, spec/VersionedMargin.tla) and compares; the deciding is TLC's.
"""
import contextlib
import datetime as dt
import io
import math
import random
import zoneinfo
from fractions import Fraction

import harness.synth  # noqa: F401  (environment, fake boto3, sys.path for the tree under test) - must come first

import numpy as np  # noqa: E402
import pandas as pd  # noqa: E402
from elexmodel.handlers import s3 as s3mod  # noqa: E402
from elexmodel.handlers.data import VersionedData as vdmod  # noqa: E402

# =====================================================================================================================
# C19 - scripted storage service
# =====================================================================================================================

NONE = -1
BASE = dt.datetime(2024, 11, 3, 3, 0, tzinfo=dt.timezone.utc)  # US daylight saving ends 06:00 UTC that day
ZONES = ["UTC", "America/New_York", "Asia/Tokyo"]
PATH = "elex-models/2099-11-03_USA_G/results/P/county/current.csv"


def instant(t, unit_min=60):
    """abstract time -> concrete timezone-aware instant"""
    return BASE + dt.timedelta(minutes=unit_min * t)


def abstract_time(ts, unit_min=60):
    """concrete instant -> abstract time; -7 if it is not on the scenario's grid"""
    sec = (ts - BASE).total_seconds()
    q, r = divmod(sec, 60 * unit_min)
    return int(q) if r == 0 else -7


def vid(i):
    return f"V{i:03d}.x{(i * 7919) % 997:03d}"


def vid_inv(s):
    return int(s[1:4])


def nrows(i):
    return 1 + i % 2


def csv_bytes(i):
    """the content of version i: 1 or 2 rows, each naming its version"""
    lines = ["geographic_unit_fips,dem,gop,total,percent_expected_vote,vid"]
    for r in range(nrows(i)):
        lines.append(f"{i:02d}{r:03d},{i + 1},{r + 2},{i + r + 5},{min(100, 10 * i)},{i}")
    return ("\n".join(lines) + "\n").encode()


class FakeVersionService:
    """list_object_versions of one key.  The k-th request is answered with pages[k] versions (the paging chosen by
    the behaviour being replayed); requests beyond the script get `default_page` versions.  Every request is logged."""

    def __init__(self, versions, pages, unit_min=60, default_page=1000):
        self.versions = list(versions)  # [{"id", "t"}] newest first
        self.pages = list(pages)
        self.unit = unit_min
        self.default_page = default_page
        self.calls = []
        self.bad_request = None

    def _version(self, v):
        return {
            "VersionId": vid(v["id"]),
            "LastModified": instant(v["t"], self.unit),
            "Size": len(csv_bytes(v["id"])),
            "Key": PATH,
            "IsLatest": v is self.versions[0],
            "ETag": '"x"',
            "StorageClass": "STANDARD",
        }

    def list_object_versions(self, Bucket=None, Prefix=None, KeyMarker=None, VersionIdMarker=None, **kw):
        if kw:
            self.bad_request = f"unexpected arguments {sorted(kw)}"
        if VersionIdMarker is None:
            pos = 0
        else:
            ids = [vid(v["id"]) for v in self.versions]
            if VersionIdMarker not in ids or KeyMarker is None:
                self.bad_request = f"unknown marker {KeyMarker}/{VersionIdMarker}"
                pos = 0
            else:
                pos = ids.index(VersionIdMarker) + 1
        k = self.pages[len(self.calls)] if len(self.calls) < len(self.pages) else self.default_page
        page = self.versions[pos : pos + k]
        trunc = pos + len(page) < len(self.versions)
        self.calls.append({"marker": pos, "n": len(page), "truncated": trunc, "bucket": Bucket, "prefix": Prefix})
        resp = {"IsTruncated": trunc, "Name": Bucket, "Prefix": Prefix, "MaxKeys": 1000}
        if page:
            resp["Versions"] = [self._version(v) for v in page]
        if trunc:
            resp["NextKeyMarker"] = PATH
            resp["NextVersionIdMarker"] = vid(page[-1]["id"]) if page else VersionIdMarker
        return resp


class _Future:
    def __init__(self, exc):
        self.exc = exc

    def result(self):
        if self.exc is not None:
            raise self.exc
        return None


class FakeTransferManager:
    """TransferManager.download: writes the version's CSV into the file object; versions in `failing` fail when
    their future is awaited (after having written half of their bytes)."""

    def __init__(self, failing):
        self.failing = set(failing)
        self.requests = []
        self.awaited = []

    def download(self, bucket, key, fileobj, extra_args=None, subscribers=None):
        v = (extra_args or {}).get("VersionId")
        i = vid_inv(v) if v else -1
        self.requests.append(i)
        data = csv_bytes(i) if i >= 0 else b""
        if i in self.failing:
            fileobj.write(data[: len(data) // 2])
            return _Future(RuntimeError(f"scripted download failure of {v}"))
        fileobj.write(data)
        return _Future(None)


def project_frame(df, zone, unit_min):
    """frame returned by S3VersionUtil.get -> Seq([id, t, zone]) (one entry per version, rows of a version collapsed;
    a version with the wrong number of rows or rows with differing stamps stays visible as extra entries)"""
    out = []
    if "vid" not in df.columns or "last_modified" not in df.columns:
        return [{"id": -1, "t": -9, "zone": "no-columns"}]
    per = []
    for v, ts in zip(df["vid"].tolist(), df["last_modified"].tolist()):
        ts = pd.Timestamp(ts)
        if ts.tzinfo is None:
            per.append((int(v), -8, "naive"))
            continue
        t = abstract_time(ts.to_pydatetime().astimezone(dt.timezone.utc), unit_min)
        want = ts.to_pydatetime().astimezone(zoneinfo.ZoneInfo(zone)).utcoffset()
        got = ts.utcoffset()
        per.append((int(v), t, zone if got == want else f"offset{int(got.total_seconds())}"))
    i = 0
    while i < len(per):
        j = i
        while j < len(per) and per[j] == per[i] and j - i < nrows(per[i][0]):
            j += 1
        e = {"id": per[i][0], "t": per[i][1], "zone": per[i][2]}
        if j - i != nrows(per[i][0]):
            e = {"id": per[i][0], "t": -9, "zone": f"rows{j - i}"}
        out.append(e)
        i = j
    return out


def _row_multiset(df):
    if not isinstance(df, pd.DataFrame):
        return None
    return sorted(zip(map(str, df["geographic_unit_fips"]), map(str, df["vid"]), map(str, df["last_modified"])))


_UTIL = None


def _cached_util():
    global _UTIL
    if _UTIL is None:
        _UTIL = s3mod.S3VersionUtil("bucket")
    return _UTIL


def _bound(t, unit_min):
    return None if t == NONE else instant(t, unit_min)


def run_retrieval(sc, pages, failing, unit_min=60, via_handler=False, default_page=1000):
    """Run the real retrieval of scenario `sc` against the scripted service.  Returns the observation record
    (the `obs` of Trace_S3Versions): calls, listed, downloads, result, hresult."""
    svc = FakeVersionService(sc["versions"], pages, unit_min, default_page)
    mgr = FakeTransferManager(failing)
    handler = None
    if via_handler:
        handler = vdmod.VersionedDataHandler(
            "2099-11-03_USA_G",
            "P",
            "county",
            estimands=["margin"],
            start_date=None if sc["start"] == NONE else instant(sc["start"], unit_min).isoformat(),
            end_date=None if sc["end"] == NONE else instant(sc["end"], unit_min).isoformat(),
            sample=sc["step"],
            tzinfo=sc["zone"],
        )
        util = handler.s3_client
    else:
        util = _cached_util()
        util.start_date = _bound(sc["start"], unit_min)
        util.end_date = _bound(sc["end"], unit_min)
        util.tz = sc["zone"]
    util.s3_client = svc
    util.manager = mgr

    cls = type(util)
    depth = [0]
    captured = {"listed": None, "get": "unset"}

    def list_versions(path, **kw):
        depth[0] += 1
        try:
            r = cls.list_versions(util, path, **kw)
        finally:
            depth[0] -= 1
        if depth[0] == 0 and captured["listed"] is None:
            captured["listed"] = [vid_inv(v["VersionId"]) for v in r]
        return r

    def get(path, *a, **kw):
        r = cls.get(util, path, *a, **kw)
        captured["get"] = r
        return r

    util.list_versions = list_versions
    util.get = get
    obs = {"exc": None}
    try:
        if via_handler:
            hres = handler.get_versioned_results()
            if hres is None:
                obs["hresult"] = "none"
            else:
                obs["hresult"] = "frame"
                lm = hres["last_modified"].tolist()
                if any(a > b for a, b in zip(lm, lm[1:])) or handler.data is not hres:
                    obs["hresult"] = "frame-unsorted"
                elif _row_multiset(hres) != _row_multiset(captured["get"]):
                    obs["hresult"] = "frame-differs"
        else:
            util.get(PATH, sc["step"])
            obs["hresult"] = "n/a"
    except Exception as e:  # noqa: BLE001
        obs["exc"] = f"{type(e).__name__}: {str(e)[:200]}"
        obs["hresult"] = "raised"
    finally:
        del util.list_versions
        del util.get
    got = captured["get"]
    if obs["exc"] is not None and isinstance(got, str):
        obs["result"] = {"kind": "raised", "rows": []}
    elif got is None:
        obs["result"] = {"kind": "none", "rows": []}
    elif isinstance(got, pd.DataFrame):
        obs["result"] = {"kind": "rows", "rows": project_frame(got, sc["zone"], unit_min)}
    else:
        obs["result"] = {"kind": "raised", "rows": []}
    calls = [{k: c[k] for k in ("marker", "n", "truncated")} for c in svc.calls]
    for k, c in enumerate(calls):
        c["continued"] = k + 1 < len(calls)
    obs["calls"] = calls
    obs["listed"] = captured["listed"] if captured["listed"] is not None else []
    obs["list_returned"] = captured["listed"] is not None
    obs["downloads"] = list(mgr.requests)
    obs["bad_request"] = svc.bad_request
    obs["prefix_ok"] = all(c["prefix"] is not None and c["bucket"] is not None for c in svc.calls)
    return obs


def compare_retrieval(scen, obs):
    """spec -> code comparison of one exported behaviour with the observation of the real run.
    Returns a list of (clause, detail)."""
    exp = scen["expect"]
    bad = []
    if obs["bad_request"]:
        bad.append(("marker_follows_service", obs["bad_request"]))
    if not obs["list_returned"]:
        bad.append(("exact_window", "list_versions did not return: " + str(obs["exc"])))
        return bad
    if obs["listed"] != exp["listed"]:
        bad.append(("exact_window", {"expected": exp["listed"], "observed": obs["listed"]}))
    if obs["downloads"] != exp["requested"]:
        bad.append(("sampled", {"expected": exp["requested"], "observed": obs["downloads"]}))
    if exp["kind"] == "raised":
        return bad  # every download failed: outside the property
    if obs["result"]["kind"] != exp["kind"]:
        clause = "no_data" if "none" in (exp["kind"], obs["result"]["kind"]) else "result_kind"
        bad.append((clause, {"expected": exp["kind"], "observed": obs["result"]["kind"], "exc": obs["exc"]}))
    elif exp["kind"] == "rows":
        if [r["id"] for r in obs["result"]["rows"]] != [r["id"] for r in exp["rows"]]:
            bad.append(("skip_failures", {"expected": exp["rows"], "observed": obs["result"]["rows"]}))
        elif obs["result"]["rows"] != exp["rows"]:
            bad.append(("own_stamp", {"expected": exp["rows"], "observed": obs["result"]["rows"]}))
    if obs["hresult"] != "n/a" and obs["hresult"] != exp["hresult"]:
        clause = "no_data_handler" if "none" in (exp["hresult"], obs["hresult"]) else "handler_result"
        bad.append((clause, {"expected": exp["hresult"], "observed": obs["hresult"], "exc": obs["exc"]}))
    return bad


def failing_of(scen):
    return [i for i, ok in zip(scen["expect"]["requested"], scen["outcomes"]) if not ok]


def random_retrieval(rnd, max_n=40):
    """a random larger scenario + paging script + failure set (code -> spec direction)"""
    n = rnd.choice([0, 1, 2, 3]) if rnd.random() < 0.12 else rnd.randint(4, max_n)
    tmax = rnd.choice([2, 5, 12, 30])
    ts = sorted((rnd.randint(1, tmax) for _ in range(n)), reverse=True)
    ids = list(range(1, n + 1))
    rnd.shuffle(ids)
    versions = [{"id": i, "t": t} for i, t in zip(ids, ts)]

    def bound():
        r = rnd.random()
        if r < 0.25:
            return NONE
        if r < 0.85 and ts:
            return rnd.choice(ts) + rnd.choice([0, 0, 0, 1, -1])
        return rnd.randint(0, tmax + 1)

    start, end = bound(), bound()
    if start != NONE and end != NONE and start > end and rnd.random() < 0.8:
        start, end = end, start
    start, end = max(start, NONE), max(end, NONE)
    mode = rnd.random()
    if mode < 0.15:
        pages = [1000]
    elif mode < 0.3:
        pages = [1] * (n + 2)
    else:
        lim = rnd.randint(1, 7)
        pages = [rnd.randint(1, lim) for _ in range(n + 2)]
    step = rnd.choice([1, 1, 2, 2, 3, 4, 5])
    r = rnd.random()
    if r < 0.25:
        failing = []
    elif r < 0.33:
        failing = list(ids)
    else:
        failing = [i for i in ids if rnd.random() < rnd.choice([0.1, 0.3, 0.6])]
    sc = {"versions": versions, "start": start, "end": end, "step": step, "zone": rnd.choice(ZONES)}
    return sc, pages, failing, rnd.choice([7, 11, 60])


def retrieval_trace(arg):
    sc, pages, failing, unit = arg
    obs = run_retrieval(sc, pages, failing, unit_min=unit, via_handler=True, default_page=3)
    return {"sc": sc, "failing": sorted(failing), "obs": obs, "unit": unit}


def retrieval_trace_for_tlc(tr):
    """the part of a recorded retrieval that Trace_S3Versions reads (JSON without nulls)"""
    o = tr["obs"]
    return {
        "sc": tr["sc"],
        "failing": tr["failing"],
        "obs": {
            "calls": o["calls"],
            "listed": o["listed"],
            "downloads": o["downloads"],
            "result": o["result"],
            "hresult": o["hresult"],
        },
    }


# =====================================================================================================================
# C17 - version histories of units -> frames; projection of the estimate frame
# =====================================================================================================================

NONMONO = "non-monotone percent expected vote"
BADBATCH = "batch_margin"
SLACK = 1e-12
T0 = pd.Timestamp("2024-11-05 21:00:00", tz="America/New_York")


def unit_id(k):
    return f"u{k:05d}"


def _junk_pev(k, i, pev):
    """recorded percent of an earlier version: arbitrary (the code re-scales it from the turnout), often non-monotone"""
    return float((37 * k + 53 * i + 11) % 101) if (k + i) % 3 else float(pev) + 7.5


def history_frame(units, dtype="float64", with_nan=True, first_id=0):
    """units: list of scenarios {"hist": [{"t","d","g"}...] oldest first, "pev": [num, den]}.
    Returns the frame the handler keeps in `.data` (rows sorted by last_modified, units interleaved)."""
    rows = []
    for k, u in enumerate(units):
        h = u["hist"]
        pev = u["pev"][0] / u["pev"][1]
        for i, v in enumerate(h):
            w = v["d"] + v["g"]
            rows.append(
                {
                    "geographic_unit_fips": unit_id(first_id + k),
                    "results_turnout": v["t"],
                    "results_dem": v["d"],
                    "results_gop": v["g"],
                    "results_weights": w,
                    "results_normalized_margin": (v["d"] - v["g"]) / w if w else 0.0,
                    "percent_expected_vote": pev if i == len(h) - 1 else _junk_pev(k, i, pev),
                    "last_modified": T0 + pd.Timedelta(minutes=3 * i),
                    "_k": k,
                    "_i": i,
                }
            )
    df = pd.DataFrame(rows)
    df = df.sort_values(["_i", "_k"], kind="stable").reset_index(drop=True)
    counts = ["results_turnout", "results_dem", "results_gop", "results_weights"]
    for c in counts:
        df[c] = df[c].astype(dtype)
    if with_nan and dtype == "float64":
        # "Fill NaNs with 0": a missing count / an undefined margin means zero
        sel = (df["_k"] % 3 == 0) & (df["results_turnout"] == 0)
        df.loc[sel, ["results_turnout", "results_dem", "results_gop", "results_weights"]] = np.nan
        sel = (df["_k"] % 3 == 1) & (df["results_weights"] == 0)
        df.loc[sel, "results_normalized_margin"] = np.nan
    return df.drop(columns=["_k", "_i"])


def new_handler():
    return object.__new__(vdmod.VersionedDataHandler)


def project_estimates(res, n_units, first_id=0):
    """frame returned by compute_versioned_margin_estimate -> per unit {kind, nrows, missing_all, rows}"""
    out = []
    groups = {k: g for k, g in res.groupby("geographic_unit_fips", sort=False)}
    for k in range(n_units):
        g = groups.get(unit_id(first_id + k))
        if g is None:
            out.append({"kind": "absent", "nrows": 0, "missing_all": False, "rows": []})
            continue
        kinds = sorted(set(g["error_type"]))
        kind = kinds[0] if len(kinds) == 1 else "mixed"
        p = g["percent_expected_vote"].to_numpy()
        est = g["est_margin"].to_numpy(dtype=float)
        near = g["nearest_observed_vote"].to_numpy(dtype=float)
        cor = g["est_correction"].to_numpy(dtype=float)
        missing_all = bool(np.isnan(est).all() and np.isnan(near).all() and np.isnan(cor).all())
        p_ok = bool(len(p) and (p == np.arange(len(p))).all())
        o = {"kind": kind, "nrows": int(len(g)), "missing_all": missing_all, "p_ok": p_ok, "rows": []}
        if not missing_all:
            o["rows"] = [
                {"p": int(pp) if float(pp).is_integer() else -1, "est": float(a), "nearest": float(b), "corr": float(c)}
                for pp, a, b, c in zip(p, est, near, cor)
            ]
        out.append(o)
    return out


def frac(x):
    return Fraction(int(x[0]), int(x[1]))


def _close(f, r):
    return (not math.isnan(f)) and abs(Fraction(f) - r) <= Fraction(1, 10**12)


def compare_estimates(exp, obs, want_kind=None):
    """exp: TLC's terminal state {kind, nrows, rows[{p, est, nearest, corr}]}; obs: projection of the real frame.
    Returns list of (clause, detail)."""
    bad = []
    regular = exp.get("regular", exp["kind"] == "none")
    kind = want_kind or exp["kind"]
    if obs["kind"] != kind:
        bad.append(("regular_yields_rows" if regular else "irregular_all_missing", {"expected": kind, "observed": obs["kind"]}))
        return bad
    if kind != "none":
        if obs["nrows"] != 101 or not obs["missing_all"] or not obs["p_ok"]:
            bad.append(("irregular_all_missing", {"nrows": obs["nrows"], "missing_all": obs["missing_all"]}))
        return bad
    if exp["kind"] != "none":
        return bad
    if obs["nrows"] != exp["nrows"] or len(obs["rows"]) != len(exp["rows"]) or not obs["p_ok"]:
        bad.append(("every_percent", {"expected": exp["nrows"], "observed": obs["nrows"]}))
        return bad
    for e, o in zip(exp["rows"], obs["rows"]):
        if o["p"] != e["p"]:
            bad.append(("every_percent", {"expected_p": e["p"], "observed_p": o["p"]}))
            break
        if not _close(o["est"], frac(e["est"])):
            bad.append(("est_margin", {"p": e["p"], "expected": e["est"], "observed": o["est"]}))
            break
        if not _close(o["corr"], frac(e["corr"])):
            bad.append(("correction_def", {"p": e["p"], "expected": e["corr"], "observed": o["corr"]}))
            break
        if not _close(o["nearest"], frac(e["nearest"])):
            bad.append(("nearest_observed", {"p": e["p"], "expected": e["nearest"], "observed": o["nearest"]}))
            break
    return bad


def run_estimates(units, dtype="float64", first_id=0):
    df = history_frame(units, dtype=dtype, first_id=first_id)
    res = new_handler().compute_versioned_margin_estimate(data=df)
    return project_estimates(res, len(units), first_id)


# ---- the extrapolation filter (BootstrapElectionModel._extrapolate_unit_margin)

PROBE_MARGIN = 0.125


@contextlib.contextmanager
def groupby_apply_with_keys():
    """pandas >= 3 no longer hands the grouping column to the function of DataFrameGroupBy.apply, on which
    _extrapolate_unit_margin relies (`df.geographic_unit_fips.iloc[0]`): with the installed pandas the function
    raises AttributeError on every input (docs/versions.md, observation V3).  To still bind its filter to the
    specification the function is run with the pandas-2 behaviour restored for the duration of the call."""
    from pandas.core.groupby.generic import DataFrameGroupBy

    orig = DataFrameGroupBy.apply

    def apply(self, func, *args, **kwargs):
        keys = self.keys
        if not isinstance(keys, str):
            return orig(self, func, *args, **kwargs)

        def wrapped(g, *a, **k):
            if keys not in g.columns:
                name = g.name
                g = g.copy()
                g.insert(0, keys, name)
            return func(g, *a, **k)

        return orig(self, wrapped, *args, **kwargs)

    DataFrameGroupBy.apply = apply
    try:
        yield
    finally:
        DataFrameGroupBy.apply = orig


def run_extrapolation(units, max_p, max_dist=5):
    """Reporting units = the scenario units (their last version is the current row, the earlier ones are the stored
    history); one non-reporting probe unit per percent 0..max_p in the same state.  Returns the extrapolated
    prediction per probe (float, nan = no usable correction)."""
    from elexmodel.models.BootstrapElectionModel import BootstrapElectionModel

    m = object.__new__(BootstrapElectionModel)
    m.extrapolate_threshold = 0
    m.min_extrapolating_units = 1
    m.extrapolate_std_method = "std"
    m.max_dist_to_observed = max_dist
    dummy = {"hist": [{"t": 1, "d": 1, "g": 0}, {"t": 2, "d": 1, "g": 1}], "pev": [50, 1]}
    stored = [{"hist": u["hist"][:-1], "pev": u["pev"]} for u in units]
    keep = [k for k, u in enumerate(stored) if u["hist"]]
    frames = [history_frame([stored[k]], with_nan=False, first_id=k) for k in keep]
    frames.append(history_frame([dummy], with_nan=False, first_id=90000))
    handler = new_handler()
    handler.data = pd.concat(frames, axis=0).sort_values("last_modified", kind="stable").reset_index(drop=True)
    m.versioned_data_handler = handler
    cur = []
    for k, u in enumerate(units):
        v = u["hist"][-1]
        w = v["d"] + v["g"]
        cur.append(
            {
                "geographic_unit_fips": unit_id(k),
                "postal_code": "S1",
                "geographic_unit_type": "county",
                "results_turnout": float(v["t"]),
                "results_dem": float(v["d"]),
                "results_gop": float(v["g"]),
                "results_weights": float(w),
                "results_normalized_margin": (v["d"] - v["g"]) / w if w else 0.0,
                "percent_expected_vote": u["pev"][0] / u["pev"][1],
                # present so that the function's `missing_columns` is empty: with the installed pandas 3 the
                # statement `all_units[missing_columns] = data[missing_columns].max()` raises KeyError for a
                # non-empty list (see docs/versions.md, observation V3); the column is overwritten by the function
                "last_modified": T0,
            }
        )
    reporting = pd.DataFrame(cur)
    probes = []
    for p in range(max_p + 1):
        probes.append(
            {
                "geographic_unit_fips": f"n{p:04d}",
                "postal_code": "S1",
                "geographic_unit_type": "county",
                "results_turnout": 10.0,
                "results_dem": 4.5,
                "results_gop": 3.5,
                "results_weights": 8.0,
                "results_normalized_margin": PROBE_MARGIN,
                "percent_expected_vote": p + (0.25 if p % 2 else -0.25 if p else 0.0),
                "last_modified": T0,
            }
        )
    nonrep = pd.DataFrame(probes)
    with groupby_apply_with_keys():
        pred, _std = m._extrapolate_unit_margin(reporting, nonrep)
    return [float(x) for x in np.asarray(pred).reshape(-1)]


def expected_extrapolation(expects, max_p):
    """mean of the corrections TLC marked usable, per probe percent (None = no usable correction)"""
    out = []
    for p in range(max_p + 1):
        cs = []
        for e in expects:
            if e["kind"] == "none" and p < len(e["rows"]) and e["usable"][p]:
                cs.append(frac(e["rows"][p]["corr"]))
        out.append(None if not cs else Fraction(1, 8) + sum(cs) / len(cs))
    return out


def compare_extrapolation(exp, obs):
    bad = []
    for p, (e, o) in enumerate(zip(exp, obs)):
        if e is None:
            if not math.isnan(o):
                bad.append(("never_used", {"p": p, "expected": "no usable correction", "observed": o}))
        elif not _close(o, e):
            bad.append(("extrapolation_uses_usable_rows", {"p": p, "expected": e, "observed": o}))
    return bad


# ---- random larger histories (code -> spec)


def inexact_float_tie(u):
    """a re-scaled percent that is mathematically a whole number but not in floating point (DESIGN 3.1): the index
    search of the code sits on a float tie there; such histories are left out of the recorded runs"""
    h = u["hist"]
    tl = h[-1]["t"]
    if tl == 0:
        return False
    pev = u["pev"][0] / u["pev"][1]
    for v in h:
        exact = Fraction(v["t"] * u["pev"][0], tl * u["pev"][1])
        if exact.denominator == 1 and (v["t"] / tl) * pev != float(exact):
            return True
    return False


def random_history(rnd, max_versions=12, max_turnout=30):
    n = rnd.randint(1, max_versions)
    style = rnd.random()
    hist = []
    t = d = g = 0
    if rnd.random() < 0.5:
        t = rnd.randint(0, max_turnout // 3)
        d = rnd.randint(0, t)
        g = rnd.randint(0, t - d)
    for i in range(n):
        if i > 0:
            r = rnd.random()
            if r < 0.2:
                pass  # repeated version
            else:
                room = max_turnout - t
                dt_ = rnd.randint(0, max(0, min(room, 8)))
                dd = rnd.randint(0, dt_)
                dg = rnd.randint(0, dt_ - dd)
                t, d, g = t + dt_, d + dd, g + dg
            if style < 0.12 and rnd.random() < 0.3 and t > 0:  # downward revision of the turnout
                cut = rnd.randint(1, t)
                t -= cut
                d = min(d, t)
                g = min(g, t - d)
            elif 0.12 <= style < 0.24 and rnd.random() < 0.3 and d > 0:  # a candidate revised downwards
                k = rnd.randint(1, d)
                d -= k
                if rnd.random() < 0.5:
                    g += k
        hist.append({"t": t, "d": d, "g": g})
    r = rnd.random()
    if r < 0.6:
        pev = [rnd.randint(0, 100), 1]
    elif r < 0.8:
        pev = [100, 1]
    elif r < 0.92:
        f = Fraction(rnd.randint(0, 199), 2)
        pev = [f.numerator, f.denominator]
    else:
        # the provider's expected vote was too low: more votes are in than were expected (percent above 100); the history
        # is then spread over 0..that percent like any other (seeded change C17_H)
        f = rnd.choice([Fraction(101), Fraction(103), Fraction(110), Fraction(120), Fraction(207, 2)])
        pev = [f.numerator, f.denominator]
    return {"hist": hist, "pev": pev}


def to_rational(x, max_den=10**7):
    """float -> the rational of small denominator it stands for (abstract value of the trace); a float that is not
    within 1e-12 of such a rational is logged in thousand-millionths and will not match anything"""
    if math.isnan(x) or math.isinf(x):
        return [0, 0]
    f = Fraction(x).limit_denominator(max_den)
    if abs(Fraction(x) - f) > Fraction(1, 10**12):
        f = Fraction(round(x * 10**9), 10**9)
    return [f.numerator, f.denominator]


def margin_trace(u, o):
    """one unit's history + projected estimate rows -> trace for Trace_VersionedMargin"""
    return {
        "sc": u,
        "obs": {
            "kind": o["kind"],
            "nrows": o["nrows"],
            "missing_all": o["missing_all"] and o.get("p_ok", False),
            "rows": [
                {"p": r["p"], "est": to_rational(r["est"]), "nearest": to_rational(r["nearest"]), "corr": to_rational(r["corr"])}
                for r in o["rows"]
            ],
        },
    }


def fixture_units(path):
    """a versioned fixture of the repository -> (frame as the repository's tests load it, abstract histories)"""
    df = pd.read_csv(path, dtype={"geographic_unit_fips": str})
    raw = pd.read_csv(path, dtype=str)
    units = []
    ids = []
    for fips, g in df.groupby("geographic_unit_fips", sort=True):
        graw = raw[raw["geographic_unit_fips"] == fips]
        hist = [{"t": int(a), "d": int(b), "g": int(c)} for a, b, c in zip(g.results_turnout, g.results_dem, g.results_gop)]
        ok = all(int(w) == v["d"] + v["g"] for w, v in zip(g.results_weights, hist)) and all(
            abs(float(m) - ((v["d"] - v["g"]) / (v["d"] + v["g"]) if v["d"] + v["g"] else 0.0)) < 1e-12
            for m, v in zip(g.results_normalized_margin, hist)
        )
        pev = Fraction(graw["percent_expected_vote"].iloc[-1])
        units.append({"hist": hist, "pev": [pev.numerator, pev.denominator], "consistent": ok})
        ids.append(fips)
    return df, units, ids
