"""C16 - fitting and prediction design matrices are aligned and identifiable (engine `featurizer`).

Decided by spec/FeaturizerSpec.tla:
  1. TLC checks the clauses of C16 (SameColumns, NonConstant, OneAbsorbed, SeenLevel, UnseenLevel, Centered, OtherPooled,
     StateCopiesOnlyReporting, NoRaise, the callers' SliceDiscipline) on every state of several bounded scenario families;
  2. spec -> code: the terminal states TLC exports (all of them, or a seeded 1-in-k sample, per family) are replayed into the
     real Featurizer; column lists and matrices must equal TLC's;
  3. code -> spec: real estimate runs (nonparametric, gaussian, bootstrap; fixed effects; levels that exist only on
     nonreporting units; silent separate states; unexpected units) run under a recorder of the three Featurizer methods,
     and every recorded use is validated by Trace_FeaturizerSpec (same actions, same invariants, plus equality of the
     real matrices with the replayed ones and the positional slicing discipline of the callers).
"""
import concurrent.futures
import random

from checks import common
from harness import report, tlc, tracecheck

# (family, cfg, replay everything exported?)   SampleMod is fixed in the cfg; the sample depends on VERIF_SEED
QUICK = [
    ("levels", "MC_FeaturizerSpec_levels_quick.cfg"),
    ("levels4", "MC_FeaturizerSpec_levels4_quick.cfg"),
    ("interval", "MC_FeaturizerSpec_interval_quick.cfg"),
    ("features", "MC_FeaturizerSpec_features_quick.cfg"),
]
THOROUGH = [
    ("levels", "MC_FeaturizerSpec_levels_thorough.cfg"),
    ("levels4", "MC_FeaturizerSpec_levels4_thorough.cfg"),
    ("levels5", "MC_FeaturizerSpec_levels5_thorough.cfg"),
    ("interval", "MC_FeaturizerSpec_interval_thorough.cfg"),
    ("features", "MC_FeaturizerSpec_features_thorough.cfg"),
    ("joint", "MC_FeaturizerSpec_joint_thorough.cfg"),
]
SAMPLE_MOD = {
    "MC_FeaturizerSpec_levels_quick.cfg": 2,
    "MC_FeaturizerSpec_levels4_quick.cfg": 1,
    "MC_FeaturizerSpec_interval_quick.cfg": 1,
    "MC_FeaturizerSpec_features_quick.cfg": 2,
    "MC_FeaturizerSpec_levels_thorough.cfg": 16,
    "MC_FeaturizerSpec_levels4_thorough.cfg": 1,
    "MC_FeaturizerSpec_levels5_thorough.cfg": 8,
    "MC_FeaturizerSpec_interval_thorough.cfg": 1,
    "MC_FeaturizerSpec_features_thorough.cfg": 8,
    "MC_FeaturizerSpec_joint_thorough.cfg": 8,
}

# A genuine finding that cannot be registered in the shared known_findings.json by this engine (see docs/featurizer.md,
# "Needed in shared files"): kept here so that the probe stays in the check without alarming on the unchanged tree.
LOCAL_OPEN_FINDINGS = [
    {
        "id": "F-C16-prefix",
        "property": "C16",
        "match": {"name_collision": True},
        "what": "Featurizer matches columns to fixed effects by name prefix (startswith): a numeric frame column named "
        "<effect>_<suffix> is taken for a dummy of that effect; when it is positive on a fitting row it becomes the "
        "'absorbed' level, so every real level keeps its dummy (intercept + all dummies: not identifiable) "
        "and prediction rows differ from the intended matrices; effect names that are prefixes of one another raise",
    }
]


def _register_local_findings(run):
    have = {e["id"] for e in run.findings.open}
    for e in LOCAL_OPEN_FINDINGS:
        if e["id"] not in have and not any(o["property"] == "C16" and o["match"].get("name_collision") for o in run.findings.open):
            run.findings.open.append(dict(e))


# ---------------------------------------------------------------------------------------------------------------
# pool jobs (top level so that they can be forked)


def _job_replay(arg):
    """spec -> code: a pack of TLC-exported scenarios through the real Featurizer; returns the mismatches."""
    from harness import featurizer as fz

    base, pack = arg
    out = []
    n_numeric = 0
    for k, s in enumerate(pack):
        try:
            obs = fz.run_scenario(s["sc"], variant=base + k)
            bad = fz.compare(s["sc"], s["expect"], obs)
        except Exception as e:  # noqa: BLE001  (harness failure, not a verdict)
            return ("exc", f"{type(e).__name__}: {str(e)[:400]}")
        n_numeric += 1 if obs.get("numeric_levels_pooled") else 0
        if bad:
            out.append({"index": base + k, "bad": bad[:3], "sc": s["sc"], "expect": s["expect"], "observed": obs})
    return ("ok", out, n_numeric)


def _job_trace(job):
    """code -> spec: one real estimate run under the recorder."""
    import traceback

    from harness import featurizer as fz

    try:
        traces, meta = fz.run_recorded(job)
        return ("ok", traces, meta)
    except Exception as e:  # noqa: BLE001
        return ("exc", {"exc": type(e).__name__, "msg": str(e)[:300], "tb": traceback.format_exc()[-2500:], "job": job}, None)


# ---------------------------------------------------------------------------------------------------------------


def _tlc_parallel(run, cfgs, seed, workers, heap, timeout, max_parallel):
    """Run the MC configs concurrently (each one exports its terminal states while it checks the invariants)."""

    def one(item):
        fam, cfg = item
        return fam, cfg, tlc.run_tlc(
            "MC_FeaturizerSpec", cfg, workers=workers, env={"VERIF_SEED": seed}, timeout=timeout, keep_stdout=False, heap=heap
        )

    out = []
    with concurrent.futures.ThreadPoolExecutor(max_workers=max_parallel) as ex:
        for fam, cfg, res in ex.map(one, cfgs):
            run.add_tlc(cfg, res, {"family": fam, "sample_mod": SAMPLE_MOD.get(cfg, 1)})
            if res.violation is not None:
                run.violation(
                    f"tlc:{res.violation}", {"model": cfg, "invariant": res.violation}, {"counterexample": res.error_trace[:200]}
                )
            out.append((fam, cfg, [v for t, v in res.printed if t == "SCEN"]))
    return out


def _scenario_witnesses(run, s):
    sc, ex = s["sc"], s["expect"]
    for m in ex["mats"]:
        if m["kind"] == "holdout" and any(v[1] > 1 for row in m["M"] for v, c in zip(row, m["cols"]) if c["k"] == "dummy"):
            run.witness("replay_unseen_level_share")
            if any(v[1] >= 3 for row in m["M"] for v, c in zip(row, m["cols"]) if c["k"] == "dummy"):
                run.witness("replay_share_of_two_or_more_levels")
            break
    rep_states = {r["st"] for r in sc["rows"] if r["rep"]}
    if any(st not in rep_states for st in sc["sep"]):
        run.witness("replay_separate_state_without_reporting_rows")
    if any(c["k"] == "sfeat" for c in ex["complete"]):
        run.witness("replay_state_copies")
    if sc["center"] and sc["feats"]:
        run.witness("replay_centered")
    sel = sc["sel"] if isinstance(sc["sel"], dict) else {}
    if any(not v["all"] for v in sel.values()):
        run.witness("replay_other_pooled")
    if len(ex["complete"]) > len(ex["active"]):
        run.witness("replay_level_only_outside_fitting_rows")
    if any((not r["exp"]) for r in sc["rows"]):
        run.witness("replay_outside_rows")
    if sc["caller"] == "interval":
        run.witness("replay_interval_slices")
    if not sc["intercept"]:
        run.witness("replay_no_intercept_no_effects")


def _replay(run, scens, facts_extra, pack_size=150):
    if not scens:
        return 0
    packs = [(i, scens[i : i + pack_size]) for i in range(0, len(scens), pack_size)]
    results = common.pool().map(_job_replay, packs, chunksize=1)
    n_bad = 0
    for (base, pack), res in zip(packs, results):
        status, val = res[0], res[1]
        if status == "exc":
            raise tlc.MachineryError(f"replay harness failed: {val}")
        if len(res) > 2 and res[2]:
            run.witness("replay_numeric_levels_with_selected_values", res[2])
        run.cov["scenarios_replayed_into_impl"] += len(pack)
        for b in val:
            n_bad += 1
            first = b["bad"][0]
            facts = {"clause": first["clause"], "direction": "spec->code"}
            facts.update(facts_extra)
            run.violation(first["clause"], facts, b)
    return n_bad


def _trace_jobs(tier, seed):
    from harness import featurizer as fz

    rnd = random.Random(seed)
    jobs = []
    n = 12 if tier == "quick" else 96
    fes = fz.FE_CHOICES
    for k in range(n):
        est = ["nonparametric", "bootstrap", "gaussian"][k % 3]
        job = {"seed": seed % 100000 + k, "estimator": est, "outliers": k % 4 == 1}
        if est == "bootstrap":
            # county_fips only through the conformal estimators: the OLS cross-validation needs rows > columns
            job["fe"] = [fes[0], fes[2], fes[3], fes[5], fes[6]][(k // 3) % 5]
            job["sep"] = [["CC"], ["BB", "CC"], [], ["CC", "AA"]][(k // 3) % 4]
            job["n_unexpected"] = [2, 0, 3][(k // 3) % 3]
        else:
            job["fe"] = fes[(k // 3 + (0 if est == "nonparametric" else 3)) % len(fes)]
            job["n_unexpected"] = 0
        if rnd.random() < 0.3:
            job["n"] = 54
        jobs.append(job)
    return jobs


def _trace_witnesses(run, t):
    sc, obs = t["sc"], t["obs"]
    run.witness(f"trace_caller_{sc['caller_fn']}")
    fit_levels = {fe: {r["lev"][fe] if sc["sel"][fe]["all"] or r["lev"][fe] in sc["sel"][fe]["keep"] else "other"
                       for r in sc["rows"] if r["rep"] and r["exp"]} for fe in sc["fes"]}
    for s in sc["slices"]:
        if s["kind"] != "holdout":
            continue
        for p in s["rows"]:
            r = sc["rows"][p - 1]
            for fe in sc["fes"]:
                lv = r["lev"][fe]
                if not sc["sel"][fe]["all"] and lv not in sc["sel"][fe]["keep"]:
                    lv = "other"
                if lv not in fit_levels[fe]:
                    run.witness("trace_holdout_row_with_unseen_level")
    rep_states = {r["st"] for r in sc["rows"] if r["rep"]}
    if any(st not in rep_states for st in sc["sep"]):
        run.witness("trace_separate_state_without_reporting_rows")
    if any(c["k"] == "sfeat" for c in obs["complete"]):
        run.witness("trace_state_copies")
    if any(not v["all"] for v in sc["sel"].values()):
        run.witness("trace_other_pooled")
    if any(not r["exp"] for r in sc["rows"]):
        run.witness("trace_outside_rows")
    if sc["center"]:
        run.witness("trace_centered")


def c16(tier, seed):
    run = report.Run("C16", tier, seed)
    run.assumptions += [
        "scale_features = False (every caller), at least one fitting row, fitting and prediction rows carry no missing level "
        "(rows outside both frames may); rows outside the two expected frames have reporting = 0 (CombinedDataHandler.get_units)",
        "column names are separable: no frame column is named <effect>_<suffix> and no effect name is a prefix of another "
        "(outside this domain: finding F-C16-prefix, probed separately)",
        "without an intercept only the no-fixed-effect case is covered (as the property states)",
        "interval fits: dummy columns are decided on all reporting rows, the fit uses the training prefix (C16 is stated at the "
        "Featurizer API); the intercept is zero for every row of a state listed in states_for_separate_model; per-state copies "
        "are not centred (modelled as the code does; no caller combines centring and separate states)",
        "TLC bounds: see docs/featurizer.md (<= 3-4 rows quick, <= 4-5 rows thorough, <= 2 effects with 2-4 levels, 2 states)",
    ]
    _register_local_findings(run)
    quick = tier == "quick"
    pool = common.pool()  # fork the workers before any thread exists

    # (3) real estimate runs under the recorder - started first, they run while TLC works
    jobs = _trace_jobs(tier, seed)
    async_traces = pool.map_async(_job_trace, jobs, chunksize=1)

    # (1) + export for (2)
    cfgs = QUICK if quick else THOROUGH
    exported = _tlc_parallel(
        run, cfgs, seed, workers=6 if quick else 16, heap="3g" if quick else "8g", timeout=150 if quick else 1500,
        max_parallel=4 if quick else 1,
    )

    # the documented finding must be reproducible in the model of the code as found (Matching = "startswith")
    common.mc(
        run, "MC_FeaturizerSpec", "MC_FeaturizerSpec_collision_asfound.cfg", expect_violation="OneAbsorbed",
        name="MC_FeaturizerSpec_collision_asfound (finding demo)", workers=4, timeout=120, heap="2g",
    )

    # (2) replay
    total = 0
    for fam, cfg, scens in exported:
        run.witness("exported_scenarios", len(scens))
        for s in scens:
            _scenario_witnesses(run, s)
        if len(run.violations) < 40:
            _replay(run, scens, {"family": fam, "name_collision": False})
        total += len(scens)
        if scens:
            run.sample({"family": fam, "replayed_scenario": scens[0]["sc"], "expected_terminal_state": scens[0]["expect"]}, limit=2)
    run.cov["exhaustive"] = all(SAMPLE_MOD.get(cfg, 1) == 1 for _, cfg in cfgs)
    run.cov["replay_note"] = {cfg: f"1-in-{SAMPLE_MOD.get(cfg, 1)} seeded sample of terminal states" for _, cfg in cfgs}

    # name-collision probes: the intended model (a column belongs to the effect it was made from) against the real code
    res = tlc.run_tlc("MC_FeaturizerSpec", "MC_FeaturizerSpec_collision_intended.cfg", workers=4, timeout=120, keep_stdout=False, heap="2g")
    run.add_tlc("MC_FeaturizerSpec_collision_intended.cfg", res, {"family": "collision"})
    if res.violation is not None:
        run.violation(f"tlc:{res.violation}", {"model": "collision_intended", "invariant": res.violation}, {"counterexample": res.error_trace[:100]})
    probes = [v for t, v in res.printed if t == "SCEN"]
    before = dict(run.known)
    _replay(run, probes, {"family": "collision", "name_collision": True})
    run.cov["name_collision_probes"] = {
        "replayed": len(probes),
        "differ_from_intended_model": sum(run.known.values()) - sum(before.values()),
    }
    # information only (no verdict): does the model of the code as found (Matching = "startswith") describe the code?
    res = tlc.run_tlc("MC_FeaturizerSpec", "MC_FeaturizerSpec_collision_asfound_export.cfg", workers=4, timeout=120, keep_stdout=False, heap="2g")
    run.add_tlc("MC_FeaturizerSpec_collision_asfound_export.cfg", res, {"family": "collision, code as found"})
    asfound = [v for t, v in res.printed if t == "SCEN"]
    packs = [(i, asfound[i : i + 50]) for i in range(0, len(asfound), 50)]
    differ = sum(len(r[1]) for r in common.pool().map(_job_replay, packs, chunksize=1) if r[0] == "ok")
    run.cov["name_collision_probes"]["asfound_model_replayed"] = len(asfound)
    run.cov["name_collision_probes"]["asfound_model_differs_from_code"] = differ

    # (3) validate the recorded uses
    results = async_traces.get(timeout=600 if quick else 3000)
    traces = []
    for job, (status, val, meta) in zip(jobs, results):
        if status == "ok":
            for t in val:
                t["sc"]["job"] = {k: job[k] for k in ("seed", "estimator")}
            traces.extend(val)
        else:
            run.violation("run_raised", {"clause": "run_raised", "estimator": job["estimator"], "exc": val["exc"], "name_collision": False}, val)
    for t in traces:
        _trace_witnesses(run, t)

    def on_reject(tr, clause, inv):
        sc = tr["sc"]
        run.violation(
            clause,
            {"clause": clause, "invariant": inv, "direction": "code->spec", "caller": sc["caller_fn"], "estimator": sc["job"]["estimator"],
             "name_collision": bool(sc["name_clash"] or sc["prefixed_columns"])},
            {"trace": tr},
        )

    n = tracecheck.validate("Trace_FeaturizerSpec", "Trace_FeaturizerSpec.cfg", traces, on_reject, run=run, name="Trace_FeaturizerSpec.cfg",
                            chunk=120, timeout=900)
    run.cov["traces_validated_against_impl"] += n
    if traces:
        t = traces[0]
        run.sample({"recorded_use": {"caller": t["sc"]["caller_fn"], "fes": t["sc"]["fes"], "sel": t["sc"]["sel"], "slices": [
            {"kind": s["kind"], "first_row": (s["rows"] or [None])[0], "n": len(s["rows"])} for s in t["sc"]["slices"]],
            "active": [c for c in t["obs"]["active"]][:8]}})
    run.finish(
        require_witnesses=[
            "exported_scenarios",
            "replay_unseen_level_share",
            "replay_share_of_two_or_more_levels",
            "replay_separate_state_without_reporting_rows",
            "replay_state_copies",
            "replay_centered",
            "replay_other_pooled",
            "replay_numeric_levels_with_selected_values",
            "replay_level_only_outside_fitting_rows",
            "replay_outside_rows",
            "replay_interval_slices",
            "replay_no_intercept_no_effects",
            "trace_caller_get_unit_predictions",
            "trace_caller_get_unit_prediction_interval_bounds",
            "trace_caller_compute_bootstrap_errors",
            "trace_caller__fit_outlier_detection_model",
            "trace_holdout_row_with_unseen_level",
            "trace_separate_state_without_reporting_rows",
            "trace_state_copies",
            "trace_other_pooled",
            "trace_outside_rows",
            "trace_centered",
        ]
    )
