"""Entry point: python -m checks.check <property id> [--tier quick|thorough]

Exit 0: the property held on everything explored.  Exit 1: VIOLATION lines were printed.
Exit 2: the machinery itself failed (never reported as a violation).
"""
import argparse
import importlib
import os
import sys

REGISTRY = {
    "C01": ("checks.ledger_checks", "c01"),
    "C02": ("checks.ledger_checks", "c02"),
    "C03": ("checks.ledger_checks", "c03"),
    "C09": ("checks.ledger_checks", "c09"),
    "C10": ("checks.ledger_checks", "c10"),
    "C11": ("checks.ledger_checks", "c11"),
    "C06": ("checks.calls_checks", "c06"),
    "C07": ("checks.calls_checks", "c07"),
    "C08": ("checks.calls_checks", "c08"),
    "C15": ("checks.gaussian_checks", "c15"),
    "C16": ("checks.featurizer_checks", "c16"),
    "C18": ("checks.controla_checks", "c18"),
    "C20": ("checks.controla_checks", "c20"),
    # supplementary models beyond the listed properties (not in MANIFEST.checks)
    "S01": ("checks.extra_checks", "s01"),
    "S02": ("checks.extra_checks", "s02"),
    "S03": ("checks.extra_checks", "s03"),
    "S04": ("checks.extra_checks", "s04"),
    "S05": ("checks.extra_checks", "s05"),
    "S06": ("checks.extra_checks", "s06"),
    "S07": ("checks.extra_checks", "s07"),
    "S08": ("checks.extra_checks", "s08"),
    "S09": ("checks.extra_checks", "s09"),
    "C04": ("checks.arith_checks", "c04"),
    "C05": ("checks.arith_checks", "c05"),
    "C12": ("checks.controlb_checks", "c12"),
    "C13": ("checks.controlb_checks", "c13"),
    "C14": ("checks.arith_checks", "c14"),
    "C17": ("checks.versions_checks", "c17"),
    "C19": ("checks.versions_checks", "c19"),
}


def main():
    ap = argparse.ArgumentParser()
    ap.add_argument("prop")
    ap.add_argument("--tier", default=None)
    args = ap.parse_args()
    from checks import common

    tier, seed = common.tier_and_seed(args.tier)
    if args.prop not in REGISTRY:
        print(f"MACHINERY: no check registered for {args.prop}")
        sys.exit(2)
    mod, fn = REGISTRY[args.prop]

    def go():
        m = importlib.import_module(mod)
        getattr(m, fn)(tier, seed)

    common.main_wrapper(go)


if __name__ == "__main__":
    os.environ.setdefault("PYTHONHASHSEED", "0")
    main()
