"""Checks decided by the engine `versions`:

  C19  S3Versions.tla      - version retrieval returns exactly the window, despite paging and faults
  C17  VersionedMargin.tla - margin histories interpolate within bounds; irregular histories discarded

Usage (the integrator registers c19 / c17 in checks/check.py):
  PYTHONPATH=/verif /venv/bin/python -c "from checks import common; from checks import versions_checks as m; \
      common.main_wrapper(lambda: m.c19('quick', 1))"
"""
import glob
import json
import os
import random
import traceback

from checks import common
from harness import report, tlc, tracecheck
from harness import versions as V

def _binding_selftest(module, cfg, traces, corrupt, what):
    """DESIGN 3.6: a recorded trace corrupted in one field must be rejected by the trace specification; otherwise the
    specification is not bound to what is recorded and the whole check is void (exit 2)."""
    import copy

    bad = []
    for t in traces:
        c = copy.deepcopy(t)
        if corrupt(c):
            bad.append(c)
        if len(bad) == 3:
            break
    if not bad:
        raise tlc.MachineryError(f"binding self-test ({what}): no recorded trace could be corrupted")
    rejected = []
    tracecheck.validate(module, cfg, bad, lambda tr, clause, inv: rejected.append(clause))
    if len(rejected) != len(bad):
        raise tlc.MachineryError(f"binding self-test ({what}): {len(bad) - len(rejected)} corrupted trace(s) were accepted")
    return rejected


# =====================================================================================================================
# C19
# =====================================================================================================================


def _job_c19_replay(arg):
    """spec -> code: a pack of exported behaviours through the real S3VersionUtil (every `hstride`-th one and every
    behaviour with an empty window through VersionedDataHandler.get_versioned_results as well)."""
    pack, hstride, offset = arg
    out = {"bad": [], "n": 0, "handler": 0, "ncalls_differs": 0}
    for k, s in enumerate(pack):
        try:
            none_expected = s["expect"]["kind"] == "none"
            via = ((offset + k) % hstride == 0) or (none_expected and (offset + k) % 3 == 0)
            obs = V.run_retrieval(s["sc"], s["pages"], V.failing_of(s), via_handler=via)
            out["n"] += 1
            out["handler"] += int(via)
            if len(obs["calls"]) != s["expect"]["ncalls"]:
                out["ncalls_differs"] += 1
            for clause, detail in V.compare_retrieval(s, obs):
                out["bad"].append({"clause": clause, "detail": detail, "scenario": s, "observed": obs, "via_handler": via})
        except Exception as e:  # noqa: BLE001
            out["bad"].append(
                {"clause": "harness_raised", "detail": f"{type(e).__name__}: {e}", "scenario": s, "tb": traceback.format_exc()[-1500:]}
            )
    return out


def _job_c19_trace(arg):
    seed, n, max_n = arg
    rnd = random.Random(seed)
    out = []
    for _ in range(n):
        out.append(V.retrieval_trace(V.random_retrieval(rnd, max_n)))
    return out


def _c19_witnesses(run, sc, calls, outcomes_failed, n_downloads, kind):
    """antecedents of the property seen in a behaviour (scenario + its paging + its failures)"""
    vs = sc["versions"]
    inw = lambda v: (sc["start"] == V.NONE or v["t"] >= sc["start"]) and (sc["end"] == V.NONE or v["t"] <= sc["end"])  # noqa: E731
    for c in calls:
        page = vs[c["marker"] : c["marker"] + c["n"]]
        flags = {inw(v) for v in page}
        if len(flags) == 2:
            run.witness("window_cuts_a_page")
        if page and sc["start"] != V.NONE and page[-1]["t"] == sc["start"] and c["truncated"]:
            run.witness("page_ends_exactly_at_window_start")
    if calls and calls[-1]["truncated"]:
        run.witness("early_stop_taken")
    if len(calls) > 1:
        run.witness("listing_paged")
    if len({v["t"] for v in vs}) < len(vs):
        run.witness("equal_timestamps")
    if sc["start"] == V.NONE:
        run.witness("open_start")
    if sc["end"] == V.NONE:
        run.witness("open_end")
    if sc["step"] > 1 and n_downloads > 1:
        run.witness("sampling_step_above_one")
    if outcomes_failed and kind == "rows":
        run.witness("download_failed_others_kept")
    if kind == "raised":
        run.witness("every_download_failed")
    if kind == "none":
        run.witness("no_version_in_window")


def _c19_facts(clause, leg, s=None):
    f = {"clause": clause, "leg": leg}
    if s is not None:
        f["n_versions"] = len(s["sc"]["versions"])
        f["step"] = s["sc"]["step"]
    return f


def c19(tier, seed):
    run = report.Run("C19", tier, seed)
    run.assumptions += [
        "the service lists versions newest first (non-increasing LastModified) and answers a marker request with a "
        "non-empty prefix of the remainder; pages holding only delete markers are outside the model (DESIGN 4)",
        "when every requested download fails pd.concat([]) raises: the property is silent there, the result is not compared",
        "the number of list requests (early stop) is recorded but not demanded: a client that pages on while the listing "
        "is truncated is accepted; stopping is only accepted where the window start allows it",
        "TLC bounds: histories of <= 5 (thorough 6) versions exhaustively with every paging by 1..3, every window cut "
        "point or open end, steps 1..3 and every failure subset; up to 40 versions only through validated traces",
    ]
    quick = tier == "quick"
    common.mc(
        run,
        "MC_S3Versions",
        "MC_S3Versions_quick.cfg" if quick else "MC_S3Versions_thorough.cfg",
        timeout=1500,
        constants={"MaxN": 5, "MaxT": 3 if quick else 4, "PageLimit": 3, "Steps": [1, 2, 3]},
    )
    if not quick:
        common.mc(run, "MC_S3Versions", "MC_S3Versions_thorough_n6.cfg", timeout=2400,
                  constants={"MaxN": 6, "MaxT": 3, "PageLimit": 3, "Steps": [1, 2, 3]})
    # ---- spec -> code: every behaviour of the export model
    ecfg = "MC_S3Versions_export.cfg" if quick else "MC_S3Versions_export_T3.cfg"
    res = tlc.run_tlc("MC_S3Versions", ecfg, workers=1, timeout=1500, keep_stdout=False)
    run.add_tlc(ecfg, res, {"MaxN": 4, "MaxT": 2 if quick else 3, "PageLimit": 3, "export": True})
    if res.violation:
        run.violation(f"tlc:{res.violation}", {"model": ecfg, "invariant": res.violation}, {"trace": res.error_trace[:100]})
    scens = [v for t, v in res.printed if t == "SCEN"]
    run.witness("exported_behaviours", len(scens))
    for s in scens:
        calls = []
        pos = 0
        for k, n in enumerate(s["pages"]):
            calls.append({"marker": pos, "n": n, "truncated": pos + n < len(s["sc"]["versions"])})
            pos += n
        _c19_witnesses(run, s["sc"], calls, any(not o for o in s["outcomes"]), len(s["expect"]["requested"]), s["expect"]["kind"])
    pack = 150
    jobs = [(scens[a : a + pack], 25, a) for a in range(0, len(scens), pack)]
    ncd = 0
    for out in common.pool().imap_unordered(_job_c19_replay, jobs, chunksize=1):
        run.cov["scenarios_replayed_into_impl"] += out["n"]
        run.witness("replayed_through_handler", out["handler"])
        ncd += out["ncalls_differs"]
        for b in out["bad"]:
            if len(run.violations) < 40:
                run.violation(b["clause"], _c19_facts(b["clause"], "replay", b["scenario"]), b)
    run.cov["exhaustive"] = True
    run.cov["list_request_count_differs_from_model"] = ncd
    if scens:
        s = next((x for x in scens if len(x["pages"]) > 1 and not all(x["outcomes"]) and x["expect"]["kind"] == "rows"), scens[-1])
        run.sample({"replayed_behaviour": {k: s[k] for k in ("sc", "pages", "outcomes")}, "expected": s["expect"]})
    # ---- code -> spec: random larger histories
    n_tr = 480 if quick else 6400
    per = 30 if quick else 100
    tjobs = [(seed * 1000 + k, per, 40) for k in range(n_tr // per)]
    full = []
    for part in common.pool().imap_unordered(_job_c19_trace, tjobs, chunksize=1):
        full.extend(part)
    full.sort(key=lambda t: json.dumps(t["sc"], sort_keys=True))
    for t in full:
        o = t["obs"]
        _c19_witnesses(run, t["sc"], o["calls"], bool(set(t["failing"]) & set(o["downloads"])), len(o["downloads"]), o["result"]["kind"])
        if len(t["sc"]["versions"]) >= 20:
            run.witness("trace_with_20_or_more_versions")
        if o["bad_request"]:
            run.violation("marker_follows_service", _c19_facts("marker_follows_service", "trace"), t)
    traces = [V.retrieval_trace_for_tlc(t) for t in full]

    def on_reject(tr, clause, inv):
        f = _c19_facts(clause, "trace", tr)
        f["invariant"] = inv
        run.violation(clause, f, {"trace": tr})

    n = tracecheck.validate("Trace_S3Versions", "Trace_S3Versions.cfg", traces, on_reject, run=run, chunk=800)
    run.cov["traces_validated_against_impl"] += n
    if not run.violations:

        def drop_listed(t):
            if len(t["obs"]["listed"]) < 2:
                return False
            t["obs"]["listed"] = t["obs"]["listed"][:-1]
            return True

        def shift_stamp(t):
            if not t["obs"]["result"]["rows"]:
                return False
            t["obs"]["result"]["rows"][-1]["t"] += 1
            return True

        run.cov["binding_selftest"] = {
            "listed_version_dropped": _binding_selftest("Trace_S3Versions", "Trace_S3Versions.cfg", traces, drop_listed, "C19 listed"),
            "row_stamp_shifted": _binding_selftest("Trace_S3Versions", "Trace_S3Versions.cfg", traces, shift_stamp, "C19 stamp"),
        }
        s = next(x for x in scens if x["expect"]["kind"] == "rows")
        o = V.run_retrieval(s["sc"], s["pages"], V.failing_of(s))
        o["listed"] = o["listed"] + [99]
        if not V.compare_retrieval(s, o):
            raise tlc.MachineryError("binding self-test (C19 replay): a perturbed projection was not noticed")
    if traces:
        big = max(traces, key=lambda t: len(t["sc"]["versions"]))
        run.sample({"recorded_retrieval": {"n_versions": len(big["sc"]["versions"]), "window": [big["sc"]["start"], big["sc"]["end"]],
                                           "calls": big["obs"]["calls"][:6], "listed": big["obs"]["listed"][:10]}})
    run.finish(
        require_witnesses=[
            "exported_behaviours",
            "window_cuts_a_page",
            "page_ends_exactly_at_window_start",
            "early_stop_taken",
            "equal_timestamps",
            "open_start",
            "open_end",
            "sampling_step_above_one",
            "download_failed_others_kept",
            "no_version_in_window",
            "replayed_through_handler",
            "trace_with_20_or_more_versions",
        ]
    )


# =====================================================================================================================
# C17
# =====================================================================================================================

def _zero_final(u):
    h = u["hist"]
    return h[-1]["t"] == 0 and any(v["t"] > 0 for v in h)


def _key(s):
    return json.dumps(s["sc"], sort_keys=True)


def _job_c17_replay(arg):
    """spec -> code: a pack of exported histories through the real compute_versioned_margin_estimate, with float or
    integer count columns; the terminal state of the (one, intended) model is demanded for both."""
    pack, dtype = arg
    out = {"bad": [], "n": 0, "dtype": dtype}
    try:
        obs = V.run_estimates([s["sc"] for s in pack], dtype=dtype)
    except Exception as e:  # noqa: BLE001
        out["bad"].append({"clause": "run_raised", "detail": f"{type(e).__name__}: {e}", "tb": traceback.format_exc()[-1500:],
                           "scenario": pack[0], "dtype": dtype})
        return out
    for s, o in zip(pack, obs):
        out["n"] += 1
        bad = V.compare_estimates(s["expect"], o, s["expect"]["want_kind"])
        if bad:
            clause, detail = bad[0]
            out["bad"].append({"clause": clause, "detail": detail, "scenario": s, "observed": o, "dtype": dtype})
    return out


def _job_c17_extrap(pack):
    units = [s["sc"] for s in pack]
    try:
        obs = V.run_extrapolation(units, 9)
    except Exception as e:  # noqa: BLE001
        return [{"clause": "extrapolation_raised", "detail": f"{type(e).__name__}: {e}", "tb": traceback.format_exc()[-1500:], "units": units}]
    exp = V.expected_extrapolation([s["expect"] for s in pack], 9)
    return [
        {"clause": c, "detail": d, "units": units, "expected": exp, "observed": obs} for c, d in V.compare_extrapolation(exp, obs)
    ]


def _job_c17_trace(arg):
    seed, n, dtype = arg
    rnd = random.Random(seed)
    units = []
    skipped = 0
    while len(units) < n:
        u = V.random_history(rnd)
        if V.inexact_float_tie(u):
            skipped += 1
            continue
        units.append(u)
    obs = V.run_estimates(units, dtype=dtype)
    out = []
    for u, o in zip(units, obs):
        t = V.margin_trace(u, o)
        t["dtype"] = dtype
        out.append(t)
    return out, skipped


def _c17_witnesses(run, u, kind, rows=None):
    h = u["hist"]
    if kind == "none":
        run.witness("regular_history")
        if len(h) > 1:
            run.witness("regular_history_with_several_versions")
        if rows is not None and len(rows) > 2 and h[0]["t"] > 0 and h[-1]["t"] > 0 and h[0]["t"] * u["pev"][0] > h[-1]["t"] * u["pev"][1]:
            run.witness("percent_before_first_observation")
    elif kind == V.NONMONO:
        run.witness("non_monotone_history")
    elif kind == V.BADBATCH:
        run.witness("impossible_batch_history")
    if any(v["t"] == 0 for v in h):
        run.witness("zero_vote_version")
    if _zero_final(u):
        run.witness("turnout_revised_to_zero_in_last_version")
    if any(a == b for a, b in zip(h, h[1:])):
        run.witness("repeated_version")
    if any(b["d"] < a["d"] or b["g"] < a["g"] for a, b in zip(h, h[1:])):
        run.witness("candidate_revised_downwards")


def _c17_facts(clause, leg, dtype="float64", u=None):
    return {"clause": clause, "leg": leg, "turnout_dtype": dtype, "final_turnout_zero": bool(u is not None and _zero_final(u))}


def _export(cfg):
    res = tlc.run_tlc("MC_VersionedMargin", cfg, workers=1, timeout=1500, keep_stdout=False)
    return cfg, res


def c17(tier, seed):
    run = report.Run("C17", tier, seed)
    run.assumptions += [
        "every exported history is replayed twice, with float64 and with int64 count columns (what pd.read_csv yields); "
        "the same intended model is demanded for both",
        "at percent 0 the imputed margin is 0 by the code's division guard (no votes), not the first observed margin; "
        "'latest percent' is the re-scaled one",
        "recorded runs leave out histories with a re-scaled percent that is a whole number mathematically but not in "
        "floating point (the index search then sits on a float tie, DESIGN 3.1); 210 of 24 984 such triples for "
        "turnout <= 60, percent <= 100, none in the exhaustive domain",
        "_extrapolate_unit_margin is run with the pandas-2 semantics of DataFrameGroupBy.apply restored and with a "
        "last_modified column on the current frames: with the installed pandas 3.0.6 it raises on every input (observation V3)",
        "TLC bounds: every history of <= 3 versions with turnout <= 4 (thorough: <= 6, and 4 versions with turnout <= 3), "
        "latest percent in {0,3,4,8}; longer histories and percents up to 100 only through validated traces",
    ]
    quick = tier == "quick"
    rnd = random.Random(seed)
    if quick:
        common.mc(run, "MC_VersionedMargin", "MC_VersionedMargin_quick.cfg", timeout=900,
                  constants={"MaxV": 3, "MaxTurnout": 4, "Pev": [0, 3, 4, 8], "IntTruncation": False, "MonotoneOnRescaled": False})
    else:
        common.mc(run, "MC_VersionedMargin", "MC_VersionedMargin_thorough.cfg", timeout=2400,
                  constants={"MaxV": 3, "MaxTurnout": 6, "Pev": [0, 1, 3, 5, 8], "IntTruncation": False, "MonotoneOnRescaled": False})
        common.mc(run, "MC_VersionedMargin", "MC_VersionedMargin_v4.cfg", timeout=2400,
                  constants={"MaxV": 4, "MaxTurnout": 3, "Pev": [3, 8], "IntTruncation": False, "MonotoneOnRescaled": False})
    # ---- finding demonstrations: with the two defects of the code as first found switched back on in the
    # specification (both are repaired in /repo) TLC reproduces the counterexamples; nothing below depends on them
    common.mc(run, "MC_VersionedMargin", "MC_VersionedMargin_V1_convex.cfg", expect_violation="Convex",
              name="MC_VersionedMargin_V1_convex (demo of the repaired defect V1: integer truncation)")
    common.mc(run, "MC_VersionedMargin", "MC_VersionedMargin_V1_missing.cfg", expect_violation="AllMissing",
              name="MC_VersionedMargin_V1_missing (demo of the repaired defect V1: integer truncation)")
    common.mc(run, "MC_VersionedMargin", "MC_VersionedMargin_V2.cfg", expect_violation="AllMissing",
              name="MC_VersionedMargin_V2 (demo of the repaired defect V2: monotonicity tested on the quotients)")
    # ---- export of every terminal state of the (intended) model
    ecfg = "MC_VersionedMargin_export.cfg" if quick else "MC_VersionedMargin_export_T4.cfg"
    _, eres = _export(ecfg)
    run.add_tlc(ecfg, eres, {"export": True})
    if eres.violation:
        run.violation(f"tlc:{eres.violation}", {"model": ecfg}, {"trace": eres.error_trace[:100]})
    scens = [v for t, v in eres.printed if t == "SCEN"]
    run.witness("exported_histories", len(scens))
    for s in scens:
        _c17_witnesses(run, s["sc"], s["expect"]["kind"], s["expect"]["rows"])
    # ---- spec -> code: every exported history, with float and with integer count columns
    pack = 250
    jobs = [(scens[a : a + pack], dt) for dt in ("float64", "int64") for a in range(0, len(scens), pack)]
    for out in common.pool().imap_unordered(_job_c17_replay, jobs, chunksize=1):
        run.cov["scenarios_replayed_into_impl"] += out["n"]
        run.witness("replayed_with_" + out["dtype"] + "_columns", out["n"])
        for b in out["bad"]:
            if len(run.violations) < 40:
                run.violation(b["clause"], _c17_facts(b["clause"], "replay", b["dtype"], b["scenario"]["sc"]), b)
    run.cov["exhaustive"] = True
    reg = next((s for s in scens if s["expect"]["kind"] == "none" and len(s["expect"]["rows"]) > 4 and len(s["sc"]["hist"]) == 3), None)
    if reg:
        run.sample({"replayed_history": reg["sc"], "expected_rows": reg["expect"]["rows"][:5]})
    # ---- spec -> code: the extrapolation filter on groups of five exported units
    n_groups = 480 if quick else 4000
    order = list(scens)
    rnd.shuffle(order)
    regular = [s for s in order if s["expect"]["kind"] == "none" and len(s["expect"]["rows"]) > 1]
    groups = []
    for gk in range(n_groups):
        g = order[5 * gk : 5 * gk + 4] + [regular[gk % len(regular)]]
        if len(g) == 5:
            groups.append(g)
    for g in groups:
        if any(s["expect"]["kind"] != "none" for s in g):
            run.witness("extrapolation_group_with_irregular_unit")
    for bads in common.pool().imap_unordered(_job_c17_extrap, groups, chunksize=4):
        run.cov["scenarios_replayed_into_impl"] += 1
        for b in bads:
            if len(run.violations) < 40:
                run.violation(b["clause"], _c17_facts(b["clause"], "extrapolation"), b)
    # ---- code -> spec: random longer histories and the repository's versioned fixtures
    n_tr = 640 if quick else 5000
    per = 40 if quick else 250
    traces = []
    skipped = 0
    tjobs = [(seed * 1000 + k, per, "int64" if k % 2 else "float64") for k in range(n_tr // per)]
    for part, sk in common.pool().imap_unordered(_job_c17_trace, tjobs, chunksize=1):
        traces.extend(part)
        skipped += sk
    traces.sort(key=lambda t: json.dumps(t["sc"], sort_keys=True))
    run.cov["random_histories_left_out"] = skipped
    for t in traces:
        _c17_witnesses(run, t["sc"], t["obs"]["kind"], t["obs"]["rows"])
        if len(t["sc"]["hist"]) >= 8:
            run.witness("trace_with_8_or_more_versions")
        run.witness("trace_with_" + t.pop("dtype") + "_columns")
    for f in sorted(glob.glob("/repo/tests/fixtures/data/*/*/versioned_*.csv")):
        try:
            df, us, ids = V.fixture_units(f)
            res = V.new_handler().compute_versioned_margin_estimate(data=df)
            res = res.copy()
            res["geographic_unit_fips"] = res["geographic_unit_fips"].map({fid: V.unit_id(k) for k, fid in enumerate(ids)})
            for u, o in zip(us, V.project_estimates(res, len(us))):
                if u["consistent"]:
                    traces.append(V.margin_trace({"hist": u["hist"], "pev": u["pev"]}, o))
                    run.witness("repository_fixture_validated")
        except Exception as e:  # noqa: BLE001
            raise tlc.MachineryError(f"cannot load fixture {f}: {e}")

    def on_reject(tr, clause, inv):
        f = _c17_facts(clause, "trace", "any", tr["sc"])
        f["invariant"] = inv
        run.violation(clause, f, {"trace": tr})

    n = tracecheck.validate("Trace_VersionedMargin", "Trace_VersionedMargin.cfg", traces, on_reject, run=run, chunk=700)
    run.cov["traces_validated_against_impl"] += n
    if not run.violations:

        def nudge_estimate(t):
            if len(t["obs"]["rows"]) < 4:
                return False
            t["obs"]["rows"][3]["est"] = V.to_rational(t["obs"]["rows"][3]["est"][0] / t["obs"]["rows"][3]["est"][1] + 1e-9)
            return True

        def unmask_irregular(t):
            if t["obs"]["kind"] == "none":
                return False
            t["obs"]["missing_all"] = False
            return True

        run.cov["binding_selftest"] = {
            "estimate_nudged_by_1e-9": _binding_selftest("Trace_VersionedMargin", "Trace_VersionedMargin.cfg", traces, nudge_estimate, "C17 estimate"),
            "irregular_unit_not_all_missing": _binding_selftest("Trace_VersionedMargin", "Trace_VersionedMargin.cfg", traces, unmask_irregular, "C17 missing"),
        }
        if reg:
            o = V.run_estimates([reg["sc"]])[0]
            o["rows"][1]["corr"] += 1e-9
            if not V.compare_estimates(reg["expect"], o):
                raise tlc.MachineryError("binding self-test (C17 replay): a perturbed projection was not noticed")
    long = next((t for t in traces if len(t["sc"]["hist"]) >= 8 and t["obs"]["kind"] == "none"), None)
    if long:
        run.sample({"recorded_history": long["sc"], "rows": long["obs"]["rows"][:3]})
    run.finish(
        require_witnesses=[
            "exported_histories",
            "regular_history_with_several_versions",
            "percent_before_first_observation",
            "non_monotone_history",
            "impossible_batch_history",
            "zero_vote_version",
            "turnout_revised_to_zero_in_last_version",
            "replayed_with_float64_columns",
            "replayed_with_int64_columns",
            "trace_with_int64_columns",
            "repeated_version",
            "candidate_revised_downwards",
            "extrapolation_group_with_irregular_unit",
            "trace_with_8_or_more_versions",
            "repository_fixture_validated",
        ]
    )
