"""Checks decided by the ConformalSplit and UniformSwing specifications: C14, C04, C05 (engine `arith`).

Division of labour: TLC shows the invariants on the bounded design for every resolution of the float-tie candidate
sets and exports terminal states; the real code is replayed on them (spec -> code) and what the real code did on the
permille x n grid, at the gate and on random elections is recorded and validated by the Trace_* specifications
(code -> spec).  docs/arith.md has the details.
"""
import json
import os
import random
import tempfile

from checks import common
from harness import arith, report, tlc, tracecheck

ESTIMATORS = ["nonparametric", "gaussian", "bootstrap"]


_T0 = [None]


def _tick(label):
    """Phase timing on stderr when VERIF_ARITH_TIMING is set (development aid)."""
    import sys
    import time

    if not os.environ.get("VERIF_ARITH_TIMING"):
        return
    now = time.time()
    if _T0[0] is not None:
        print(f"[arith timing] {label}: {now - _T0[0]:.1f}s", file=sys.stderr, flush=True)
    _T0[0] = now


def _clause_head(clause):
    return clause.split(":", 1)[0]


def _validate(run, module, cfg, traces, facts_of, chunk=1000, name=None):
    def on_reject(tr, clause, inv):
        facts = {"clause": _clause_head(clause), "invariant": inv}
        facts.update(facts_of(tr))
        slim = {k: (v if not isinstance(v, list) or len(v) <= 80 else v[:80] + ["..."]) for k, v in tr.items()}
        run.violation(_clause_head(clause), facts, {"clause": clause, "trace": slim})

    n = tracecheck.validate(module, cfg, traces, on_reject, run=run, name=name or cfg, chunk=chunk)
    run.cov["traces_validated_against_impl"] += n
    return n


def _split_raised(run, records):
    """A real run that raised is a violation of the property under check (the inputs are valid), not a record."""
    ok = []
    for t in records:
        if t.get("kind") == "raised":
            run.violation("real_run_raised", {"clause": "real_run_raised", "exc": t["exc"]}, t)
        else:
            ok.append(t)
    return ok


# ---------------------------------------------------------------------------------------------------------------
# C14


def _gate_requests(tier, seed):
    rnd = random.Random(seed)
    quick = tier == "quick"
    cap = 990 if quick else 997
    singles = {500, 700, 800, 900, 920, 950, 10, 333}
    while len(singles) < (40 if quick else 300):
        singles.add(rnd.randint(1, cap))
    reqs = [{"est": "nonparametric", "alphas": [p], "dup": False, "extra": []} for p in sorted(singles)]
    # several levels: the gate is the largest minimum, whatever the order
    multis = [[700, 900], [900, 700], [500, 950, 800], [900, 900], [950, 10]]
    for _ in range(3 if quick else 20):
        multis.append([rnd.randint(1, 980) for _ in range(rnd.randint(2, 3))])
    reqs += [{"est": "nonparametric", "alphas": al, "dup": False, "extra": []} for al in multis]
    # the estimators with a fixed minimum; extra n where floor(n * 0.7) sits on a float tie
    for al in ([700], [900], [700, 900], [10], [990]):
        reqs.append({"est": "gaussian", "alphas": al, "dup": False, "extra": [20, 30, 50] if al == [700, 900] else []})
    for al in ([700], [500, 950]):
        reqs.append({"est": "bootstrap", "alphas": al, "dup": False, "extra": []})
    # levels that are not "round" floats (computed levels such as 0.7 + 0.1, 2 / 3): the permille value plus a relative
    # 2^-40, away from every tie of the minimum - the outcome is that of the permille level (seeded change C14_E: a
    # level printed with six significant digits in one module and in full in another)
    for al in ([700], [333], [910, 700], [667]):
        reqs.append({"est": "nonparametric", "alphas": al, "dup": False, "extra": [], "fine": True})
    reqs.append({"est": "gaussian", "alphas": [700, 910], "dup": False, "extra": [], "fine": True})
    # fixed effects in the interval models, several levels in ascending and descending order: each level cuts its own
    # calibration split, so the completion clause holds for every level whatever was computed before it in the same run
    # (seeded change C14_J: a split kept on the model and re-used by the following levels when fixed effects are on)
    for al in ([700, 900], [900, 700], [500, 800, 950], [700]):
        reqs.append({"est": "nonparametric", "alphas": al, "dup": False, "extra": [24, 40] if al == [700, 900] else [], "fe": True})
    reqs.append({"est": "gaussian", "alphas": [700, 900], "dup": False, "extra": [], "fe": True})
    # duplicated reporting unit ids
    reqs.append({"est": "nonparametric", "alphas": [700, 900], "dup": True, "extra": [30]})
    reqs.append({"est": "nonparametric", "alphas": [rnd.randint(100, 900)], "dup": True, "extra": []})
    reqs.append({"est": "gaussian", "alphas": [900], "dup": True, "extra": []})
    reqs.append({"est": "bootstrap", "alphas": [900], "dup": True, "extra": []})
    for i, r in enumerate(reqs):
        r["rid"] = i + 1
    return reqs


def _run_facts(tr):
    return {
        "kind": tr.get("kind"),
        "est": tr.get("est"),
        "src": tr.get("src"),
        "outcome": tr.get("outcome"),
        "alphas": tr.get("alphas", tr.get("p")),
        "n": tr.get("n"),
    }


def c14(tier, seed):
    run = report.Run("C14", tier, seed)
    _tick("start")
    quick = tier == "quick"
    max_n = 600 if quick else 3000
    run.assumptions += [
        "interval levels are whole permille (1..998); the minimum / fraction / floor are checked for every such level and "
        f"every n up to {max_n}, TLC shows the split invariants for every resolution of the float-tie candidate sets",
        "float ties are admitted only where the exact real value is on the tie of the rounding (minimum an integer, "
        "100*fraction a half-integer, n*fraction an integer); everywhere else the exact value is demanded",
        "end-to-end runs use well-behaved random elections (no outlier models, one estimand); the estimator after the gate "
        "is the real one (real regressions, real bootstrap with B = 6)",
        "a gaussian run needs only the fixed minimum 7 (the property's gate); whether 3 calibration units make a sensible "
        "gaussian model is C15's business",
    ]
    pool = common.pool()
    # ---- TLC: the design satisfies the invariants for every (alpha, n) and every resolution
    jobs = [
        {"module": "MC_ConformalSplit", "cfg": f"MC_ConformalSplit_gate_{tier}.cfg", "workers": 12, "constants": {"GridMaxN": max_n}},
        {"module": "MC_ConformalSplit", "cfg": "MC_ConformalSplit_gate_multi.cfg", "workers": 2},
        # the code as found (finding F6, fixed in the tree): without the guard TLC must reproduce train = 0
        {
            "module": "MC_ConformalSplit",
            "cfg": "MC_ConformalSplit_gate_F6.cfg",
            "workers": 2,
            "expect_violation": "TrainAtLeastOne",
            "name": "MC_ConformalSplit_gate_F6 (finding demo)",
        },
    ]
    grid_async = pool.map_async(arith.job_grid, [(ps, max_n) for ps in arith.chunks(range(1, 999), 16)], chunksize=1)
    fixed_async = pool.map_async(arith.job_fixed_minimum, [0])
    arith.tlc_many(run, jobs)
    run.cov["exhaustive"] = True
    _tick("c14 tlc")

    # ---- (i) code -> spec: the real minimum and fraction on the whole grid
    grid = [r for part in grid_async.get() for r in part]
    fixed = fixed_async.get()[0]
    traces = list(grid)
    traces.append({"kind": "fixed", "est": "gaussian", "mins": fixed["gaussian"], "f100s": fixed["gaussian_frac"]})
    traces.append({"kind": "fixed", "est": "bootstrap", "mins": fixed["bootstrap"], "f100s": []})
    points = sum(len(r["f100"]) for r in grid)
    run.witness("grid_points_from_real_code", points)
    run.sample({"grid_record": {k: (v if k != "f100" else v[:8]) for k, v in grid[699].items()}, "grid_points": points})
    _validate(run, "Trace_ConformalSplit", "Trace_ConformalSplit_C14.cfg", traces, _run_facts, name="Trace_ConformalSplit_C14 (grid)")
    _tick("c14 grid trace")

    # ---- (ii) code -> spec: real calls of the interval code (real split, real regressions) at and above the minimum
    rnd = random.Random(seed + 1)
    probe_cap = 420 if quick else 1200
    pairs = []
    for r in grid:
        mn = r["min"]
        if mn < 1:
            continue
        for d in (0, 1, 2, 3):
            if mn + d <= probe_cap:
                pairs.append((r["p"], mn + d))
        # where floor(n * fraction) sits on a float tie, and a few random n
        ties = [r["n0"] + k for k, f in enumerate(r["f100"]) if f > 0 and ((r["n0"] + k) * f) % 100 == 0 and r["n0"] + k <= probe_cap]
        for n in rnd.sample(ties, min(len(ties), 1 if quick else 3)):
            pairs.append((r["p"], n))
        if mn + 4 <= probe_cap and rnd.random() < (0.5 if quick else 1.0):
            pairs.append((r["p"], rnd.randint(mn + 4, probe_cap)))
    rnd.shuffle(pairs)
    probe_jobs = [(ch, seed + 31 * i) for i, ch in enumerate(arith.chunks(pairs, 40))]
    probes_async = pool.map_async(arith.job_probe, probe_jobs, chunksize=1)

    # ---- (iii) spec -> code: the public client around the gate; TLC says which outcomes / splits are admissible
    reqs = _gate_requests(tier, seed)
    fd, req_path = tempfile.mkstemp(prefix="arith_req_", suffix=".json")
    with os.fdopen(fd, "w") as f:
        json.dump(reqs, f)
    try:
        res = tlc.run_tlc("MC_ConformalSplit_Req", "MC_ConformalSplit_Req.cfg", workers=1, env={"REQ_FILE": req_path}, timeout=900, keep_stdout=False)
    finally:
        os.unlink(req_path)
    run.add_tlc("MC_ConformalSplit_Req (export)", res, {"requests": len(reqs)})
    _tick("c14 req export")
    if res.violation:
        run.violation(f"tlc:{res.violation}", {"model": "MC_ConformalSplit_Req", "invariant": res.violation}, {"trace": res.error_trace[:100]})
    admissible = {}
    for tag, v in res.printed:
        if tag != "SCEN":
            continue
        key = (v["rid"], v["n"])
        splits = tuple((s["f100"], s["train"], s["cal"]) for s in v["st"]["splits"])
        admissible.setdefault(key, set()).add((v["outcome"], splits))
    run.witness("exported_gate_scenarios", len(admissible))
    by_rid = {r["rid"]: r for r in reqs}
    gate_jobs = [(by_rid[rid], n, seed + 7 * rid + n) for (rid, n) in sorted(admissible)]
    gate_runs = pool.map(arith.job_gate_run, gate_jobs, chunksize=1)
    _tick("c14 gate runs")
    for (req, n, _), tr in zip(gate_jobs, gate_runs):
        run.cov["scenarios_replayed_into_impl"] += 1
        adm = admissible[(req["rid"], n)]
        facts = {"est": req["est"], "alphas": req["alphas"], "dup": req["dup"], "n": n, "outcome": tr["outcome"]}
        if tr["n"] != n or tr["dup"] != req["dup"]:
            # the election was built with exactly n reporting rows (feed rows at or above the threshold, present in the
            # baseline): a model that is handed another number of reporting units counts something else as reporting
            facts["clause"] = "reporting_units_handed_to_the_model"
            run.violation("reporting_units_handed_to_the_model", facts, {"built_with": {"n": n, "dup": req["dup"]}, "model_saw": {"n": tr["n"], "dup": tr["dup"]}, "run": tr})
            continue
        outcomes = {o for o, _ in adm}
        if tr["outcome"] not in outcomes:
            facts["clause"] = "gate_outcome"
            run.violation("gate_outcome", facts, {"admissible": sorted(outcomes), "run": tr})
            continue
        if tr["outcome"] == "done" and req["est"] != "bootstrap":
            got = tuple((s["f100"], s["train"], s["cal"]) for s in tr["splits"])
            if got not in {s for o, s in adm if o == "done"}:
                # the exact arithmetic of the split (fraction, rounding, floor) is mechanism: drift is advisory; the
                # property's clauses on the split the code made are decided by RunSplitsSound in the trace specification
                adv = run.cov.setdefault("advisory_drift", {})
                adv["split_differs_from_modelled_arithmetic"] = adv.get("split_differs_from_modelled_arithmetic", 0) + 1
        if tr["outcome"] == "not_enough":
            run.witness("raised_below_minimum")
        if tr["outcome"] == "done" and outcomes == {"done"} and (req["rid"], n - 1) in admissible and "not_enough" in {o for o, _ in admissible[(req["rid"], n - 1)]}:
            run.witness(f"completed_at_minimum_{req['est']}")
        if tr["outcome"] == "client_error":
            run.witness("duplicate_rejected")
        if any(s["train"] == 1 and s["f100"] * n < 100 for s in tr["splits"]):
            run.witness("one_training_unit_guard_active")
        if len(outcomes) > 1:
            run.witness("float_tie_of_minimum_at_gate")
    run.sample({"gate_run": {k: gate_runs[0][k] for k in ("est", "alphas", "n", "outcome", "mins", "splits")}})
    # the same runs, and the probes, code -> spec
    probes = [r for part in probes_async.get() for r in part]
    _tick("c14 probes")
    run.witness("split_probes", len(probes))
    if any(s["train"] == 1 and s["f100"] * r["n"] < 100 for r in probes for s in r["splits"]):
        run.witness("one_training_unit_guard_active")
    keep = ("kind", "src", "est", "alphas", "n", "dup", "outcome", "mins", "splits", "detail")
    run_traces = [{k: t.get(k) for k in keep} for t in gate_runs + probes]
    for t in run_traces:
        t["detail"] = t["detail"] or ""
    _validate(run, "Trace_ConformalSplit", "Trace_ConformalSplit_C14.cfg", run_traces, _run_facts, name="Trace_ConformalSplit_C14 (runs)")
    _tick("c14 run traces")
    run.finish(
        require_witnesses=[
            "grid_points_from_real_code",
            "exported_gate_scenarios",
            "raised_below_minimum",
            "completed_at_minimum_nonparametric",
            "completed_at_minimum_gaussian",
            "completed_at_minimum_bootstrap",
            "duplicate_rejected",
            "one_training_unit_guard_active",
            "float_tie_of_minimum_at_gate",
            "split_probes",
        ]
    )


# ---------------------------------------------------------------------------------------------------------------
# C04


def _corr_jobs(tier):
    """Export runs (one TLC worker each, run side by side): each is an exhaustive run of its part of the scenario
    universe that also prints the terminal states."""
    m = "MC_ConformalSplit"
    q = "q" if tier == "quick" else ""
    jobs = [{"module": m, "cfg": f"MC_ConformalSplit_corr_x23{q}.cfg", "workers": 1}]
    for a in ("A12", "A58", "A34"):
        jobs.append({"module": m, "cfg": f"MC_ConformalSplit_corr_x4{q}_{a}.cfg", "workers": 1})
        if tier != "quick":
            jobs.append({"module": m, "cfg": f"MC_ConformalSplit_corr_x5_{a}.cfg", "workers": 1, "timeout": 3000})
    for a in ("A12", "A58", "A34", "A78"):
        jobs.append({"module": m, "cfg": f"MC_ConformalSplit_corr_x8{'q' if tier == 'quick' else 't'}_{a}.cfg", "workers": 1})
    return jobs


def c04(tier, seed):
    run = report.Run("C04", tier, seed)
    _tick("start")
    quick = tier == "quick"
    rank_n = 60 if quick else 400
    run.assumptions += [
        "coverage clause: exchangeability of the calibration and the outstanding scores and equal baseline sizes are "
        "assumed (the property's hypothesis); what is checked is the finite rank statement for every level (permille) "
        f"and n_cal <= {rank_n}, and that the real code picks that rank",
        "the score function is fixed given the training split (calibration rows are not used by the fits)",
        "calibration clause: exhaustive over multisets of (score, weight) with scores in -2..2 eighths (-3..3 in thorough), "
        "weights {1,2,4}, n_cal <= 4 (5 in thorough), plus n_cal = 8 on a thinner domain; dyadic levels 1/2 5/8 3/4 7/8",
        "deliberate deviation (DESIGN 4): on an exact tie cumulative share = level the code may stop at the tie when the "
        "shares are not computed exactly (weight total or n_cal not a power of two); admitted only there",
        "level alpha(1+1/n_cal) < 1 (guaranteed for n >= minimum by C14's RankExists)",
    ]
    pool = common.pool()
    rank_async = pool.map_async(arith.job_rank, [(ps, rank_n, seed + i) for i, ps in enumerate(arith.chunks(range(1, 999), 8))], chunksize=1)
    rnd = random.Random(seed)
    real_jobs = []
    level_sets = [(0.7, 0.9), (0.5, 0.8), (0.9,), (0.75, 0.95), (0.6,)]
    for i in range(40 if quick else 400):
        n_rep = rnd.randint(21, 40) if i % 4 else rnd.randint(40, 48)
        pis = level_sets[i % len(level_sets)]
        pis = tuple(a for a in pis if (1 + a) / (1 - a) <= n_rep)
        real_jobs.append((seed + 1000 + i, n_rep, rnd.randint(2, 5), pis, i % 2 == 1, ("x1",) if i % 3 else ()))
    # runs with exactly the minimum number of reporting units of their single level (where the rounded fraction gives
    # zero training rows and the guard keeps one): the calibration set must still be held out
    for i, (a, n_min) in enumerate([(0.7, 6), (0.5, 3), (0.85, 13), (0.65, 5), (0.75, 7), (0.8, 10)] * (2 if quick else 10)):
        real_jobs.append((seed + 5000 + i, n_min, 2, (a,), i % 2 == 1, ()))
    real_async = pool.map_async(arith.job_corr_run, real_jobs, chunksize=1)

    # ---- TLC: calibration clause on every calibration set (export runs are exhaustive runs that also print), rank clause
    jobs = _corr_jobs(tier) + [
        {"module": "MC_ConformalSplit", "cfg": "MC_ConformalSplit_rank_small.cfg", "workers": 2},
        {"module": "MC_ConformalSplit", "cfg": f"MC_ConformalSplit_rank_{tier}.cfg", "workers": 4, "constants": {"RankMaxN": rank_n}},
    ]
    results = arith.tlc_many(run, jobs, max_parallel=12)
    _tick("c04 tlc")
    run.cov["exhaustive"] = True
    groups = {}
    for res in results:
        for tag, v in res.printed:
            if tag != "SCEN":
                continue
            scn = {k: v[k] for k in ("cal", "alpha", "robust", "su", "nr")}
            g = groups.setdefault(arith.corr_key(scn), {"scn": scn, "res": [], "tie": v["tie"], "exactTie": v["exactTie"]})
            g["res"].append({"pop": v["pop"], "c": v["c"], "lower": v["lower"], "upper": v["upper"]})
    items = list(groups.values())
    run.witness("exported_calibration_scenarios", len(items))
    for g in items:
        if g["tie"] and g["exactTie"]:
            run.witness("exact_tie_computed_exactly")
        if g["tie"] and not g["exactTie"]:
            run.witness("inexact_tie_admits_both")
        r0 = g["res"][0]
        if r0["c"][0] < 0:
            run.witness("negative_correction")
        if g["scn"]["robust"] and r0["c"] != [r0["pop"], 1]:
            run.witness("robust_takes_unweighted_quantile")
        if any(u["partial"] in lo and u["partial"] > 0 for u, lo in zip(g["scn"]["nr"], r0["lower"])):
            run.witness("bound_floored_at_partial_count")
    # ---- spec -> code: replay into the real functions
    cap = 40000 if quick else 10**9
    if len(items) > cap:
        must = [g for g in items if g["tie"] or len(g["scn"]["cal"]) != 4]
        rest = [g for g in items if not (g["tie"] or len(g["scn"]["cal"]) != 4)]
        pick = must + arith.stratified(rest, lambda g: (tuple(g["scn"]["alpha"]), g["scn"]["robust"], g["res"][0]["pop"]), max(0, cap - len(must)), rnd)
        run.assumptions.append(
            f"quick tier replays {len(pick)} of {len(items)} exported calibration scenarios: all with n_cal != 4, all exact "
            "ties, and a seeded sample of the rest stratified by (level, robust, expected correction)"
        )
    else:
        pick = items
    rnd.shuffle(pick)
    rjobs = [([(g["scn"], g["res"]) for g in ch], seed + 13 * i) for i, ch in enumerate(arith.chunks(pick, 250))]
    for bads in pool.imap_unordered(arith.job_replay_corr, rjobs, chunksize=1):
        for b in bads:
            if len(run.violations) >= 40:
                break
            scn = b.get("scenario", {})
            facts = {"clause": b["clause"], "alpha": scn.get("alpha"), "robust": scn.get("robust"), "n_cal": len(scn.get("cal", []))}
            if "exc" in b:
                facts["exc"] = b["exc"]
            run.violation(b["clause"], facts, b)
    run.cov["scenarios_replayed_into_impl"] += len(pick)
    _tick("c04 replay")
    run.sample({"replayed_calibration_scenario": pick[0]["scn"], "expected": pick[0]["res"]})

    # ---- code -> spec: the rank the real correction picks (equal weights, distinct scores), the whole grid
    ranks = [r for part in rank_async.get() for r in part]
    _tick("c04 rank calls")
    run.witness("rank_grid_points_from_real_code", sum(len(r["ks"]) for r in ranks))
    if any((r["p"] * (r["n0"] + k + 1)) % 1000 == 0 and kk > 0 for r in ranks for k, kk in enumerate(r["ks"])):
        run.witness("rank_tie_on_grid")
    _validate(run, "Trace_ConformalSplit", "Trace_ConformalSplit_C04.cfg", ranks, lambda t: {"kind": "rank", "p": t.get("p")}, name="Trace_ConformalSplit_C04 (rank grid)")
    _tick("c04 rank trace")
    # ---- code -> spec: calibration sets and corrections of real client runs
    real = _split_raised(run, [t for part in real_async.get() for t in part])
    run.witness("real_calibration_sets", len(real))
    _tick("c04 real runs")
    if any(t["robust"] for t in real):
        run.witness("real_robust_run")
    if real:
        run.sample({"recorded_calibration_set": {k: (v if not isinstance(v, list) else v[:6]) for k, v in real[0].items()}})
    _validate(
        run,
        "Trace_ConformalSplit",
        "Trace_ConformalSplit_C04.cfg",
        real,
        lambda t: {"kind": "corr", "robust": t.get("robust"), "alpha": [t.get("aN"), t.get("aD")], "n_cal": len(t.get("rk", []))},
        name="Trace_ConformalSplit_C04 (real runs)",
    )
    _tick("c04 real trace")
    run.finish(
        require_witnesses=[
            "exported_calibration_scenarios",
            "exact_tie_computed_exactly",
            "inexact_tie_admits_both",
            "negative_correction",
            "robust_takes_unweighted_quantile",
            "bound_floored_at_partial_count",
            "rank_grid_points_from_real_code",
            "rank_tie_on_grid",
            "real_calibration_sets",
            "real_robust_run",
        ]
    )


# ---------------------------------------------------------------------------------------------------------------
# C05


def c05(tier, seed):
    run = report.Run("C05", tier, seed)
    _tick("start")
    quick = tier == "quick"
    run.assumptions += [
        "scenarios whose baseline-weighted median is not unique are excluded (the property says so); TLC decides which",
        "replay scenarios: reporting units with baseline + 1 a power of two (dyadic residuals) inside the default "
        "turnout-factor band, every multiset of 3..4 (exported) / 5 (6 in thorough) units of 19 types, 7 fixed nonreporting units",
        "on an exact half the rounded prediction may be either neighbour (the intercept is the solver's double)",
        "recorded real runs are judged by the closed form only (weighted median by exact scan); the minimiser property of "
        "the median is shown by TLC on the bounded scenarios",
    ]
    pool = common.pool()
    rnd = random.Random(seed)
    real_jobs = [(seed + 500 + i, rnd.randint(8, 40), rnd.randint(2, 6), "nonparametric" if i % 5 else "gaussian") for i in range(60 if quick else 600)]
    real_async = pool.map_async(arith.job_swing_run, real_jobs, chunksize=1)
    jobs = [{"module": "MC_UniformSwing", "cfg": "MC_UniformSwing_export.cfg", "workers": 1}]
    if quick:
        jobs.append({"module": "MC_UniformSwing", "cfg": "MC_UniformSwing_quick5.cfg", "workers": 6})
    else:
        jobs.append({"module": "MC_UniformSwing", "cfg": "MC_UniformSwing_export5.cfg", "workers": 1, "timeout": 3000})
        jobs.append({"module": "MC_UniformSwing", "cfg": "MC_UniformSwing_thorough.cfg", "workers": 10, "timeout": 3000})
    results = arith.tlc_many(run, jobs)
    run.cov["exhaustive"] = True
    scens = []
    _tick("c05 tlc")
    for res in results:
        for tag, v in res.printed:
            if tag == "SCEN":
                scens.append(v)
            elif tag == "EXCL":
                run.witness("non_unique_median_excluded")
    run.witness("exported_swing_scenarios", len(scens))
    for s in scens:
        if any(len(c) > 1 for c in s["preds"]):
            run.witness("rounding_tie_admits_both")
        if any(c == [u["partial"]] and u["partial"] > 0 for c, u in zip(s["preds"], s["non"])):
            run.witness("prediction_floored_at_partial_count")
    # ---- spec -> code: every exported scenario through get_units + get_unit_predictions, a sample through the client
    rjobs = [(ch, seed + 17 * i, False) for i, ch in enumerate(arith.chunks(scens, 100))]
    n_client = 300 if quick else 3000
    csample = arith.stratified(scens, lambda s: (len(s["rep"]), tuple(s["m"])), n_client, rnd)
    rjobs += [(ch, seed + 19 * i, True) for i, ch in enumerate(arith.chunks(csample, 25))]
    for bads in pool.imap_unordered(arith.job_replay_swing, rjobs, chunksize=1):
        for b in bads:
            if len(run.violations) >= 40:
                break
            facts = {"clause": b["clause"], "through_client": b.get("client"), "n_reporting": len(b["scenario"]["rep"])}
            if "exc" in b:
                facts["exc"] = b["exc"]
            run.violation(b["clause"], facts, b)
    run.cov["scenarios_replayed_into_impl"] += len(scens) + len(csample)
    _tick("c05 replay")
    run.witness("replayed_through_client", len(csample))
    run.sample({"replayed_swing_scenario": {k: scens[0][k] for k in ("rep", "non", "m", "preds")}})
    # ---- code -> spec: real covariate-free runs on random elections
    real = _split_raised(run, [t for part in real_async.get() for t in part])
    run.witness("real_covariate_free_runs", len(real))
    run.witness("runs_with_every_first_solve_failing", sum(1 for t in real if t.get("faulted")))
    run.witness("runs_with_hamlets", sum(1 for t in real if t.get("hamlets")))
    _tick("c05 real runs")
    if real:
        run.sample({"recorded_run": {"rep": real[0]["rep"][:4], "non": real[0]["non"][:3], "pred": real[0]["pred"][:3]}})
    _validate(
        run,
        "Trace_UniformSwing",
        "Trace_UniformSwing_C05.cfg",
        real,
        lambda t: {"estimator": t.get("estimator"), "n_reporting": len(t.get("rep", []))},
        chunk=200,
    )
    _tick("c05 trace")
    run.finish(
        require_witnesses=[
            "exported_swing_scenarios",
            "non_unique_median_excluded",
            "rounding_tie_admits_both",
            "prediction_floored_at_partial_count",
            "replayed_through_client",
            "real_covariate_free_runs",
            "runs_with_every_first_solve_failing",
            "runs_with_hamlets",
        ]
    )
