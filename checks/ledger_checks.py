"""Checks decided by the Ledger specification: C01 (and, sharing the engine, C02 C03 C09 C11)."""
import itertools
import random
import traceback

from checks import common
from harness import ledger, report, tlc, tracecheck

ESTIMATORS = ["nonparametric", "gaussian", "bootstrap"]
PIS = (0.7, 0.9)


# ---------------------------------------------------------------------------------------------------------------
# pool jobs (top level so that they can be forked)


def _job_replay(arg):
    """spec -> code: run a pack of TLC-exported scenarios through the real client, compare with TLC's terminal state."""
    pack, expects, estimator, seed = arg
    try:
        c, res, meta, _ = ledger.run_pack(pack, estimator, seed, pis=PIS)
    except Exception as e:  # noqa: BLE001
        return [
            {
                "clause": "run_raised",
                "estimator": estimator,
                "exc": type(e).__name__,
                "msg": str(e)[:300],
                "policy": pack[0]["policy"],
                "districtOffice": pack[0]["districtOffice"],
                "levels": list(pack[0]["levels"]),
                "tb": traceback.format_exc()[-1500:],
                "pack": pack,
            }
        ]
    out = []
    try:
        proj = ledger.Projection(pack, res, meta, estimator, PIS)
        for p, (sc, exp) in enumerate(zip(pack, expects)):
            bad = compare_c01(proj, p, sc, exp)
            for b in bad:
                b.update(
                    estimator=estimator,
                    policy=sc["policy"],
                    districtOffice=sc["districtOffice"],
                    levels=list(sc["levels"]),
                    kinds=[u["kind"] for u in sc["units"]],
                    sc=sc,
                    expect=exp,
                )
            out.extend(bad)
    except ValueError as e:
        out.append({"clause": "projection_failed", "estimator": estimator, "msg": str(e)[:300], "pack": pack})
    return out


def compare_c01(proj, p, sc, exp):
    bad = []
    scale = proj.scale
    for idx, e in enumerate(exp["utable"]):
        i = idx + 1
        o = proj.unit(p, i)
        if e.get("absent"):
            if o["present"]:
                bad.append({"clause": "unit_row_absent", "unit": i, "observed": o})
            continue
        if not o["present"]:
            bad.append({"clause": "unit_row_present", "unit": i})
            continue
        if o["count"] != 1:
            bad.append({"clause": "unit_once", "unit": i, "observed": o})
        for f, ev in (("state", e["state"]), ("cat", e["cat"]), ("reporting", e["reporting"]), ("votes", e["votes"] * scale)):
            if o[f] != ev:
                bad.append({"clause": f"unit_{f}", "unit": i, "expected": ev, "observed": o[f]})
    for level, erows in exp["tables"].items():
        orows = {tuple(r["key"]): r for r in proj.table(p, level)}
        ekeys = {tuple(r["key"]) for r in erows}
        if set(orows) != ekeys:
            bad.append({"clause": "group_keys", "level": level, "expected": sorted(ekeys), "observed": sorted(orows)})
            continue
        for r in erows:
            o = orows[tuple(r["key"])]
            if o["counted"] != r["counted"] * scale:
                bad.append(
                    {"clause": "group_counted", "level": level, "key": r["key"], "expected": r["counted"] * scale, "observed": o["counted"]}
                )
            if o["reporting"] != r["reporting"]:
                bad.append(
                    {"clause": "group_reporting", "level": level, "key": r["key"], "expected": r["reporting"], "observed": o["reporting"]}
                )
    return bad


def _job_two_polls(arg):
    pack, estimator, seed = arg
    try:
        return ("ok", ledger.two_poll_traces(pack, estimator, seed, PIS))
    except Exception as e:  # noqa: BLE001
        return ("exc", {"clause": "run_raised", "estimator": estimator, "exc": type(e).__name__, "msg": str(e)[:300], "policy": pack[0]["policy"],
                        "districtOffice": pack[0]["districtOffice"], "levels": list(pack[0]["levels"]), "tb": traceback.format_exc()[-1500:], "pack": pack})


def _job_trace(arg):
    """code -> spec: run a pack of random scenarios, return one trace per scenario."""
    pack, estimator, seed, kw = arg
    kw = dict(kw)
    pis = kw.pop("pis", PIS)
    try:
        c, res, meta, _ = ledger.run_pack(pack, estimator, seed, pis=pis, **kw)
        return ("ok", ledger.trace_of(pack, res, meta, estimator, pis))
    except Exception as e:  # noqa: BLE001
        return (
            "exc",
            {
                "clause": "run_raised",
                "estimator": estimator,
                "exc": type(e).__name__,
                "msg": str(e)[:300],
                "policy": pack[0]["policy"],
                "districtOffice": pack[0]["districtOffice"],
                "levels": list(pack[0]["levels"]),
                "tb": traceback.format_exc()[-1500:],
                "pack": pack,
            },
        )


# ---------------------------------------------------------------------------------------------------------------


def export_scenarios(run, cfg="MC_Ledger_export.cfg"):
    res = tlc.run_tlc("MC_Ledger", cfg, workers=1, timeout=900, keep_stdout=False)
    run.add_tlc(cfg, res)
    if res.violation:
        run.violation(f"tlc:{res.violation}", {"model": cfg, "invariant": res.violation}, {"trace": res.error_trace[:100]})
    return [v for t, v in res.printed if t == "SCEN"]


def pack_by_request(scens, pack_size, extra_key=None):
    """Group scenarios that can share one client run (same policy, office kind, request list)."""
    groups = {}
    for s in scens:
        sc = s["sc"] if "sc" in s else s
        k = (sc["policy"], sc["districtOffice"], tuple(sc["levels"]))
        if extra_key is not None:
            k = k + (extra_key(sc),)
        groups.setdefault(k, []).append(s)
    packs = []
    for k in sorted(groups):
        g = groups[k]
        for i in range(0, len(g), pack_size):
            packs.append(g[i : i + pack_size])
    return packs


def replay_exported(run, scens, n_sample, seed, estimators=ESTIMATORS, pack_size=24):
    rnd = random.Random(seed)
    if n_sample < len(scens):
        # stratified by (kind pair) so that every combination of unit kinds stays represented
        by_kind = {}
        for s in scens:
            by_kind.setdefault(tuple(sorted(u["kind"] for u in s["sc"]["units"])), []).append(s)
        per = max(1, n_sample // len(by_kind))
        pick = []
        for k in sorted(by_kind):
            g = by_kind[k]
            pick.extend(rnd.sample(g, min(per, len(g))))
        scens = pick
    else:
        run.cov["exhaustive"] = True
    def has_null(sc):
        return any(u.get("nullRes") for u in sc["units"])

    packs = pack_by_request(scens, pack_size, extra_key=has_null)
    jobs = []
    for n, pk in enumerate(packs):
        est = estimators[n % len(estimators)]
        scs = [dict(s["sc"]) for s in pk]
        if has_null(scs[0]):
            # a missing value for another requested estimand needs a run with two estimands (conformal estimators)
            est = ["nonparametric", "gaussian"][n % 2]
            for sc in scs:
                sc["multiEst"] = True
        jobs.append((scs, [s["expect"] for s in pk], est, seed + n))
    results = common.pool().map(_job_replay, jobs, chunksize=1)
    for job, bads in zip(jobs, results):
        if len(run.violations) >= 40:
            break
        run.cov["scenarios_replayed_into_impl"] += len(job[0])
        for b in bads:
            facts = {k: b[k] for k in ("clause", "estimator", "policy", "districtOffice", "exc") if k in b}
            facts["levels_has_classification"] = "county_classification" in b.get("levels", [])
            if "kinds" in b:
                facts["kinds"] = b["kinds"]
            run.violation(b["clause"], facts, b)
    if scens:
        run.sample({"replayed_scenario": scens[0]["sc"], "expected_terminal_state": scens[0]["expect"]})
    return len(scens)


def random_traces(run, n_runs, seed, units=(4, 12), pack_size=6, allow_mismatch=True, estimators=ESTIMATORS, outliers=False, policies=None, p_weird=0.45):
    rnd = random.Random(seed)
    jobs = []
    for n in range(n_runs):
        policy = policies[n % len(policies)] if policies else rnd.choice(["drop", "zero"])
        off = rnd.random() < 0.35
        levels = rnd.choice(ledger.LEVEL_LISTS)
        est_n = estimators[n % len(estimators)]
        multi = est_n != "bootstrap" and n % 4 == 0
        pack = [
            ledger.random_scenario(rnd, rnd.randint(*units), policy, off, levels, allow_mismatch=allow_mismatch, p_weird=p_weird, multi_est=multi)
            for _ in range(pack_size)
        ]
        kw = {}
        if outliers:
            # outlier models on/off, total number of reporting expected units around the threshold of 20
            opt_t, opt_m = rnd.random() < 0.8, rnd.random() < 0.7
            if outliers == "both":
                opt_t = opt_m = True
            for sc in pack:
                sc["optT"], sc["optM"] = opt_t, opt_m
            n_rep = sum(1 for sc in pack for u in sc["units"] if ledger._rep_expected(sc, u))
            target = rnd.choice([19, 20, 21, 22, 30, 45] if outliers != "both" else [30, 45])
            kw["ballast_rep"] = max(10, target - n_rep)
            kw["pis"] = (0.7,)
            if opt_t and opt_m and est_n == "bootstrap":
                # one modelled reporting unit per scenario is made an outlier in turnout and in margin change: a unit
                # flagged by both models is still ONE unit with ONE category (seeded change C01_F)
                for sc in pack:
                    cand = [u for u in sc["units"] if u["kind"] == "rep" and int(u["votes"]) >= 40]
                    if cand and rnd.random() < 0.7:
                        rnd.choice(cand)["extreme"] = True
        jobs.append((pack, estimators[n % len(estimators)], seed + n, kw))
    results = common.pool().map(_job_trace, jobs, chunksize=1)
    traces = []
    for job, (status, val) in zip(jobs, results):
        if status == "ok":
            traces.extend(val)
        else:
            facts = {k: val[k] for k in ("clause", "estimator", "policy", "districtOffice", "exc")}
            run.violation("run_raised", facts, val)
    return traces


def trace_facts(tr, clause):
    sc = tr["sc"]
    kinds = sorted({u["kind"] for u in sc["units"]})
    return {
        "clause": clause,
        "estimator": sc.get("estimator"),
        "policy": sc["policy"],
        "districtOffice": sc["districtOffice"],
        "has_state_mismatch": "mismatch" in kinds,
    }


def validate_ledger_traces(run, traces, cfg):
    def on_reject(tr, clause, inv):
        facts = trace_facts(tr, clause)
        facts["invariant"] = inv
        run.violation(clause, facts, {"trace": tr})

    n = tracecheck.validate("Trace_Ledger", cfg, traces, on_reject, run=run, name=cfg)
    run.cov["traces_validated_against_impl"] += n
    if traces:
        t = traces[0]
        run.sample({"recorded_run": {"sc_units": t["sc"]["units"][:3], "obs_tables": {k: v[:2] for k, v in t["obs"]["tables"].items()}}})
    return n


# ---------------------------------------------------------------------------------------------------------------
# C01


def c01(tier, seed):
    run = report.Run("C01", tier, seed)
    run.assumptions += [
        "feed ids unique; numeric non-missing percent_expected_vote and counts",
        "unexpected unit ids follow the id format of the geographic unit type",
        "outlier models off in replayed runs (exercised by C09)",
        "TLC bounds: 2 units exhaustively over all kinds/keys/policies/offices/request lists (3 units in thorough); "
        "larger elections only through validated traces of random runs",
    ]
    mcfg = "MC_Ledger_quick.cfg" if tier == "quick" else "MC_Ledger_thorough.cfg"
    common.mc(run, "MC_Ledger", mcfg, timeout=1500)
    if tier == "thorough":
        common.mc(run, "MC_Ledger", "MC_Ledger_n3.cfg", timeout=2400)
    # the documented open finding F8 must be reproducible in the model of the code as found
    common.mc(run, "MC_Ledger", "MC_Ledger_F8.cfg", expect_violation="UnitVotesConserved", name="MC_Ledger_F8 (finding demo)")
    scens = export_scenarios(run)
    run.witness("exported_scenarios", len(scens))
    replay_exported(run, scens, 1400 if tier == "quick" else 12000, seed)
    traces = random_traces(run, 36 if tier == "quick" else 400, seed + 7, allow_mismatch=False)
    # a small separate batch contains units whose feed row names another state than their baseline row (F8 class)
    # (both policies, every estimator: under 'drop' such a feed row must be passed through as an unexpected unit)
    traces += random_traces(run, 6 if tier == "quick" else 24, seed + 9, pack_size=4, allow_mismatch=True, policies=["drop", "zero"])
    # the default configuration: outlier models on, more than 20 reporting units
    otr = random_traces(run, 9 if tier == "quick" else 60, seed + 13, allow_mismatch=False, outliers="both", pack_size=3, units=(4, 9), estimators=["bootstrap", "bootstrap", "gaussian"])
    for t in otr:
        if any(u.get("outlierT") and u.get("outlierM") for u in t["sc"]["units"]):
            run.witness("unit_flagged_by_both_outlier_models")
    traces += otr
    # two polls on one feed frame that the caller updates in place: the second poll's ledger is the second feed's
    rnd2 = random.Random(seed + 11)
    pjobs = []
    for n in range(6 if tier == "quick" else 30):
        pk = [ledger.random_scenario(rnd2, rnd2.randint(4, 9), ["drop", "zero"][n % 2], False, ledger.LEVEL_LISTS[n % 2], p_weird=0.4) for _ in range(4)]
        pjobs.append((pk, ESTIMATORS[n % 3], seed + 300 + n))
    for status, val in common.pool().map(_job_two_polls, pjobs, chunksize=1):
        if status == "ok":
            traces.extend(val)
            run.witness("second_poll_on_the_same_feed_frame")
        else:
            run.violation("run_raised", {k: val[k] for k in ("clause", "estimator", "policy", "districtOffice", "exc")}, val)
    for t in traces:
        kinds = {u["kind"] for u in t["sc"]["units"]}
        if kinds & {"unexpRep", "unexpNon"}:
            run.witness("trace_with_unexpected_unit")
        if "county_classification" in t["sc"]["levels"] and kinds & {"unexpRep", "unexpNon"}:
            run.witness("classification_level_with_unexpected_unit")
    validate_ledger_traces(run, traces, "Trace_Ledger_C01.cfg")
    run.finish(require_witnesses=["exported_scenarios", "trace_with_unexpected_unit", "classification_level_with_unexpected_unit", "second_poll_on_the_same_feed_frame", "unit_flagged_by_both_outlier_models"])


# ---------------------------------------------------------------------------------------------------------------
# C02


def _witness_traces(run, traces):
    for t in traces:
        est = t["sc"]["estimator"]
        for lv, rows in t["obs"]["tables"].items():
            for r in rows:
                if est != "bootstrap" and r["pred"] > r["counted"]:
                    run.witness(f"group_with_prediction_above_counted_{est}")
        for u, o in zip(t["sc"]["units"], t["obs"]["utable"]):
            if o.get("present") and o["reporting"] == 0 and o["cat"] == "expected" and est != "bootstrap":
                if o["votes"] > 0 and o["pred"] == o["votes"]:
                    run.witness("unit_prediction_at_floor")
                if o["votes"] > 0 and o["lower"] and o["lower"][0] == o["votes"]:
                    run.witness("unit_lower_bound_at_floor")
                if o["upper"] and o["upper"][-1] > o["pred"]:
                    run.witness("unit_interval_nondegenerate")


def c02(tier, seed):
    run = report.Run("C02", tier, seed)
    run.assumptions += [
        "unit-level predictions and bounds are inputs of the aggregation model (real regression output in traces, free small integers in TLC)",
        "bootstrap identities compared in thousandths with slack (#units + 1) for rounding of the logged values; no race calls in these runs (C07 covers calls)",
        "gaussian bounds are not sums of unit bounds (not claimed by the property); their row alignment is covered through the floor/finality clauses of C03",
    ]
    common.mc(run, "MC_Ledger", "MC_Ledger_outputs.cfg", timeout=1500)
    n = 120 if tier == "quick" else 900
    traces = random_traces(run, n, seed + 21, allow_mismatch=False)
    _witness_traces(run, traces)
    for t in traces:
        run.witness("trace_" + t["sc"]["estimator"])
        lv = t["sc"]["levels"]
        kinds = {u["kind"] for u in t["sc"]["units"]}
        if "county_fips" in lv and kinds & {"unexpRep", "unexpNon"} and kinds & {"part", "none0"}:
            run.witness("county_level_with_unexpected_and_nonreporting_units")
    validate_ledger_traces(run, traces, "Trace_Ledger_C02.cfg")
    run.finish(
        require_witnesses=[
            "trace_nonparametric",
            "trace_gaussian",
            "trace_bootstrap",
            "county_level_with_unexpected_and_nonreporting_units",
            "group_with_prediction_above_counted_nonparametric",
        ]
    )


# ---------------------------------------------------------------------------------------------------------------
# C03


def c03(tier, seed):
    run = report.Run("C03", tier, seed)
    run.assumptions += [
        "floors are observed at the outputs (no hook on the raw regression values): a removed floor is detected whenever a raw value falls below the counted votes in some recorded run; the witnesses 'unit_prediction_at_floor' / 'unit_lower_bound_at_floor' show such cases occurred",
    ]
    common.mc(run, "MC_Ledger", "MC_Ledger_outputs.cfg", timeout=1500)
    n = 45 if tier == "quick" else 450
    traces = random_traces(run, n, seed + 31, allow_mismatch=False)
    _witness_traces(run, traces)
    # fully reporting elections: every group has a zero-width interval at its counted votes
    full = []
    rnd = random.Random(seed + 33)
    jobs = []
    for k in range(6 if tier == "quick" else 40):
        pack = []
        policy = rnd.choice(["drop", "zero"])
        for _ in range(6):
            sc = ledger.random_scenario(rnd, rnd.randint(3, 9), policy, False, ledger.LEVEL_LISTS[1], p_weird=0.3)
            for i, u in enumerate(sc["units"]):
                if u["kind"] in ("part", "none0", "blkNon", "zeroNon", "unexpNon", "absent"):
                    sc["units"][i] = ledger.mk_unit(i + 1, "rep", u["bstate"] if u["bstate"] != ledger.NA else "S1", "c1", "k1", "d1", "c1", "d1", 4 * rnd.randrange(1, 300))
            pack.append(sc)
        jobs.append((pack, ESTIMATORS[k % 2], seed + 40 + k, {"ballast_non": 0}))
    for (status, val), job in zip(common.pool().map(_job_trace, jobs, chunksize=1), jobs):
        if status == "ok":
            full.extend(val)
            run.witness("fully_reporting_run")
        else:
            run.violation("run_raised", {k: val[k] for k in ("clause", "estimator", "policy", "exc")}, val)
    # large scenarios (one per run): counties with enough calibration units for their own gaussian model next to
    # counties that fall back to their state, and outstanding units whose partial counts are large, so that the
    # group-level floor of the gaussian estimator is active on rows whose model order differs from the group order
    big_jobs = []
    for k in range(4 if tier == "quick" else 24):
        sc = ledger.random_scenario(rnd, 170, rnd.choice(["drop", "zero"]), False, ["postal_code", "county_fips"], p_weird=0.25)
        for i, u in enumerate(sc["units"]):
            if u["inBase"]:
                big = rnd.random() < 0.75
                u["county"] = u["idCounty"] = ("c2" if big else rnd.choice(["c1", "c3"]))
                u["bstate"] = u["fstate"] = "S1" if rnd.random() < 0.8 else "S2"
        big_jobs.append(([sc], "gaussian", seed + 90 + k, {}))
    for (status, val), job in zip(common.pool().map(_job_trace, big_jobs, chunksize=1), big_jobs):
        if status == "ok":
            full.extend(val)
            run.witness("large_gaussian_scenario")
            for r in val[0]["obs"]["tables"].get("county_fips", []):
                if r["lower"] and r["lower"][0] == r["counted"] and r["pred"] > r["counted"]:
                    run.witness("gaussian_group_floor_active")
        else:
            run.violation("run_raised", {k: val[k] for k in ("clause", "estimator", "policy", "exc")}, val)
    validate_ledger_traces(run, traces + full, "Trace_Ledger_C03.cfg")
    run.finish(
        require_witnesses=["unit_prediction_at_floor", "unit_lower_bound_at_floor", "unit_interval_nondegenerate", "fully_reporting_run", "large_gaussian_scenario"]
    )


# ---------------------------------------------------------------------------------------------------------------
# C09


def c09(tier, seed):
    from harness import eligibility

    run = report.Run("C09", tier, seed)
    run.assumptions += [
        "the outlier models' own flags are oracle inputs (observed by wrapping _fit_outlier_detection_model); the spec decides when they are consulted and how a flag is used",
        "numeric boundary scenarios are replayed at component level (Estimandizer + CombinedDataHandler.get_units, the client's own call sequence); category placement end-to-end is checked on recorded client runs",
    ]
    res = tlc.run_tlc("MC_Eligibility", "MC_Eligibility_n1.cfg", workers=1, timeout=900, keep_stdout=False)
    run.add_tlc("MC_Eligibility_n1 (exhaustive, exported)", res)
    if res.violation:
        run.violation(f"tlc:{res.violation}", {"model": "MC_Eligibility_n1"}, {"trace": res.error_trace[:100]})
    scens = [v for t, v in res.printed if t == "SCEN"]
    if tier == "thorough":
        common.mc(run, "MC_Eligibility", "MC_Eligibility_n2.cfg", timeout=1800)
    groups = {}
    for s in scens:
        sc = s["sc"]
        k = (sc["policy"], sc["thr"], sc["limits"]["loN"], sc["limits"]["loD"], sc["isMargin"])
        groups.setdefault(k, []).append(s)
    jobs = []
    rnd = random.Random(seed)
    for k in sorted(groups, key=str):
        g = groups[k]
        rnd.shuffle(g)
        for i in range(0, len(g), 60):
            # every third pack goes through the public client (up to its get_units call) instead of the component
            jobs.append(([s["sc"] for s in g[i : i + 60]], [s["expect"] for s in g[i : i + 60]], len(jobs) % 3 == 0))
    results = common.pool().map(eligibility.job, jobs, chunksize=4)
    run.witness("packs_through_the_public_client", sum(1 for j in jobs if j[2]))
    for job, bads in zip(jobs, results):
        run.cov["scenarios_replayed_into_impl"] += len(job[0])
        for b in bads:
            run.violation(b["clause"], {k: b[k] for k in ("clause", "policy", "isMargin") if k in b}, b)
    run.cov["exhaustive"] = True
    for s in scens:
        n = s["sc"]["units"][0]["num"]
        if s["sc"]["units"][0]["tf"][0] * s["sc"]["limits"]["loD"] == s["sc"]["limits"]["loN"] * s["sc"]["units"][0]["tf"][1] and n["pres"] == "both":
            run.witness("turnout_factor_exactly_at_lower_limit")
        if n["pev"] == s["sc"]["thr"]:
            run.witness("expected_vote_exactly_at_threshold")
        if s["sc"]["units"][0]["bweights"] == 0 and n["pres"] != "feedOnly":
            run.witness("zero_denominator")
    if scens:
        run.sample({"numeric_scenario": scens[len(scens) // 2]})
    # recorded client runs: categories end-to-end, outlier models on, unit counts around the threshold of 20
    traces = random_traces(run, 30 if tier == "quick" else 300, seed + 51, allow_mismatch=False, outliers=True, pack_size=3, units=(3, 8))
    for t in traces:
        if t["obs"]["calledT"]:
            run.witness("turnout_outlier_model_consulted")
        if t["obs"]["calledM"]:
            run.witness("margin_outlier_model_consulted")
        if not t["obs"]["calledT"] and t["sc"]["optT"]:
            run.witness("outlier_model_on_but_too_few_units")
        if any(u["outlierT"] or u["outlierM"] for u in t["sc"]["units"]):
            run.witness("scenario_unit_flagged_by_outlier_model")
    validate_ledger_traces(run, traces, "Trace_Ledger_C09.cfg")
    run.finish(
        require_witnesses=[
            "turnout_factor_exactly_at_lower_limit",
            "expected_vote_exactly_at_threshold",
            "zero_denominator",
            "packs_through_the_public_client",
            "turnout_outlier_model_consulted",
            "margin_outlier_model_consulted",
            "outlier_model_on_but_too_few_units",
        ]
    )


# ---------------------------------------------------------------------------------------------------------------
# C11


def _extra_in_new_state(sc, extra=None):
    """the extra unit (last unit of sc unless given) lies in a postal code no other row of the run carries"""
    if extra is None:
        base = dict(sc, units=sc["units"][:-1])
        extra = sc["units"][-1]
    else:
        base = sc
    return extra["fstate"] not in ledger.states_with_units(base)


def _job_pair(arg):
    pack0, extras, estimator, seed = arg[:4]
    kw = arg[4] if len(arg) > 4 else {}
    try:
        return ("ok", ledger.pair_traces(pack0, extras, estimator, seed, PIS, **kw))
    except Exception as e:  # noqa: BLE001
        return (
            "exc",
            {
                "clause": "run_raised",
                "estimator": estimator,
                "exc": type(e).__name__,
                "msg": str(e)[:300],
                "policy": pack0[0]["policy"],
                "districtOffice": pack0[0]["districtOffice"],
                "levels": list(pack0[0]["levels"]),
                "tb": traceback.format_exc()[-1500:],
                "extras": extras,
            },
        )


def c11(tier, seed):
    run = report.Run("C11", tier, seed)
    run.assumptions += [
        "the extra unit's id is well-formed for the geographic unit type",
        "paired runs use the same row order for the common rows (the extra feed row is appended)",
        "bootstrap: the attributable groups' turnout / margin numerator move by the unit's two-party votes / margin (thousandths, slack #units+1); their interval bounds are model output and not constrained beyond C06",
    ]
    common.mc(run, "MC_LedgerDelta", "MC_LedgerDelta_quick.cfg" if tier == "quick" else "MC_LedgerDelta_thorough.cfg", timeout=2400)
    res = tlc.run_tlc("MC_LedgerDelta", "MC_LedgerDelta_export.cfg", workers=1, timeout=900, keep_stdout=False)
    run.add_tlc("MC_LedgerDelta_export", res)
    scens = [v["sc"] for t, v in res.printed if t == "SCEN"]
    rnd = random.Random(seed)
    n_rep = 600 if tier == "quick" else 9000
    if n_rep < len(scens):
        scens = rnd.sample(scens, n_rep)
    jobs = []
    # one run holds either extra units in states that have baseline units or extra units in states that have none:
    # under the bootstrap estimator a unit in a state without baseline units adds a contest (open finding F12)
    for n, pk in enumerate(pack_by_request(scens, 20, extra_key=_extra_in_new_state)):
        pack0, extras = [], []
        for sc in pk:
            sc0 = dict(sc)
            sc0["units"] = list(sc["units"][:-1])
            pack0.append(sc0)
            extras.append(sc["units"][-1])
        est = ESTIMATORS[n % 3]
        if _extra_in_new_state(pk[0]) and est == "bootstrap":
            # F12 class: keep one small bootstrap pack as a demonstration, run the others on the other estimators
            if any(j[2] == "bootstrap" and _extra_in_new_state(j[0][0], j[1][0]) for j in jobs):
                est = ESTIMATORS[n % 2]
            else:
                pack0, extras = pack0[:4], extras[:4]
        jobs.append((pack0, extras, est, seed + n))
    n_exported_jobs = len(jobs)
    # random larger pairs
    for n in range(30 if tier == "quick" else 300):
        policy = rnd.choice(["drop", "zero"])
        off = rnd.random() < 0.35
        levels = rnd.choice(ledger.LEVEL_LISTS)
        pack0 = [ledger.random_scenario(rnd, rnd.randint(3, 10), policy, off, levels) for _ in range(5)]
        new_state = rnd.random() < 0.25
        extras = []
        for sc in pack0:
            x = ledger.random_extra(rnd, new_state)
            if not new_state:
                known = sorted(ledger.states_with_units(sc) & {"S1", "S2"})
                x["fstate"] = rnd.choice(known) if known else x["fstate"]
            extras.append(x)
        if not new_state and any(_extra_in_new_state(sc, x) for sc, x in zip(pack0, extras)):
            continue
        jobs.append((pack0, extras, ESTIMATORS[n % 2] if new_state else ESTIMATORS[n % 3], seed + 1000 + n))
    # the end of the night: not a single outstanding unit anywhere (every estimator then takes its "nothing to model"
    # branch), and a late unexpected unit still only adds its own votes (seeded change C11_F)
    n_end = 0
    for n in range(6 if tier == "quick" else 40):
        policy = rnd.choice(["drop", "zero"])
        levels = rnd.choice(ledger.LEVEL_LISTS)
        pack0 = []
        for _ in range(4):
            sc = ledger.random_scenario(rnd, rnd.randint(3, 8), policy, False, levels)
            sc["units"] = [u for u in sc["units"] if u["rep"] and u["inFeed"] and u["kind"] not in ("unexpNon",) and not u.get("hamlet")]
            if sc["units"]:
                pack0.append(sc)
        if not pack0:
            continue
        extras = []
        for sc in pack0:
            x = ledger.random_extra(rnd, False)
            known = sorted(ledger.states_with_units(sc) & {"S1", "S2"})
            x["fstate"] = rnd.choice(known) if known else x["fstate"]
            x["rep"] = True
            extras.append(x)
        if any(_extra_in_new_state(sc, x) for sc, x in zip(pack0, extras)):
            continue
        jobs.append((pack0, extras, ("gaussian", "nonparametric", "gaussian")[n % 3], seed + 2000 + n, {"ballast_non": 0}))
        n_end += 1
    run.witness("pairs_without_any_outstanding_unit", n_end)
    results = common.pool().map(_job_pair, jobs, chunksize=1)
    traces = []
    for k, (job, (status, val)) in enumerate(zip(jobs, results)):
        if status == "ok":
            traces.extend(val)
            if k < n_exported_jobs:
                run.cov["scenarios_replayed_into_impl"] += len(val)
        else:
            facts = {f: val[f] for f in ("clause", "estimator", "policy", "districtOffice", "exc")}
            facts["levels_has_classification"] = "county_classification" in val["levels"]
            facts["extra_states"] = sorted({x["fstate"] for x in val["extras"]})
            run.violation("run_raised", facts, val)
    for t in traces:
        x = t["extra"]
        if _extra_in_new_state(t["sc0"], x):
            run.witness("extra_unit_in_state_without_baseline_units")
        if x["idCounty"] == "c9":
            run.witness("extra_unit_in_new_county")
        run.witness("pair_" + t["sc0"]["estimator"])

    def on_reject(tr, clause, inv):
        facts = {
            "clause": clause,
            "estimator": tr["sc0"]["estimator"],
            "policy": tr["sc0"]["policy"],
            "districtOffice": tr["sc0"]["districtOffice"],
            "extra_state_known": not _extra_in_new_state(tr["sc0"], tr["extra"]),
            "invariant": inv,
        }
        run.violation(clause, facts, {"trace": tr})

    # bootstrap: "adds its margin and two-party votes to numerator and denominator" also holds for the interval bounds
    # (not visible in the paired tables): groups with an unexpected unit, a reporting unit and injected draws through the
    # real aggregate functions, compared with the exact numerator / denominator model of BootstrapIntervals
    from harness import calls

    krnd = random.Random(seed + 77)
    known = [calls.known_part_record(krnd) for _ in range(300 if tier == "quick" else 3000)]

    def on_reject_known(tr, clause, inv):
        run.violation(clause, {"clause": clause, "estimator": "bootstrap", "kind": "known_part", "invariant": inv}, {"trace": tr})

    nk = tracecheck.validate("Trace_Bootstrap", "Trace_Bootstrap_C11.cfg", known, on_reject_known, run=run)
    run.cov["traces_validated_against_impl"] += nk
    run.witness("bootstrap_known_part_records", nk)
    n_ok = tracecheck.validate("Trace_LedgerDelta", "Trace_LedgerDelta.cfg", traces, on_reject, run=run)
    run.cov["traces_validated_against_impl"] += max(0, n_ok - run.cov["scenarios_replayed_into_impl"])
    if traces:
        run.sample({"extra_unit": traces[0]["extra"], "obs0_state": traces[0]["obs0"]["tables"].get("postal_code"), "obs1_state": traces[0]["obs1"]["tables"].get("postal_code")})
    run.finish(
        require_witnesses=["extra_unit_in_state_without_baseline_units", "extra_unit_in_new_county", "pair_nonparametric", "pair_gaussian", "pair_bootstrap", "bootstrap_known_part_records"]
    )


# ---------------------------------------------------------------------------------------------------------------
# C10


def _job_perturb(arg):
    pack0, estimator, seed = arg
    try:
        # every other run keeps all outstanding units above 50% expected vote, where the bootstrap estimator's
        # per-unit clip bounds depend on the unit's partial results
        return ("ok", ledger.perturb_traces(pack0, estimator, seed, PIS, random.Random(seed), high_pev=(seed % 2 == 0)))
    except Exception as e:  # noqa: BLE001
        return ("exc", {"clause": "run_raised", "estimator": estimator, "exc": type(e).__name__, "msg": str(e)[:300], "tb": traceback.format_exc()[-1500:]})


def _job_historical(arg):
    from harness import historical

    seed, estimator = arg
    return historical.record(seed, estimator)


def c10(tier, seed):
    run = report.Run("C10", tier, seed)
    run.assumptions += [
        "the information-flow model (Interference.tla) abstracts each pipeline step to the set of units whose counts it reads; the paired real runs bind it: every table row outside the perturbed unit's own row and its groups must be bit-identical",
        "the perturbed unit keeps its percent expected vote, baseline and features; only its counted votes change",
        "historical clause: nonparametric and gaussian estimators (the historical client cannot run the bootstrap estimator on the margin estimand at all: KeyError 'results_normalized_margin', see DESIGN observations)",
    ]
    common.mc(run, "Interference", "MC_Interference_FALSE.cfg", timeout=600)
    common.mc(run, "Interference", "MC_Interference_TRUE.cfg", timeout=600)
    common.mc(run, "Interference", "MC_Interference_leak.cfg", expect_violation="NonInterference", name="leak demo (a fit that reads every unit's counts)")
    rnd = random.Random(seed)
    jobs = []
    n_runs = 36 if tier == "quick" else 400
    for n in range(n_runs):
        policy = rnd.choice(["drop", "zero"])
        off = rnd.random() < 0.3
        levels = rnd.choice(ledger.LEVEL_LISTS)
        pack0 = [ledger.random_scenario(rnd, rnd.randint(4, 10), policy, off, levels, p_weird=0.6) for _ in range(5)]
        if n % 3 == 1:
            # the default configuration: outlier models on (more than 20 reporting units through the ballast state)
            for sc in pack0:
                sc["optT"] = sc["optM"] = True
        jobs.append((pack0, ESTIMATORS[n % 3] if n % 3 != 1 else ESTIMATORS[(n // 3) % 3], seed + n))
    # large gaussian scenarios: counties with their own calibration model next to counties that fall back, so that a
    # group-level floor taken from another group's partial counts would show
    for k in range(4 if tier == "quick" else 20):
        sc = ledger.random_scenario(rnd, 170, rnd.choice(["drop", "zero"]), False, ["postal_code", "county_fips"], p_weird=0.3)
        for u in sc["units"]:
            if u["inBase"]:
                u["county"] = u["idCounty"] = ("c2" if rnd.random() < 0.75 else rnd.choice(["c1", "c3"]))
                u["bstate"] = u["fstate"] = "S1" if rnd.random() < 0.8 else "S2"
        jobs.append(([sc], "gaussian", seed + 500 + 2 * k))
    traces = []
    for status, val in common.pool().map(_job_perturb, jobs, chunksize=1):
        if status == "ok":
            traces.extend(val)
        else:
            run.violation("run_raised", {k: val[k] for k in ("clause", "estimator", "exc")}, val)
    for t in traces:
        run.witness("perturbed_" + t["unit_kind"])
        run.witness("pair_" + t["sc"]["estimator"])
        if t["sc"].get("optT") and t["obs0"].get("calledT"):
            run.witness("pair_with_outlier_models_on")
    hjobs = [(seed + k, ["nonparametric", "gaussian"][k % 2]) for k in range(4 if tier == "quick" else 24)]
    for rec in common.pool().map(_job_historical, hjobs, chunksize=1):
        traces.append(rec)
        run.witness("historical_pair")

    def on_reject(tr, clause, inv):
        facts = {"clause": clause, "kind": tr["kind"], "invariant": inv}
        if tr["kind"] == "pair":
            facts.update(estimator=tr["sc"]["estimator"], unit_kind=tr["unit_kind"], policy=tr["sc"]["policy"])
        else:
            facts.update(estimator=tr["estimator"])
        run.violation(clause, facts, {"trace": tr})

    n_ok = tracecheck.validate("Trace_Interference", "Trace_Interference.cfg", traces, on_reject, run=run)
    run.cov["traces_validated_against_impl"] += n_ok
    pairs = [t for t in traces if t["kind"] == "pair"]
    if pairs:
        run.sample({"perturbed_unit": pairs[0]["sc"]["units"][pairs[0]["u"] - 1], "delta": pairs[0]["delta"]})
    run.sample({"historical": [t for t in traces if t["kind"] == "historical"][:1]})
    run.finish(
        require_witnesses=["perturbed_part", "perturbed_blkRep", "perturbed_zeroNon", "perturbed_unexpRep", "pair_nonparametric", "pair_gaussian", "pair_bootstrap", "pair_with_outlier_models_on", "historical_pair"]
    )
