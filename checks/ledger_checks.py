"""Checks decided by the Ledger specification: C01 (and, sharing the engine, C02 C03 C09 C11)."""
import itertools
import random
import traceback

from checks import common
from harness import ledger, report, tlc, tracecheck

ESTIMATORS = ["nonparametric", "gaussian", "bootstrap"]
PIS = (0.7, 0.9)


# ---------------------------------------------------------------------------------------------------------------
# pool jobs (top level so that they can be forked)


def _job_replay(arg):
    """spec -> code: run a pack of TLC-exported scenarios through the real client, compare with TLC's terminal state."""
    pack, expects, estimator, seed = arg
    try:
        c, res, meta, _ = ledger.run_pack(pack, estimator, seed, pis=PIS)
    except Exception as e:  # noqa: BLE001
        return [
            {
                "clause": "run_raised",
                "estimator": estimator,
                "exc": type(e).__name__,
                "msg": str(e)[:300],
                "policy": pack[0]["policy"],
                "districtOffice": pack[0]["districtOffice"],
                "levels": list(pack[0]["levels"]),
                "tb": traceback.format_exc()[-1500:],
                "pack": pack,
            }
        ]
    out = []
    try:
        proj = ledger.Projection(pack, res, meta, estimator, PIS)
        for p, (sc, exp) in enumerate(zip(pack, expects)):
            bad = compare_c01(proj, p, sc, exp)
            for b in bad:
                b.update(
                    estimator=estimator,
                    policy=sc["policy"],
                    districtOffice=sc["districtOffice"],
                    levels=list(sc["levels"]),
                    kinds=[u["kind"] for u in sc["units"]],
                    sc=sc,
                    expect=exp,
                )
            out.extend(bad)
    except ValueError as e:
        out.append({"clause": "projection_failed", "estimator": estimator, "msg": str(e)[:300], "pack": pack})
    return out


def compare_c01(proj, p, sc, exp):
    bad = []
    scale = proj.scale
    for idx, e in enumerate(exp["utable"]):
        i = idx + 1
        o = proj.unit(p, i)
        if e.get("absent"):
            if o["present"]:
                bad.append({"clause": "unit_row_absent", "unit": i, "observed": o})
            continue
        if not o["present"]:
            bad.append({"clause": "unit_row_present", "unit": i})
            continue
        if o["count"] != 1:
            bad.append({"clause": "unit_once", "unit": i, "observed": o})
        for f, ev in (("state", e["state"]), ("cat", e["cat"]), ("reporting", e["reporting"]), ("votes", e["votes"] * scale)):
            if o[f] != ev:
                bad.append({"clause": f"unit_{f}", "unit": i, "expected": ev, "observed": o[f]})
    for level, erows in exp["tables"].items():
        orows = {tuple(r["key"]): r for r in proj.table(p, level)}
        ekeys = {tuple(r["key"]) for r in erows}
        if set(orows) != ekeys:
            bad.append({"clause": "group_keys", "level": level, "expected": sorted(ekeys), "observed": sorted(orows)})
            continue
        for r in erows:
            o = orows[tuple(r["key"])]
            if o["counted"] != r["counted"] * scale:
                bad.append(
                    {"clause": "group_counted", "level": level, "key": r["key"], "expected": r["counted"] * scale, "observed": o["counted"]}
                )
            if o["reporting"] != r["reporting"]:
                bad.append(
                    {"clause": "group_reporting", "level": level, "key": r["key"], "expected": r["reporting"], "observed": o["reporting"]}
                )
    return bad


def _job_trace(arg):
    """code -> spec: run a pack of random scenarios, return one trace per scenario."""
    pack, estimator, seed = arg
    try:
        c, res, meta, _ = ledger.run_pack(pack, estimator, seed, pis=PIS)
        return ("ok", ledger.trace_of(pack, res, meta, estimator, PIS))
    except Exception as e:  # noqa: BLE001
        return (
            "exc",
            {
                "clause": "run_raised",
                "estimator": estimator,
                "exc": type(e).__name__,
                "msg": str(e)[:300],
                "policy": pack[0]["policy"],
                "districtOffice": pack[0]["districtOffice"],
                "levels": list(pack[0]["levels"]),
                "tb": traceback.format_exc()[-1500:],
                "pack": pack,
            },
        )


# ---------------------------------------------------------------------------------------------------------------


def export_scenarios(run, cfg="MC_Ledger_export.cfg"):
    res = tlc.run_tlc("MC_Ledger", cfg, workers=1, timeout=900, keep_stdout=False)
    run.add_tlc(cfg, res)
    if res.violation:
        run.violation(f"tlc:{res.violation}", {"model": cfg, "invariant": res.violation}, {"trace": res.error_trace[:100]})
    return [v for t, v in res.printed if t == "SCEN"]


def pack_by_request(scens, pack_size):
    """Group scenarios that can share one client run (same policy, office kind, request list)."""
    groups = {}
    for s in scens:
        sc = s["sc"] if "sc" in s else s
        k = (sc["policy"], sc["districtOffice"], tuple(sc["levels"]))
        groups.setdefault(k, []).append(s)
    packs = []
    for k in sorted(groups):
        g = groups[k]
        for i in range(0, len(g), pack_size):
            packs.append(g[i : i + pack_size])
    return packs


def replay_exported(run, scens, n_sample, seed, estimators=ESTIMATORS, pack_size=24):
    rnd = random.Random(seed)
    if n_sample < len(scens):
        # stratified by (kind pair) so that every combination of unit kinds stays represented
        by_kind = {}
        for s in scens:
            by_kind.setdefault(tuple(sorted(u["kind"] for u in s["sc"]["units"])), []).append(s)
        per = max(1, n_sample // len(by_kind))
        pick = []
        for k in sorted(by_kind):
            g = by_kind[k]
            pick.extend(rnd.sample(g, min(per, len(g))))
        scens = pick
    else:
        run.cov["exhaustive"] = True
    packs = pack_by_request(scens, pack_size)
    jobs = []
    for n, pk in enumerate(packs):
        est = estimators[n % len(estimators)]
        jobs.append(([s["sc"] for s in pk], [s["expect"] for s in pk], est, seed + n))
    results = common.pool().map(_job_replay, jobs, chunksize=1)
    for job, bads in zip(jobs, results):
        if len(run.violations) >= 40:
            break
        run.cov["scenarios_replayed_into_impl"] += len(job[0])
        for b in bads:
            facts = {k: b[k] for k in ("clause", "estimator", "policy", "districtOffice", "exc") if k in b}
            facts["levels_has_classification"] = "county_classification" in b.get("levels", [])
            if "kinds" in b:
                facts["kinds"] = b["kinds"]
            run.violation(b["clause"], facts, b)
    if scens:
        run.sample({"replayed_scenario": scens[0]["sc"], "expected_terminal_state": scens[0]["expect"]})
    return len(scens)


def random_traces(run, n_runs, seed, units=(4, 12), pack_size=6, allow_mismatch=True, estimators=ESTIMATORS):
    rnd = random.Random(seed)
    jobs = []
    for n in range(n_runs):
        policy = rnd.choice(["drop", "zero"])
        off = rnd.random() < 0.35
        levels = rnd.choice(ledger.LEVEL_LISTS)
        pack = [
            ledger.random_scenario(rnd, rnd.randint(*units), policy, off, levels, allow_mismatch=allow_mismatch)
            for _ in range(pack_size)
        ]
        jobs.append((pack, estimators[n % len(estimators)], seed + n))
    results = common.pool().map(_job_trace, jobs, chunksize=1)
    traces = []
    for job, (status, val) in zip(jobs, results):
        if status == "ok":
            traces.extend(val)
        else:
            facts = {k: val[k] for k in ("clause", "estimator", "policy", "districtOffice", "exc")}
            run.violation("run_raised", facts, val)
    return traces


def trace_facts(tr, clause):
    sc = tr["sc"]
    kinds = sorted({u["kind"] for u in sc["units"]})
    return {
        "clause": clause,
        "estimator": sc.get("estimator"),
        "policy": sc["policy"],
        "districtOffice": sc["districtOffice"],
        "has_state_mismatch": "mismatch" in kinds,
    }


def validate_ledger_traces(run, traces, cfg):
    def on_reject(tr, clause, inv):
        facts = trace_facts(tr, clause)
        facts["invariant"] = inv
        run.violation(clause, facts, {"trace": tr})

    n = tracecheck.validate("Trace_Ledger", cfg, traces, on_reject, run=run, name=cfg)
    run.cov["traces_validated_against_impl"] += n
    if traces:
        t = traces[0]
        run.sample({"recorded_run": {"sc_units": t["sc"]["units"][:3], "obs_tables": {k: v[:2] for k, v in t["obs"]["tables"].items()}}})
    return n


# ---------------------------------------------------------------------------------------------------------------
# C01


def c01(tier, seed):
    run = report.Run("C01", tier, seed)
    run.assumptions += [
        "feed ids unique; numeric non-missing percent_expected_vote and counts",
        "unexpected unit ids follow the id format of the geographic unit type",
        "outlier models off in replayed runs (exercised by C09)",
        "TLC bounds: 2 units exhaustively over all kinds/keys/policies/offices/request lists (3 units in thorough); "
        "larger elections only through validated traces of random runs",
    ]
    mcfg = "MC_Ledger_quick.cfg" if tier == "quick" else "MC_Ledger_thorough.cfg"
    common.mc(run, "MC_Ledger", mcfg, timeout=1500)
    if tier == "thorough":
        common.mc(run, "MC_Ledger", "MC_Ledger_n3.cfg", timeout=2400)
    # the documented open finding F8 must be reproducible in the model of the code as found
    common.mc(run, "MC_Ledger", "MC_Ledger_F8.cfg", expect_violation="UnitVotesConserved", name="MC_Ledger_F8 (finding demo)")
    scens = export_scenarios(run)
    run.witness("exported_scenarios", len(scens))
    replay_exported(run, scens, 1400 if tier == "quick" else 12000, seed)
    traces = random_traces(run, 36 if tier == "quick" else 400, seed + 7, allow_mismatch=False)
    # a small separate batch contains units whose feed row names another state than their baseline row (F8 class)
    traces += random_traces(run, 3 if tier == "quick" else 12, seed + 9, pack_size=4, allow_mismatch=True)
    for t in traces:
        kinds = {u["kind"] for u in t["sc"]["units"]}
        if kinds & {"unexpRep", "unexpNon"}:
            run.witness("trace_with_unexpected_unit")
        if "county_classification" in t["sc"]["levels"] and kinds & {"unexpRep", "unexpNon"}:
            run.witness("classification_level_with_unexpected_unit")
    validate_ledger_traces(run, traces, "Trace_Ledger_C01.cfg")
    run.finish(require_witnesses=["exported_scenarios", "trace_with_unexpected_unit", "classification_level_with_unexpected_unit"])
