"""Engine `controlb`: C12 (estimates are a deterministic function of the arguments) and C13 (what is reported for
one request does not depend on the rest of the request).  See docs/controlb.md.

Deciding is done by TLC: exhaustive models (MC_ClientHistory, MC_ClientLoops), and trace specifications
(Trace_ClientHistory, Trace_ClientLoops) that replay what the real ModelClient did through the same actions.
Python only materialises the histories / requests TLC chose, runs the real client and projects the results.
"""
import json
import os
import random
import time

from checks import common
from harness import report, tlc

# ---------------------------------------------------------------------------------------------------------------
# pool jobs (top level so that they can be forked)


def _job_histories(job):
    from harness import controlb as cb

    return cb.job_histories(job)


def _job_request(job):
    from harness import controlb as cb

    return cb.run_request(job)


def _job_f19(seed):
    from harness import controlb as cb

    return cb.job_f19(seed)


def _job_diff(job):
    from harness import controlb as cb

    return cb.diff_requests(job)



def _must_reject(run, module, cfg, traces, want_prefix, what):
    """Binding self-test: a corrupted copy of real traces must be rejected by the trace specification."""
    import tempfile

    fd, path = tempfile.mkstemp(prefix="selftest_", suffix=".json")
    with os.fdopen(fd, "w") as f:
        f.write(report.dumps(traces))
    try:
        res = tlc.run_tlc(module, cfg, workers=1, env={"TRACE_FILE": path}, timeout=600)
    finally:
        os.unlink(path)
    run.add_tlc(f"self-test: {what}", res, {"traces": len(traces)})
    fails = [v["clause"] for t, v in res.printed if t == "FAIL"]
    if res.violation is None or not any(c.startswith(want_prefix) for c in fails):
        raise tlc.MachineryError(f"binding self-test failed: {what} was not rejected ({res.violation}, {fails})")
    run.witness("corrupted_trace_rejected")


# ---------------------------------------------------------------------------------------------------------------
# C12


def _hkey(ev):
    return ("summary", ev["arg"], ev.get("sarg", "-")) if ev["op"] == "summary" else (ev["est"], ev["arg"])


def _patterns(hist):
    """Names of the call patterns of the brief that a TLC history exhibits."""
    out = set()
    ev = hist
    n = len(ev)
    for i in range(n):
        for j in range(i + 1, n):
            if _hkey(ev[i]) == _hkey(ev[j]) and ev[i]["op"] == "est":
                same_client = not any(ev[m]["op"] == "est" and ev[m]["fresh"] for m in range(i + 1, j + 1))
                out.add("repeat_same_client" if same_client else "repeat_fresh_client")
                between = ev[i + 1 : j]
                if any(b["op"] == "est" and _hkey(b) != _hkey(ev[i]) for b in between):
                    out.add("a_b_a")
                    if ev[i]["arg"] == "A" and any(b["op"] == "est" and b["arg"] == "B" for b in between):
                        out.add("default_args_before_and_after_own_lists")
                    if any(b["op"] == "est" and b["est"] != ev[i]["est"] for b in between):
                        out.add("other_estimator_in_between")
                    if same_client and any(b["op"] == "est" and b["est"] == ev[i]["est"] and b["arg"] != ev[i]["arg"] for b in between):
                        out.add("same_estimator_other_args_in_between_same_client")
    if any(e["op"] == "summary" for e in ev):
        out.add("summary_after_bootstrap")
        if sum(e["op"] == "summary" for e in ev) >= 2:
            out.add("summary_twice")
            sargs = [e.get("sarg") for e in ev if e["op"] == "summary"]
            if len(set(sargs)) >= 2:
                out.add("summary_with_other_weights_on_the_same_run")
        for i in range(n - 1):
            if ev[i]["op"] == "summary" and ev[i + 1]["op"] == "est":
                out.add("estimates_after_summary")
    if n >= 2 and ev[0]["op"] == "est" and ev[0]["arg"] == "B":
        out.add("own_lists_first")
    dflt = [e["est"] for e in ev if e["op"] == "est" and e["arg"] == "A"]
    if len(set(dflt)) >= 2:
        out.add("default_args_of_two_estimators_in_one_process")
    return out


C12_PATTERNS = [
    "repeat_same_client", "repeat_fresh_client", "a_b_a", "default_args_before_and_after_own_lists", "other_estimator_in_between",
    "same_estimator_other_args_in_between_same_client", "summary_after_bootstrap", "summary_twice", "estimates_after_summary", "own_lists_first",
    "default_args_of_two_estimators_in_one_process",
]


def _choose_histories(hists, n, rnd, patterns=None):
    """Seeded stratified sample of TLC's histories: for every estimator and every call pattern at least one history,
    the rest uniformly."""
    rnd.shuffle(hists)
    chosen, have = [], set()
    for est in ("nonparametric", "gaussian", "bootstrap"):
        for pat in (C12_PATTERNS if patterns is None else patterns):
            for h in hists:
                if h["id"] in have:
                    continue
                single = all(e["est"] == est for e in h["hist"])
                if pat in h["patterns"] and h["hist"][0]["est"] == est and (single or pat in ("other_estimator_in_between", "default_args_of_two_estimators_in_one_process")):
                    chosen.append(h)
                    have.add(h["id"])
                    break
    if patterns is None:
        # every history with two national summaries (8: run arguments x first weights x second weights): a summary must not
        # depend on the summaries asked for before it on the same run (seeded change C12_D)
        for h in hists:
            if "summary_twice" in h["patterns"] and h["id"] not in have:
                chosen.append(h)
                have.add(h["id"])
    for h in hists:
        if len(chosen) >= n:
            break
        if h["id"] not in have:
            chosen.append(h)
            have.add(h["id"])
    return chosen


def _cost(hist):
    c = {"nonparametric": 0.4, "gaussian": 1.0, "bootstrap": 1.3}
    return sum(c.get(e["est"], 0.1) if e["op"] == "est" else 0.05 for e in hist)


def _pack(items, njobs):
    """Greedy balanced packing of (world, history) items into njobs jobs."""
    bins = [[0.0, []] for _ in range(max(1, njobs))]
    for it in sorted(items, key=lambda x: -_cost(x[1])):
        b = min(bins, key=lambda x: x[0])
        b[0] += _cost(it[1])
        b[1].append(it)
    return [b[1] for b in bins if b[1]]


def c12(tier, seed):
    from harness import controlb as cb
    from harness import tracecheck

    run = report.Run("C12", tier, seed)
    quick = tier == "quick"
    rnd = random.Random(seed)
    run.assumptions += [
        "histories of at most 3 (thorough: TLC 4) calls over 2 argument tuples x 3 estimators x {same, fresh client} + national summaries; "
        "the two argument tuples are bound to concrete arguments per 'world' (harness/controlb.WORLD_TEMPLATES)",
        "the check never seeds anything; between calls the process-global numpy / random state is advanced with os entropy",
        "hash seeds compared: the checking process (PYTHONHASHSEED of its environment) and new interpreters with 0, 1, 12345, random",
        "digest = column names and order, dtypes, index and float.hex of every cell of every returned table (order of the dict of tables excluded)",
    ]
    # 1. the design: exhaustive over histories, and the documented counterexample of the code as found (F2)
    common.mc(run, "MC_ClientHistory", "MC_ClientHistory_quick.cfg" if quick else "MC_ClientHistory_thorough.cfg", workers=8, timeout=900)
    common.mc(run, "MC_ClientHistory", "MC_ClientHistory_demo_F2.cfg", expect_violation="Functional", workers=2, timeout=300,
              name="F2 demo (boot_sigma reads process entropy: Functional violated after two equal gaussian calls)")
    common.mc(run, "MC_ClientHistory", "MC_ClientHistory_demo_F17.cfg", expect_violation="Functional", workers=2, timeout=300,
              name="F17 demo (a margin run leaves its columns in the caller's frame; the next run on that frame keeps the turnout as weights)")
    common.mc(run, "MC_ClientHistory", "MC_ClientHistory_demo_feed.cfg", expect_violation="Functional", workers=2, timeout=300,
              name="demo: derived results columns written into the caller's feed frame make a later turnout run differ (FeedCopied = FALSE)")
    common.mc(run, "MC_ClientHistory", "MC_ClientHistory_demo_F19.cfg", expect_violation="Functional", workers=2, timeout=300,
              name="F19 demo (open finding): the outlier models read the margin column an earlier margin run left in the caller's baseline frame")
    common.mc(run, "MC_ClientHistory", "MC_ClientHistory_demo_summary.cfg", expect_violation="Functional", workers=4, timeout=300,
              name="design mutant demo: the weight-dependent part of the national summary kept on the model object")
    if not quick:
        for d in ("split", "boot", "reuse", "defaults", "setorder"):
            common.mc(run, "MC_ClientHistory", f"MC_ClientHistory_demo_{d}.cfg", expect_violation="Functional", workers=2, timeout=300,
                      name=f"design mutant demo: {d}")
    # 2. histories chosen by TLC
    res = tlc.run_tlc("MC_ClientHistory", "MC_ClientHistory_export.cfg", workers=1, timeout=600, keep_stdout=False)
    run.add_tlc("MC_ClientHistory_export.cfg", res, {"MaxCalls": 3})
    hists = []
    for i, (tag, v) in enumerate(p for p in res.printed if p[0] == "SCEN"):
        hists.append({"id": i, "hist": v["hist"], "classes": v["classes"], "patterns": _patterns(v["hist"])})
    if len(hists) < 500:
        raise tlc.MachineryError(f"history export produced only {len(hists)} histories")
    run.cov["histories_exported_by_tlc"] = len(hists)
    n_worlds = 2 if quick else 4
    worlds = [cb.world(w, seed) for w in range(n_worlds)]
    # per world, in the checking process' pool: quick a stratified sample; thorough EVERY history for worlds 0, 1
    n_main = [52, 52] if quick else [len(hists), len(hists), 150, 150]
    n_leg = 11 if quick else 30  # per world and hash-seed leg
    items_main, items_leg = [], {h: [] for h in ("0", "1", "12345", "random")}
    for w in worlds:
        pick = hists if n_main[w["wid"]] >= len(hists) else _choose_histories(list(hists), n_main[w["wid"]], rnd)
        items_main += [(w, h["hist"], h["classes"]) for h in pick]
        for leg in items_leg:
            pick = _choose_histories(list(hists), n_leg, rnd, patterns=["a_b_a", "summary_after_bootstrap"])
            items_leg[leg] += [(w, h["hist"], h["classes"]) for h in pick]
    # one very large single-state election (more than a thousand gaussian calibration units in one group), the same
    # gaussian request twice on one client and once more on a fresh one
    big = dict(cb.world(len(worlds), seed), big=True)
    big_hist = [{"op": "est", "est": "gaussian", "arg": "A", "sarg": "-", "fresh": False}, {"op": "est", "est": "gaussian", "arg": "A", "sarg": "-", "fresh": False},
                {"op": "est", "est": "gaussian", "arg": "A", "sarg": "-", "fresh": True}]
    items_main.append((big, big_hist, [1, 1, 1]))
    worlds.append(big)
    if not quick:
        run.cov["exhaustive"] = True  # every exported history is executed in the checking process for worlds 0 and 1
    classes = {}

    def strip(items):
        out = []
        for w, h, c in items:
            classes[(w["wid"], json.dumps(h, sort_keys=True))] = c
            out.append((w, h))
        return out

    # 3. the other interpreters first (they run while the pool of this process works)
    legs = []
    for leg, items in items_leg.items():
        jobs = [{"label": f"hashseed={leg}#{j}", "hash": leg, "items": it} for j, it in enumerate(_pack(strip(items), 4))]
        legs.append((leg, cb.spawn_hashseed_leg(leg, jobs, nproc=4)))
    main_hash = os.environ.get("PYTHONHASHSEED", "unset")
    jobs = [{"label": f"pool#{j}", "hash": "main:" + main_hash, "items": it} for j, it in enumerate(_pack(strip(items_main), 48 if quick else 160))]
    results = list(common.pool().map(_job_histories, jobs, chunksize=1))
    probes = {"main:" + main_hash: {r["probe"] for r in results}}
    for leg, (p, inp, outp) in legs:
        try:
            out, _ = p.communicate(timeout=1500)
        except Exception:  # noqa: BLE001
            p.kill()
            raise tlc.MachineryError(f"hash-seed leg {leg} timed out")
        if p.returncode != 0 or not os.path.exists(outp):
            for path in (inp, outp):
                if os.path.exists(path):
                    os.unlink(path)
            raise tlc.MachineryError(f"hash-seed leg {leg} failed (rc={p.returncode}):\n{(out or '')[-2000:]}")
        with open(outp) as f:
            d = json.load(f)
        for path in (inp, outp):
            if os.path.exists(path):
                os.unlink(path)
        want = os.environ.get("VERIF_REPO_SRC", "/repo/src")
        if d["repo_src"] != want:
            raise tlc.MachineryError(f"hash-seed leg {leg} imported elexmodel from {d['repo_src']}, expected {want}")
        for r in d["results"]:
            if leg != "random" and r["hashseed_env"] != leg:
                raise tlc.MachineryError(f"leg {leg} ran with PYTHONHASHSEED={r['hashseed_env']}")
        probes[leg] = {r["probe"] for r in d["results"]}
        results += d["results"]
    if len({min(v) for k, v in probes.items() if k in ("0", "1", "12345")}) == 3 and all(len(v) == 1 for v in probes.values()):
        run.witness("string_hashes_differ_between_legs")
    run.cov["string_hash_probe_per_leg"] = {k: sorted(v) for k, v in probes.items()}
    # 4. spec -> code: within every history, calls TLC puts in one class returned identical tables
    n_calls, raised = 0, []
    tok_by_key = {}
    for r in results:
        for rn in r["runs"]:
            cls = classes[(rn["wid"], json.dumps(rn["hist"], sort_keys=True))]
            obs = rn["obs"]
            n_calls += len(obs)
            for p in _patterns(rn["hist"]):
                run.witness(p)
            for i, o in enumerate(obs):
                if o["tok"].startswith("raised:"):
                    raised.append((rn["wid"], o["est"], o["arg"], o["tabs"].get("exception")))
                tok_by_key.setdefault((rn["wid"], _hkey(o)), {}).setdefault(o["tok"], set()).add(r["hash"])
                j = cls[i] - 1
                if obs[j]["tok"] != o["tok"]:
                    differ = sorted(t for t in set(obs[j]["tabs"]) | set(o["tabs"]) if obs[j]["tabs"].get(t) != o["tabs"].get(t))
                    run.violation(
                        "replay:calls_of_one_class_differ",
                        {"clause": "replay:calls_of_one_class_differ", "op": o["op"], "estimator": o["est"], "arg": o["arg"], "leg": r["hash"]},
                        {"world": rn["wid"], "history": rn["hist"], "tlc_classes": cls, "tokens": [x["tok"] for x in obs],
                         "tables_that_differ": differ, "first": obs[j]["tabs"], "later": o["tabs"]},
                    )
            run.cov["scenarios_replayed_into_impl"] += 1
    run.cov["calls_executed"] = n_calls
    for (wid, key), toks in tok_by_key.items():
        legs_seen = set().union(*toks.values())
        if len(legs_seen) >= 4:
            run.witness("same_arguments_under_4_or_more_hash_seed_legs")
    for wid in {w["wid"] for w in worlds}:
        for est in ("nonparametric", "gaussian", "bootstrap"):
            a, b = tok_by_key.get((wid, (est, "A")), {}), tok_by_key.get((wid, (est, "B")), {})
            if a and b and not (set(a) & set(b)):
                run.witness("digest_distinguishes_argument_tuples")
    # 5. code -> spec: all processes and legs of a world merged into one trace
    traces = cb.history_traces(results, worlds)
    side = {t["wid"]: t["events"] for t in traces}
    slim = [{"wid": t["wid"], "events": [{k: v for k, v in e.items() if k != "label"} for e in t["events"]]} for t in traces]

    def on_reject(tr, clause, inv):
        evs = side[tr["wid"]]
        # find the event TLC stopped at: the first one whose token differs from the first token of its key
        first, bad = {}, None
        for e in evs:
            if e["op"] == "process":
                continue
            kk = _hkey(e)
            if kk in first and first[kk]["tok"] != e["tok"]:
                bad = (first[kk], e)
                break
            first.setdefault(kk, e)
        facts = {"clause": clause, "invariant": inv}
        if bad:
            facts.update({"op": bad[1]["op"], "estimator": bad[1]["est"], "arg": bad[1]["arg"]})
        run.violation(clause, facts, {"world": tr["wid"], "first_call": bad[0] if bad else None, "differing_call": bad[1] if bad else None,
                                      "world_template": cb.WORLD_TEMPLATES[tr["wid"] % len(cb.WORLD_TEMPLATES)]})

    n_ok = tracecheck.validate("Trace_ClientHistory", "Trace_ClientHistory.cfg", slim, on_reject, run=run, chunk=4000, timeout=1200)
    run.cov["traces_validated_against_impl"] += n_ok
    run.cov["trace_events"] = sum(len(t["events"]) for t in traces)
    if not run.violations:
        # binding self-test: flip the token of the last call of a short prefix that repeats an earlier argument tuple
        evs, seen_keys, cut = slim[0]["events"], set(), None
        for i, e in enumerate(evs):
            if e["op"] == "process":
                continue
            if _hkey(e) in seen_keys:
                cut = i
                break
            seen_keys.add(_hkey(e))
        if cut is None:
            raise tlc.MachineryError("self-test: no repeated argument tuple in the first trace")
        bad = [dict(x) for x in evs[: cut + 1]]
        bad[-1]["tok"] = "0000000000000000"
        _must_reject(run, "Trace_ClientHistory", "Trace_ClientHistory.cfg", [{"wid": slim[0]["wid"], "events": bad}], "equal_arguments_differ", "one token of a repeated call flipped")
    if raised and not run.violations:
        raise tlc.MachineryError(f"{len(raised)} calls of the real client raised, e.g. {raised[:3]}")
    run.sample({"history": results[0]["runs"][0]["hist"], "tokens": [o["tok"] for o in results[0]["runs"][0]["obs"]], "leg": results[0]["hash"]})
    run.sample({"trace_head": traces[0]["events"][:5]})
    # open finding F19 (ClientHistory switch OutlierColumnsOwn): the histories above run with the outlier models off; here
    # the same turnout request with the DEFAULT outlier models, on a fresh baseline frame and on the frame object an
    # earlier margin run was handed.  A difference is the listed finding (KNOWN-FINDING), anything else about these
    # runs (an exception, a difference without the margin column having been left behind) is not.
    for r in common.pool().map(_job_f19, [11, 12, 15] if quick else list(range(6, 30)), chunksize=1):
        run.cov["scenarios_replayed_into_impl"] += 1
        if r["differs"]:
            left = "baseline_normalized_margin" in r["columns_left_in_the_callers_frame"]
            run.violation("equal_arguments_differ_after_a_margin_run_on_the_same_baseline_frame",
                          {"clause": "equal_arguments_differ_after_a_margin_run_on_the_same_baseline_frame", "outlier_models_on": True,
                           "earlier_run": "margin" if left else "margin (no column left behind)"}, r)
        else:
            run.witness("shared_baseline_frame_with_outlier_models_agrees")
    run.finish(
        require_witnesses=[
            "repeat_same_client", "repeat_fresh_client", "a_b_a", "default_args_before_and_after_own_lists", "other_estimator_in_between",
            "same_estimator_other_args_in_between_same_client", "summary_after_bootstrap", "estimates_after_summary",
            "summary_with_other_weights_on_the_same_run", "default_args_of_two_estimators_in_one_process", "string_hashes_differ_between_legs", "same_arguments_under_4_or_more_hash_seed_legs", "digest_distinguishes_argument_tuples",
            "corrupted_trace_rejected",
        ]
    )


# ---------------------------------------------------------------------------------------------------------------
# C13

SIM = {  # estimator -> (cfg, number of simulated requests quick / thorough)
    "nonparametric": ("MC_ClientLoops_sim_nonparametric", 160, 1500),
    "gaussian": ("MC_ClientLoops_sim_gaussian", 100, 1000),
    "bootstrap": ("MC_ClientLoops_sim_bootstrap", 72, 600),
}


def _req_cost(req):
    ne, na, ng = len(req["ests"]), len(req["alphas"]), len([g for g in req["aggs"] if g != "unit"])
    if req["estimator"] == "bootstrap":
        return 1.0 + 0.05 * na * (1 + ng)
    per = 0.06 if req["estimator"] == "nonparametric" else 0.12
    return 0.1 + ne * (0.05 + per * na * (1 + (ng if req["estimator"] == "gaussian" else 0.2 * ng)))


def c13(tier, seed):
    from harness import tracecheck

    run = report.Run("C13", tier, seed)
    quick = tier == "quick"
    run.assumptions += [
        "one election per (estimator, office kind) with a complete feed (every baseline unit has a feed row; 40% of them below the reporting threshold); "
        "48 units, 3 states; state office (G, precinct) and district office (H, precinct-district)",
        "requests are drawn by TLC's simulator from: every non-empty arrangement of {turnout, dem, gop} (bootstrap: margin), of the levels {0.5, 0.7, 0.9} "
        "and of {postal_code, county_fips, county_classification, district, unit} (quick: at most 2 levels, 3 aggregates per request)",
        "a cell = one non-key column of one table; its token is the bit pattern of its values by row key (row order and integer/float dtype are not part of a cell)",
        "an interval level has the same calibration split whatever else is requested; a split that depends on the level alone is not an interference (not demanded)",
    ]
    # 1. the design
    common.mc(run, "MC_ClientLoops", "MC_ClientLoops_quick.cfg" if quick else "MC_ClientLoops_thorough.cfg", workers=16, timeout=1500)
    demos = [("F5", "StableKeys"), ("district", "StableKeys"), ("looporder", "ReadsOwn")]
    if not quick:
        demos += [("singleslot", "ReadsOwn"), ("fixedalpha", "ReadsOwn"), ("predfirst", "NoStaleColumn"), ("noreporting", "StableKeys")]
    for d, inv in demos:
        common.mc(run, "MC_ClientLoops", f"MC_ClientLoops_demo_{d}.cfg", expect_violation=inv, workers=2, timeout=300, name=f"demo {d}: {inv} violated")
    # 2. request sets chosen by TLC (simulation over the large universe), one election per group
    eseed = (seed * 17 + 3) % 100000
    jobs = []
    for est, (cfg, nq, nt) in SIM.items():
        res = tlc.run_tlc(
            "MC_ClientLoops", cfg + ("_quick.cfg" if quick else ".cfg"), workers=1, timeout=900,
            simulate=f"num={nq if quick else nt}", depth=120, seed=seed % 100000 + 1, keep_stdout=False,
        )
        run.add_tlc(cfg, res, {"simulated_requests": nq if quick else nt})
        seen = set()
        for tag, v in res.printed:
            if tag != "SCEN":
                continue
            key = json.dumps(v["req"], sort_keys=True)
            if key in seen:
                continue
            seen.add(key)
            jobs.append({"req": v["req"], "eseed": eseed, "ncells": v["ncells"]})
        if len(seen) < (nq if quick else nt) // 3:
            raise tlc.MachineryError(f"simulation export for {est} produced only {len(seen)} distinct requests")
    run.cov["requests_chosen_by_tlc"] = len(jobs)
    order = sorted(range(len(jobs)), key=lambda i: -_req_cost(jobs[i]["req"]))
    recs = [None] * len(jobs)
    for i, r in zip(order, common.pool().map(_job_request, [jobs[i] for i in order], chunksize=1)):
        recs[i] = r
    run.cov["scenarios_replayed_into_impl"] += len(recs)
    run.cov["real_run_seconds"] = round(sum(r["wall"] for r in recs), 1)
    # 3. witnesses: every kind of variation was really compared
    by_cell = {}
    for r in recs:
        q = r["req"]
        if r["status"] != "ok":
            continue
        for c in r["cells"]:
            by_cell.setdefault(c, []).append(q)
        if q["district"] and len(q["ests"]) >= 2 and any(g not in ("district", "unit") for g in q["aggs"]):
            run.witness("district_office_with_several_estimands")
        if len(q["ests"]) >= 2 and "unit" in q["aggs"]:
            run.witness("unit_table_with_several_estimands")
    for c, qs in by_cell.items():
        if len(qs) < 2:
            continue
        run.witness("cell_in_two_or_more_requests")
        if len({len(q["ests"]) for q in qs}) >= 2:
            run.witness("cell_with_different_numbers_of_estimands")
        if len({tuple(sorted(q["alphas"])) for q in qs}) >= 2:
            run.witness("cell_with_different_interval_levels")
        if len({tuple(sorted(q["aggs"])) for q in qs}) >= 2:
            run.witness("cell_with_different_aggregate_levels")
        if len({tuple(q["alphas"]) for q in qs}) > len({tuple(sorted(q["alphas"])) for q in qs}) or len({tuple(q["aggs"]) for q in qs}) > len({tuple(sorted(q["aggs"])) for q in qs}):
            run.witness("cell_with_different_orders")
        if c.startswith("gaussian") and ("lower_" in c or "upper_" in c) and "/unit/" not in c:
            run.witness("gaussian_aggregate_interval_cell_compared")
    run.cov["cells_compared"] = sum(1 for qs in by_cell.values() if len(qs) >= 2)
    # 4. code -> spec
    slim = [{k: v for k, v in r.items() if k not in ("wall", "eseed")} for r in recs]
    index = {id(s): i for i, s in enumerate(slim)}

    def on_reject(tr, clause, inv):
        q = tr["req"]
        facts = {"clause": clause, "invariant": inv, "estimator": q["estimator"], "district_office": bool(q["district"]), "n_estimands": len(q["ests"])}
        detail = {"request": q, "status": tr["status"]}
        if clause in ("stable_keys", "reported_columns", "tables_returned"):
            detail["columns"] = {l: ["%s%s" % (c["n"] if c["t"] != "val" else f"{c['n']}_{c['a']}_{c['e']}", "_" + c["s"] if c["s"] else "") for c in cols] for l, cols in tr["tables"].items()}
            facts["suffixed"] = sorted({c["n"] for cols in tr["tables"].values() for c in cols if c["s"]})
        if clause == "cell_functional":
            i = index.get(id(tr))
            for other in slim[: i if i is not None else 0]:
                diff = sorted(c for c in set(other["cells"]) & set(tr["cells"]) if other["cells"][c] != tr["cells"][c])
                if diff:
                    detail["first_request_with_the_cell"] = other["req"]
                    detail["cells_that_differ"] = diff[:30]
                    facts["example_cell"] = diff[0].split("/", 1)[1]
                    break
        if clause.startswith(("loop_", "cache_", "aggregate_", "unexpected_cache", "calls_after", "loop_nest")):
            detail["calls"] = tr["events"][:60]
        run.violation(clause, facts, detail)

    # one batch (memo keys carry the group); a rejected request is reported, removed, and the rest validated again
    groups = sorted({s["group"] for s in slim})
    slim.sort(key=lambda s: s["group"])
    index = {id(s): i for i, s in enumerate(slim)}
    n_ok = tracecheck.validate("Trace_ClientLoops", "Trace_ClientLoops.cfg", slim, on_reject, run=run, chunk=5000, timeout=1500, max_rejects=10)
    run.cov["traces_validated_against_impl"] += n_ok
    run.cov["groups"] = groups
    if not run.violations:
        # binding self-test: (a) one cell token of a request changed, (b) two recorded calls swapped
        g0 = [x for x in slim if x["group"] == groups[0]]
        pair = None
        for j in range(1, len(g0)):
            shared = sorted(set(g0[0]["cells"]) & set(g0[j]["cells"]))
            if shared:
                pair = (g0[0], g0[j], shared[0])
                break
        if pair is None:
            raise tlc.MachineryError("self-test: no two requests of a group share a cell")
        b = json.loads(report.dumps(pair[1]))
        b["cells"][pair[2]] = "000000000000"
        _must_reject(run, "Trace_ClientLoops", "Trace_ClientLoops.cfg", [pair[0], b], "cell_functional", "one cell token changed")
        # (the order of the recorded calls is mechanism: a deviation is advisory drift, not a violation - see the trace spec)
        multi = next((x for x in slim if any(len(cols) > 3 for cols in x["tables"].values())), None)
        if multi is not None:
            b = json.loads(report.dumps(multi))
            lvl = next(l for l, cols in b["tables"].items() if len(cols) > 3)
            cols = b["tables"][lvl]
            k0 = next((k for k, c in enumerate(cols) if isinstance(c, dict) and c.get("s") == ""), 0)
            if isinstance(cols[k0], dict):
                cols[k0] = dict(cols[k0], s="_x")
            else:
                cols[k0] = str(cols[k0]) + "_x"
            _must_reject(run, "Trace_ClientLoops", "Trace_ClientLoops.cfg", [b], "stable_keys", "a key column suffixed")
    big = max(recs, key=lambda r: len(r["cells"]))
    run.sample({"request": big["req"], "calls": len(big["events"]), "cells": len(big["cells"]), "seconds": big["wall"]})
    run.sample({"calls_head": recs[0]["events"][:6], "request": recs[0]["req"]})
    run.finish(
        require_witnesses=[
            "cell_in_two_or_more_requests", "cell_with_different_numbers_of_estimands", "cell_with_different_interval_levels",
            "cell_with_different_aggregate_levels", "cell_with_different_orders", "gaussian_aggregate_interval_cell_compared",
            "district_office_with_several_estimands", "unit_table_with_several_estimands", "corrupted_trace_rejected",
        ]
    )
