"""Checks decided by RaceCalls / NationalSummary / BootstrapIntervals: C07, C08, C06."""
import random
import traceback

import numpy as np

from checks import common
from harness import report, tlc

ALPHAS = (0.7, 0.9)  # with B = 3 both use the quantile levels 0 and 2/3 (see harness/calls.py)


# ---------------------------------------------------------------------------------------------------------------
# C07 replay jobs


def _names(k, district):
    return (f"R{k:05d}_1", f"R{k:05d}_2") if district else (f"R{k:05d}A", f"R{k:05d}B")


def _job_calls_ok(arg):
    """Replay a batch of non-error decision-table rows in ONE injected model (every row has its own contests)."""
    rows, district = arg
    from harness import calls

    contests, preds, draws, lhs, rhs, stop, index = [], [], [], [], [], [], []
    for k, row in rows:
        sc = row["sc"]
        nm = dict(zip(sorted(sc["p"]), _names(k, district)))
        for c in sorted(sc["p"]):
            contests.append(nm[c])
            preds.append(sc["p"][c])
            draws.append([sc["b"][c], sc["a"][c], sc["a"][c]])
            index.append((k, c))
        lhs += [nm[c] for c in sc["lhs"]]
        rhs += [nm[c] for c in sc["rhs"]]
        stop += [nm[c] for c in sc["stop"]]
    bad = []
    try:
        df, out, model = calls.run_top_level(contests, preds, draws, alphas=ALPHAS, lhs=lhs, rhs=rhs, stop=stop, district=district)
    except Exception as e:  # noqa: BLE001
        return [{"clause": "raised_on_valid_lists", "exc": type(e).__name__, "msg": str(e)[:300], "tb": traceback.format_exc()[-1200:], "district": district}]
    key_cols = ["postal_code", "district"] if district else ["postal_code"]
    got_names = ["_".join(str(x) for x in t) for t in df[key_cols].itertuples(index=False)]
    pos = {n: i for i, n in enumerate(got_names)}
    rowmap = dict(rows)
    for (k, c), name in zip(index, contests):
        row = rowmap[k]
        if name not in pos:
            bad.append({"clause": "contest_missing", "row": row})
            continue
        i = pos[name]
        exp = (row["pred"][c], row["lower"][c], row["upper"][c])
        p = calls.exact_milli(df["pred_margin"].iloc[i])
        for a in ALPHAS:
            lo, hi = calls.exact_milli(out[a][0][i]), calls.exact_milli(out[a][1][i])
            if (p, lo, hi) != exp:
                bad.append(
                    {
                        "clause": "decision_table_row",
                        "alpha": a,
                        "district": district,
                        "contest": c,
                        "expected": {"pred": exp[0], "lower": exp[1], "upper": exp[2]},
                        "observed": {"pred": df["pred_margin"].iloc[i], "lower": out[a][0][i], "upper": out[a][1][i]},
                        "row": row,
                    }
                )
    return bad


def _job_calls_err(arg):
    """Error rows: contradictory or unknown names must raise the dedicated exception and produce no estimate."""
    rows, district = arg
    from elexmodel.models.BootstrapElectionModel import BootstrapElectionModelException

    from harness import calls

    bad = []
    for k, row in rows:
        sc = row["sc"]
        nm = dict(zip(sorted(sc["p"]), _names(k, district)))
        tr = lambda xs: [nm.get(c, "QQ_9" if district else "QQ") for c in xs]  # noqa: E731
        contests = [nm[c] for c in sorted(sc["p"])]
        preds = [sc["p"][c] for c in sorted(sc["p"])]
        draws = [[sc["b"][c], sc["a"][c], sc["a"][c]] for c in sorted(sc["p"])]
        try:
            calls.run_top_level(contests, preds, draws, alphas=ALPHAS, lhs=tr(sc["lhs"]), rhs=tr(sc["rhs"]), stop=tr(sc["stop"]), district=district)
            bad.append({"clause": "contradictory_lists_accepted", "district": district, "row": row})
        except BootstrapElectionModelException:
            pass
        except Exception as e:  # noqa: BLE001
            bad.append({"clause": "wrong_exception", "exc": type(e).__name__, "msg": str(e)[:200], "row": row, "district": district})
    return bad


def export(run, module, cfg, timeout=900):
    res = tlc.run_tlc(module, cfg, workers=1, timeout=timeout, keep_stdout=False)
    run.add_tlc(cfg, res)
    if res.violation:
        run.violation(f"tlc:{res.violation}", {"model": cfg, "invariant": res.violation}, {"trace": res.error_trace[:120]})
    return [v for t, v in res.printed if t == "SCEN"]


def c07(tier, seed):
    run = report.Run("C07", tier, seed)
    run.assumptions += [
        "bootstrap state injected at the model-object boundary for the decision-table replay (B = 3 draws (b, a, a): quantile levels 0 and 2/3 are order statistics, no interpolation error); end-to-end behaviour is covered by the recorded client runs",
        "margins in thousandths; exact ties at 0 are bit-exact by construction",
    ]
    rows1 = export(run, "MC_RaceCalls", "MC_RaceCalls_one.cfg")
    rows2 = export(run, "MC_RaceCalls", "MC_RaceCalls_two.cfg")
    rnd = random.Random(seed)
    if tier == "quick":
        rows2 = rnd.sample(rows2, min(len(rows2), 4000))
    else:
        run.cov["exhaustive"] = True
    jobs_ok, jobs_err = [], []
    for district in (False, True):
        for rows in (rows1, rows2):
            ok = [(k, r) for k, r in enumerate(rows) if not r["error"]]
            er = [(k, r) for k, r in enumerate(rows) if r["error"]]
            for i in range(0, len(ok), 150):
                jobs_ok.append((ok[i : i + 150], district))
            for i in range(0, len(er), 100):
                jobs_err.append((er[i : i + 100], district))
    for r in rows1:
        c = "AA"
        sc = r["sc"]
        if not r["error"]:
            if c in sc["lhs"] and sc["p"][c] < 5:
                run.witness("called_left_with_prediction_below_threshold")
            if c in sc["rhs"] and r["upper"][c] == -5 and sc["p"][c] - sc["b"][c] > 0:
                run.witness("called_right_upper_bound_overridden")
            if c in sc["stop"] and not (set(sc["lhs"]) | set(sc["rhs"])) and r["lower"][c] == -5:
                run.witness("stop_list_pulled_lower_bound_below_zero")
            if c in sc["stop"] and c in sc["lhs"]:
                run.witness("called_and_stopped")
        else:
            run.witness("contradictory_lists")
    if any("QQ" in (r["sc"]["lhs"] + r["sc"]["rhs"] + r["sc"]["stop"]) for r in rows2):
        run.witness("unknown_contest_named")
    for bads, job in zip(common.pool().map(_job_calls_ok, jobs_ok, chunksize=1), jobs_ok):
        run.cov["scenarios_replayed_into_impl"] += len(job[0])
        for b in bads:
            run.violation(b["clause"], {k: b[k] for k in ("clause", "district", "alpha", "exc") if k in b}, b)
    for bads, job in zip(common.pool().map(_job_calls_err, jobs_err, chunksize=1), jobs_err):
        run.cov["scenarios_replayed_into_impl"] += len(job[0])
        for b in bads:
            run.violation(b["clause"], {k: b[k] for k in ("clause", "district", "exc") if k in b}, b)
    run.sample({"decision_table_row": rows1[len(rows1) // 3]})
    run.sample({"two_contest_row": rows2[len(rows2) // 2]})
    bootstrap_client_traces(run, tier, seed, "Trace_Bootstrap_C07.cfg")
    run.finish(
        require_witnesses=[
            "called_left_with_prediction_below_threshold",
            "called_right_upper_bound_overridden",
            "stop_list_pulled_lower_bound_below_zero",
            "called_and_stopped",
            "contradictory_lists",
            "unknown_contest_named",
        ]
    )


def bootstrap_client_traces(run, tier, seed, cfg):
    """code -> spec on real bootstrap client runs (defined below once Trace_Bootstrap exists)."""
    return 0
