"""Checks decided by RaceCalls / NationalSummary / BootstrapIntervals: C07, C08, C06."""
import random
import traceback

import numpy as np

from checks import common
from harness import report, tlc

ALPHAS = (0.7, 0.9)  # with B = 3 both use the quantile levels 0 and 2/3 (see harness/calls.py)


# ---------------------------------------------------------------------------------------------------------------
# C07 replay jobs


def _names(k, district):
    return (f"R{k:05d}_1", f"R{k:05d}_2") if district else (f"R{k:05d}A", f"R{k:05d}B")


def _job_calls_ok(arg):
    """Replay a batch of non-error decision-table rows in ONE injected model (every row has its own contests).  Returns
    one 'client' record for Trace_Bootstrap (the property's clauses are decided there) and the number of rows that
    differ from the specification's exact table (advisory)."""
    rows, district = arg
    from harness import calls

    contests, preds, draws, lhs, rhs, stop, index = [], [], [], [], [], [], []
    for k, row in rows:
        sc = row["sc"]
        nm = dict(zip(sorted(sc["p"]), _names(k, district)))
        for c in sorted(sc["p"]):
            contests.append(nm[c])
            preds.append(sc["p"][c])
            draws.append([sc["b"][c], sc["a"][c], sc["a"][c]])
            index.append((k, c))
        lhs += [nm[c] for c in sc["lhs"]]
        rhs += [nm[c] for c in sc["rhs"]]
        stop += [nm[c] for c in sc["stop"]]
    bad = []
    try:
        df, out, model = calls.run_top_level(contests, preds, draws, alphas=ALPHAS, lhs=lhs, rhs=rhs, stop=stop, district=district)
        # the same contests without any list: "neither called nor stopped => left unchanged"
        df0, out0, _ = calls.run_top_level(contests, preds, draws, alphas=ALPHAS, district=district)
    except Exception as e:  # noqa: BLE001
        return {"bad": [{"clause": "raised_on_valid_lists", "exc": type(e).__name__, "msg": str(e)[:300], "tb": traceback.format_exc()[-1200:], "district": district}], "records": [], "drift": 0}
    key_cols = ["postal_code", "district"] if district else ["postal_code"]
    got_names = ["_".join(str(x) for x in t) for t in df[key_cols].itertuples(index=False)]
    pos = {n: i for i, n in enumerate(got_names)}
    pos0 = {"_".join(str(x) for x in t): i for i, t in enumerate(df0[key_cols].itertuples(index=False))}
    rowmap = dict(rows)
    groups, drift = [], 0
    for (k, c), name in zip(index, contests):
        row = rowmap[k]
        if name not in pos or name not in pos0:
            bad.append({"clause": "contest_missing", "row": row})
            continue
        i, i0 = pos[name], pos0[name]
        same = float(df["pred_margin"].iloc[i]).hex() == float(df0["pred_margin"].iloc[i0]).hex() and all(
            float(out[a][j][i]).hex() == float(out0[a][j][i0]).hex() for a in ALPHAS for j in (0, 1)
        )
        groups.append(
            {
                "table": "top", "name": name, "top": True,
                "pred": calls.sgn_scaled(df["pred_margin"].iloc[i], 1e6),
                "lower": [calls.sgn_scaled(out[a][0][i], 1e6) for a in ALPHAS],
                "upper": [calls.sgn_scaled(out[a][1][i], 1e6) for a in ALPHAS],
                "turnout": calls.sgn_scaled(df["pred_turnout"].iloc[i], 1000),
                "same": bool(same),
            }
        )
        # drift against the specification's exact decision table (advisory: the property states inequalities)
        exp = (row["pred"][c], row["lower"][c], row["upper"][c])
        p = calls.exact_milli(df["pred_margin"].iloc[i])
        if any((p, calls.exact_milli(out[a][0][i]), calls.exact_milli(out[a][1][i])) != exp for a in ALPHAS):
            drift += 1
    rec = {"kind": "client", "lhs": lhs, "rhs": rhs, "stop": stop, "alphas": list(ALPHAS), "district": district, "B": 3, "lambda": 0, "groups": groups, "units": []}
    return {"bad": bad, "records": [rec], "drift": drift}


def _job_calls_err(arg):
    """Error rows: contradictory or unknown names must raise the dedicated exception and produce no estimate."""
    rows, district = arg
    from elexmodel.models.BootstrapElectionModel import BootstrapElectionModelException

    from harness import calls

    bad = []
    for k, row in rows:
        sc = row["sc"]
        nm = dict(zip(sorted(sc["p"]), _names(k, district)))
        tr = lambda xs: [nm.get(c, "QQ_9" if district else "QQ") for c in xs]  # noqa: E731
        contests = [nm[c] for c in sorted(sc["p"])]
        preds = [sc["p"][c] for c in sorted(sc["p"])]
        draws = [[sc["b"][c], sc["a"][c], sc["a"][c]] for c in sorted(sc["p"])]
        try:
            calls.run_top_level(contests, preds, draws, alphas=ALPHAS, lhs=tr(sc["lhs"]), rhs=tr(sc["rhs"]), stop=tr(sc["stop"]), district=district)
            bad.append({"clause": "contradictory_lists_accepted", "district": district, "row": row})
        except BootstrapElectionModelException:
            pass
        except Exception as e:  # noqa: BLE001
            bad.append({"clause": "wrong_exception", "exc": type(e).__name__, "msg": str(e)[:200], "row": row, "district": district})
    return bad


def export(run, module, cfg, timeout=900):
    res = tlc.run_tlc(module, cfg, workers=1, timeout=timeout, keep_stdout=False)
    run.add_tlc(cfg, res)
    if res.violation:
        run.violation(f"tlc:{res.violation}", {"model": cfg, "invariant": res.violation}, {"trace": res.error_trace[:120]})
    return [v for t, v in res.printed if t == "SCEN"]


def c07(tier, seed):
    run = report.Run("C07", tier, seed)
    run.assumptions += [
        "bootstrap state injected at the model-object boundary for the decision-table replay (B = 3 draws (b, a, a): quantile levels 0 and 2/3 are order statistics, no interpolation error); end-to-end behaviour is covered by the recorded client runs",
        "margins in thousandths; exact ties at 0 are bit-exact by construction",
    ]
    rows1 = export(run, "MC_RaceCalls", "MC_RaceCalls_one.cfg")
    rows2 = export(run, "MC_RaceCalls", "MC_RaceCalls_two.cfg")
    rnd = random.Random(seed)
    if tier == "quick":
        rows2 = rnd.sample(rows2, min(len(rows2), 4000))
    else:
        run.cov["exhaustive"] = True
    jobs_ok, jobs_err = [], []
    for district in (False, True):
        for rows in (rows1, rows2):
            ok = [(k, r) for k, r in enumerate(rows) if not r["error"]]
            er = [(k, r) for k, r in enumerate(rows) if r["error"]]
            for i in range(0, len(ok), 150):
                jobs_ok.append((ok[i : i + 150], district))
            for i in range(0, len(er), 100):
                jobs_err.append((er[i : i + 100], district))
    for r in rows1:
        c = "AA"
        sc = r["sc"]
        if not r["error"]:
            if c in sc["lhs"] and sc["p"][c] < 5:
                run.witness("called_left_with_prediction_below_threshold")
            if c in sc["rhs"] and r["upper"][c] == -5 and sc["p"][c] - sc["b"][c] > 0:
                run.witness("called_right_upper_bound_overridden")
            if c in sc["stop"] and not (set(sc["lhs"]) | set(sc["rhs"])) and r["lower"][c] == -5:
                run.witness("stop_list_pulled_lower_bound_below_zero")
            if c in sc["stop"] and c in sc["lhs"]:
                run.witness("called_and_stopped")
        else:
            run.witness("contradictory_lists")
    if any("QQ" in (r["sc"]["lhs"] + r["sc"]["rhs"] + r["sc"]["stop"]) for r in rows2):
        run.witness("unknown_contest_named")
    table_records = []
    for res, job in zip(common.pool().map(_job_calls_ok, jobs_ok, chunksize=1), jobs_ok):
        run.cov["scenarios_replayed_into_impl"] += len(job[0])
        for b in res["bad"]:
            run.violation(b["clause"], {k: b[k] for k in ("clause", "district", "alpha", "exc") if k in b}, b)
        table_records.extend(res["records"])
        if res["drift"]:
            adv = run.cov.setdefault("advisory_drift", {})
            adv["decision_table_row_differs_from_model"] = adv.get("decision_table_row_differs_from_model", 0) + res["drift"]
    # the C07 clauses are decided by the trace specification on what the real functions returned for every row
    _validate_bootstrap(run, table_records, "Trace_Bootstrap_C07.cfg")
    for bads, job in zip(common.pool().map(_job_calls_err, jobs_err, chunksize=1), jobs_err):
        run.cov["scenarios_replayed_into_impl"] += len(job[0])
        for b in bads:
            run.violation(b["clause"], {k: b[k] for k in ("clause", "district", "exc") if k in b}, b)
    run.sample({"decision_table_row": rows1[len(rows1) // 3]})
    run.sample({"two_contest_row": rows2[len(rows2) // 2]})
    bootstrap_client_traces(run, tier, seed, "Trace_Bootstrap_C07.cfg")
    run.finish(
        require_witnesses=[
            "client_run_with_called_contest",
            "client_run_with_stopped_contest",
            "fully_reported_run_with_stopped_contest",
            "called_left_with_prediction_below_threshold",
            "called_right_upper_bound_overridden",
            "stop_list_pulled_lower_bound_below_zero",
            "called_and_stopped",
            "contradictory_lists",
            "unknown_contest_named",
            "called_contest_without_any_vote",
            "feed_row_with_a_missing_party_count",
        ]
    )


def _job_client_record(arg):
    seed, with_lists = arg
    from harness import calls

    try:
        return ("ok", calls.client_record(seed, with_lists))
    except Exception as e:  # noqa: BLE001
        return ("exc", {"seed": seed, "exc": type(e).__name__, "msg": str(e)[:300], "tb": traceback.format_exc()[-1500:]})


def _job_ranks(B):
    from harness import calls

    return calls.ranks_record(B)


def _job_bounds(arg):
    from harness import calls

    seed, n = arg
    rnd = random.Random(seed)
    out = []
    for _ in range(n):
        B = rnd.choice([2, 3, 4, 5, 7, 10])
        xs = [rnd.randint(-9, 9) for _ in range(B)]
        levels = sorted(rnd.sample([100, 500, 700, 800, 900, 950, 990], 3))
        try:
            out.append(calls.known_part_record(rnd))
            out.append(calls.bounds_record(rnd.randint(-8, 8), xs, levels, rnd))
        except Exception as e:  # noqa: BLE001
            out.append({"kind": "raised", "B": B, "levels": levels, "exc": f"{type(e).__name__}: {str(e)[:200]}"})
    return out


def _validate_bootstrap(run, traces, cfg):
    from harness import tracecheck

    def on_reject(tr, clause, inv):
        facts = {"clause": clause, "kind": tr["kind"], "invariant": inv}
        for k in ("B", "district", "lambda"):
            if k in tr:
                facts[k] = tr[k]
        run.violation(clause, facts, {"trace": tr if tr["kind"] != "client" else {k: v for k, v in tr.items() if k != "units"}})

    n = tracecheck.validate("Trace_Bootstrap", cfg, traces, on_reject, run=run, chunk=300)
    run.cov["traces_validated_against_impl"] += n


def bootstrap_client_traces(run, tier, seed, cfg, n_quick=24, n_thorough=240):
    """code -> spec on real bootstrap client runs with call / stop lists (paired with the run without lists)."""
    n = n_quick if tier == "quick" else n_thorough
    jobs = [(seed * 7 + k, True) for k in range(n)]
    traces = []
    for status, val in common.pool().map(_job_client_record, jobs, chunksize=1):
        if status == "ok":
            traces.append(val)
            run.witness("client_run")
            if val["district"]:
                run.witness("district_office_run")
            if any(g["top"] and g["name"] in val["lhs"] + val["rhs"] for g in val["groups"]):
                run.witness("client_run_with_called_contest")
            if any(g["top"] and g["name"] in val["stop"] for g in val["groups"]):
                run.witness("client_run_with_stopped_contest")
            run.witness(f"B_{val['B']}")
            if val.get("stress"):
                run.witness("run_with_extrapolating_units")
            if val.get("presidential"):
                run.witness("run_with_presidential_correction")
            if val.get("set_aside") and any(g["table"] == "classification_data" for g in val["groups"]):
                run.witness("classification_groups_with_set_aside_units")
            if val.get("empty_contest"):
                run.witness("called_contest_without_any_vote")
            if val.get("missing_count"):
                run.witness("feed_row_with_a_missing_party_count")
            if val.get("fully_reported") and any(g["top"] and g["name"] in val["stop"] for g in val["groups"]):
                run.witness("fully_reported_run_with_stopped_contest")
        else:
            run.violation("run_raised", {"clause": "run_raised", "exc": val["exc"]}, val)
    _validate_bootstrap(run, traces, cfg)
    if traces:
        run.sample({"client_run": {k: v for k, v in traces[0].items() if k != "units"} | {"groups": traces[0]["groups"][:3]}})
    return traces


def c06(tier, seed):
    run = report.Run("C06", tier, seed)
    run.assumptions += [
        "ranks: alpha on the permille grid; where the exact rank expression is an integer the float evaluation may land on either side (candidate sets)",
        "statistical adequacy of the bootstrap intervals is not claimed by the property and not addressed",
        "client tables in millionths with exact signs; the straddle (0.001) dominates the rounding",
    ]
    common.mc(run, "MC_BootstrapIntervals", "MC_BootstrapIntervals_ranks.cfg" if tier == "quick" else "MC_BootstrapIntervals_ranks_thorough.cfg", timeout=1500)
    common.mc(run, "MC_BootstrapIntervals", "MC_BootstrapIntervals_bounds.cfg", timeout=600)
    Bs = list(range(2, 121)) if tier == "quick" else list(range(2, 601))
    traces = common.pool().map(_job_ranks, Bs, chunksize=4)
    run.witness("rank_records", len(traces))
    nb = 40 if tier == "quick" else 400
    for out in common.pool().map(_job_bounds, [(seed + k, 25) for k in range(nb)], chunksize=1):
        for o in out:
            if o["kind"] == "raised":
                run.violation("interval_construction_raised", {"clause": "interval_construction_raised", "B": o["B"]}, o)
            else:
                traces.append(o)
        run.witness("bounds_records", len(out))
    _validate_bootstrap(run, traces, "Trace_Bootstrap_C06.cfg")
    run.sample({"bounds_record": traces[-1]})
    bootstrap_client_traces(run, tier, seed, "Trace_Bootstrap_C06.cfg")
    run.finish(require_witnesses=["rank_records", "bounds_records", "client_run", "district_office_run", "run_with_extrapolating_units", "run_with_presidential_correction", "classification_groups_with_set_aside_units", "feed_row_with_a_missing_party_count", "B_2", "B_40"])


# ---------------------------------------------------------------------------------------------------------------
# C08


def _job_natsum_inject(arg):
    from harness import calls

    out = []
    for k, ns in enumerate(arg):
        try:
            obs = calls.run_summary_injected(ns)
        except Exception as e:  # noqa: BLE001
            obs = {"kind": "raised", "pred": 0, "lower": 0, "upper": 0, "exc": f"{type(e).__name__}: {str(e)[:200]}"}
        earlier = obs
        if k % 3 == 1 and obs["kind"] == "ok":
            # every third scenario also on a model object that served an earlier round of calls with other lists
            try:
                earlier = calls.run_summary_injected(ns, earlier_round=True)
            except Exception as e:  # noqa: BLE001
                earlier = {"kind": "raised", "pred": 0, "lower": 0, "upper": 0, "exc": f"{type(e).__name__}: {str(e)[:200]}"}
        out.append({"kind": "inject", "ns": dict(ns, history=[]), "obs": obs, "earlier": {k2: earlier[k2] for k2 in ("kind", "pred", "lower", "upper")}})
        if len(out) % 5 == 0 and ns["nweights"] == len(ns["p"]):
            # the same scenario under the sigmoid threshold (agg_model_hard_threshold = False): the summary is then a real
            # number and only the ordering clause of the property applies (seeded change C08_E)
            T = (10, 50, 1000, 5000)[(len(out) // 5) % 4]
            try:
                o2 = calls.run_summary_injected(ns, sigmoid_T=T)
            except Exception as e:  # noqa: BLE001
                o2 = {"kind": "raised", "pred": 0, "lower": 0, "upper": 0, "exc": f"{type(e).__name__}: {str(e)[:200]}"}
            out.append({"kind": "sigmoid", "T": T, "base100": int(ns["base"]) * 100, "tot100": 100 * sum(ns["w"].values()), "obs": o2, "scenario": dict(ns, history=[])})
    return out


def _natsum_universe(rnd, n, contests=("AA", "BB"), pv=(-6, -1, 1, 6), dv=(-4, 4), weights=(3, 5, 7)):
    out = []
    for _ in range(n):
        cs = list(contests)
        roles = {c: rnd.choice(["L", "R", "N", "N"]) for c in cs}
        out.append(
            dict(
                p={c: rnd.choice(pv) for c in cs},
                b1={c: [rnd.choice(dv), rnd.choice(dv)] for c in cs},
                b2={c: [rnd.choice(dv), rnd.choice(dv)] for c in cs},
                w={c: weights[i] for i, c in enumerate(cs)},
                lhs=[c for c in cs if roles[c] == "L"],
                rhs=[c for c in cs if roles[c] == "R"],
                stop=[c for c in cs if rnd.random() < 0.3],
                corr=rnd.random() < 0.5,
                base=rnd.choice([0, 10]),
                # wrong-size weight dictionaries: one too few, one too many, several too many, and the empty dictionary
                nweights=(rnd.choice([len(cs) - 1, len(cs) + 1, len(cs) + 3, 0]) if rnd.random() < 0.06 else len(cs)),
            )
        )
    return out


def _sgn_micro(x):
    v = int(round(float(x) * 1e6))
    if v == 0 and float(x) != 0.0:
        v = 1 if x > 0 else -1
    return v


def _job_natsum_client(arg):
    """Real bootstrap client run + national summary; returns 'client' and 'history' trace records."""
    seed, histories, with_calls = arg
    import hashlib

    from elexmodel.models.BootstrapElectionModel import BootstrapElectionModelException

    from harness import synth

    rnd = random.Random(seed)
    states = ("AA", "BB", "CC")
    pre, cur = synth.make_election(n=48, states=states, seed=seed, frac_reporting=0.6, thr=100)
    pre = synth.with_margin_features(pre)
    # pull the states towards a tie so that winners / uncertain contests vary
    weights = {s: rnd.choice([3, 5, 7, 11]) for s in states}
    base = rnd.choice([0, 12])
    lhs = rhs = stop = []
    if with_calls:
        roles = {s: rnd.choice(["L", "R", "N", "N"]) for s in states}
        lhs = [s for s in states if roles[s] == "L"]
        rhs = [s for s in states if roles[s] == "R"]
        stop = [s for s in states if rnd.random() < 0.3]
    recs = []
    runs = []
    alphas = [0.7, 0.9]
    for h in histories:
        try:
            c, res = synth.run_client(
                pre, cur, estimands=("margin",), pi_method="bootstrap", features=("baseline_normalized_margin", "x1"),
                aggregates=list(h) + ["unit"], model_parameters={"B": 12, "national_summary_correlation": seed % 2 == 0},
                lhs_called_contests=lhs, rhs_called_contests=rhs, stop_model_call=stop, pis=alphas,
            )
            df = c.get_national_summary_votes_estimates(dict(weights), base, alphas)
            row = df.iloc[0]
            trip = {str(k + 1): {"pred": row["agg_pred"], "lower": row[f"lower_{a}"], "upper": row[f"upper_{a}"]} for k, a in enumerate(alphas)}
            tok = hashlib.sha1(repr([(k, float(v[x]).hex()) for k, v in sorted(trip.items()) for x in ("pred", "lower", "upper")]).encode()).hexdigest()[:12]
            wrong = "error"
            for wd in ({"AA": 1}, {}, {s: 1 for s in list(states) + ["ZZ", "YY"]}):
                try:
                    c.get_national_summary_votes_estimates(dict(wd), base, alphas)
                    wrong = "accepted"
                except BootstrapElectionModelException:
                    pass
            runs.append({"history": list(h), "kind": "ok", "tok": tok, "wrongsize": wrong})
            if h == histories[0]:
                sd = res["state_data"].set_index("postal_code")
                ints = {}
                for k, v in trip.items():
                    ints[k] = {x: int(round(float(v[x]))) for x in v}
                    for x in v:
                        if abs(float(v[x]) - round(float(v[x]))) > 1e-9:
                            raise ValueError("non-integral summary with integer weights")
                recs.append(
                    {
                        "kind": "client",
                        "c": {
                            "pred": {s: _sgn_micro(sd.loc[s, "pred_margin"]) for s in states},
                            "w": weights, "base": base, "lhs": lhs, "rhs": rhs, "stop": stop,
                            "triples": [ints[str(k + 1)] for k in range(len(alphas))],
                        },
                    }
                )
        except Exception as e:  # noqa: BLE001
            runs.append({"history": list(h), "kind": f"raised {type(e).__name__}: {str(e)[:120]}", "tok": "-", "wrongsize": "error"})
    recs.append({"kind": "history", "runs": runs})
    return recs


HISTORIES = [
    ["postal_code"],
    ["postal_code", "county_fips"],
    ["county_fips", "postal_code"],
    ["postal_code", "county_fips", "county_classification"],
    ["county_classification", "postal_code", "county_fips"],
    ["county_fips", "county_classification", "postal_code"],
]


def c08(tier, seed):
    from harness import tracecheck

    run = report.Run("C08", tier, seed)
    run.assumptions += [
        "hard threshold (the default) for the bounded / winners clauses; non-negative contest weights",
        "injected scenarios use B = 2 draws and alpha = 0.9 (quantile level 0, national-sum ranks 0 and 2); argsort ties admit every tied draw (candidate set)",
        "client runs: B = 12 draws, 3 contests; the summary is compared across request orders bit-for-bit",
    ]
    common.mc(run, "MC_NationalSummary", "MC_NationalSummary_quick.cfg", timeout=1200)
    common.mc(run, "MC_NationalSummary", "MC_NationalSummary_history.cfg", timeout=600)
    common.mc(run, "MC_NationalSummary", "MC_NationalSummary_F3.cfg", expect_violation="HistoryIndependent", name="F3 demo (every aggregate overwrites the matrices the summary reads)")
    common.mc(run, "MC_NationalSummary", "MC_NationalSummary_F4.cfg", expect_violation="Ordered", name="F4 demo (losses/gains not restricted to winners/losers)")
    rnd = random.Random(seed)
    n = 6000 if tier == "quick" else 60000
    scen = _natsum_universe(rnd, n)
    scen += _natsum_universe(rnd, n // 3, contests=("AA", "BB", "CC"), pv=(-8, -6, -5, -1, 0, 1, 5, 6, 8), dv=(-7, -4, -1, 1, 4, 7))
    jobs = [scen[i : i + 250] for i in range(0, len(scen), 250)]
    traces = []
    for out in common.pool().map(_job_natsum_inject, jobs, chunksize=1):
        traces.extend(out)
    for t in traces:
        if t["kind"] == "sigmoid":
            o = t["obs"]
            if o["kind"] == "ok" and o["pred"] % 100 != 0:
                run.witness("sigmoid_summary_with_unsaturated_contest")
            continue
        ns, o = t["ns"], t["obs"]
        if o["kind"] == "ok" and o["lower"] < o["pred"] < o["upper"]:
            run.witness("summary_with_losses_and_gains")
        if o["kind"] == "error":
            run.witness("wrong_size_dictionary")
        if (ns["lhs"] or ns["rhs"]) and ns["stop"]:
            run.witness("called_and_stopped_contests")
        if ns["corr"]:
            run.witness("correlation_mode")
        else:
            run.witness("quantile_draw_mode")
    n_hist = 4 if tier == "quick" else 24
    cjobs = [(seed + k, HISTORIES, k % 2 == 1) for k in range(n_hist)]
    for recs in common.pool().map(_job_natsum_client, cjobs, chunksize=1):
        traces.extend(recs)
        for r in recs:
            if r["kind"] == "history" and len(r["runs"]) == len(HISTORIES):
                run.witness("histories_compared")
            if r["kind"] == "client":
                run.witness("client_summary")

    def on_reject(tr, clause, inv):
        facts = {"clause": clause, "kind": tr["kind"], "invariant": inv}
        if tr["kind"] == "inject":
            facts["corr"] = tr["ns"]["corr"]
        if tr["kind"] == "sigmoid":
            facts["T"] = tr["T"]
        run.violation(clause, facts, {"trace": tr})

    n_ok = tracecheck.validate("Trace_NationalSummary", "Trace_NationalSummary.cfg", traces, on_reject, run=run, chunk=4000)
    run.cov["traces_validated_against_impl"] += n_ok
    run.sample({"injected": traces[0]})
    run.sample({"history": [t for t in traces if t["kind"] == "history"][:1]})
    run.finish(
        require_witnesses=["summary_with_losses_and_gains", "wrong_size_dictionary", "called_and_stopped_contests", "correlation_mode", "quantile_draw_mode", "histories_compared", "client_summary", "sigmoid_summary_with_unsaturated_contest"]
    )
