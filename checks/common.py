"""Shared plumbing for the property checks."""
import multiprocessing as mp
import os
import random
import sys
import traceback

from harness import report, tlc


def tier_and_seed(argv_tier=None):
    tier = argv_tier or os.environ.get("VERIF_TIER", "quick")
    if tier not in ("quick", "thorough"):
        tier = "quick"
    seed = int(os.environ.get("VERIF_SEED", "20260928"))
    return tier, seed


def mc(run, module, cfg, expect_violation=None, name=None, constants=None, **kw):
    """Run an exhaustive TLC model.  A violated invariant is a violation of the property *in the design*."""
    res = tlc.run_tlc(module, cfg, **kw)
    run.add_tlc(name or cfg, res, constants)
    if expect_violation is not None:
        # a "finding demonstration" config: the model of the code as found must exhibit the known defect
        if res.violation != expect_violation:
            raise tlc.MachineryError(
                f"{cfg}: expected TLC to reproduce the documented counterexample of {expect_violation}, got {res.violation}"
            )
        return res
    if res.violation is not None:
        run.violation(
            f"tlc:{res.violation}",
            {"model": cfg, "invariant": res.violation},
            {"counterexample": res.error_trace[:200]},
        )
    return res


_POOL = None


def pool(n=None):
    global _POOL
    if _POOL is None:
        ctx = mp.get_context("fork")
        _POOL = ctx.Pool(n or min(16, os.cpu_count() or 4))
    return _POOL


def close_pool():
    global _POOL
    if _POOL is not None:
        _POOL.close()
        _POOL.join()
        _POOL = None


def guarded(fn):
    """Wrap a pool job so that an exception comes back as data."""

    def inner(arg):
        try:
            return ("ok", fn(arg))
        except Exception as e:  # noqa: BLE001
            return ("exc", (type(e).__name__, str(e)[:500], traceback.format_exc()[-3000:]))

    return inner


def main_wrapper(fn):
    try:
        fn()
    except tlc.MachineryError as e:
        print(f"MACHINERY: {e}", flush=True)
        sys.exit(2)
    except SystemExit:
        raise
    except Exception:  # noqa: BLE001
        traceback.print_exc()
        print("MACHINERY: unexpected exception in the check itself", flush=True)
        sys.exit(2)
    finally:
        close_pool()
