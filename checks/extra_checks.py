"""Supplementary models that go beyond the listed properties (DESIGN 9.6).  Run as `./run_check.sh S01 quick`."""
import random

from checks import common
from harness import report, tlc

MSG = [
    ("Office", "office"),
    ("Geographic unit type", "unit_type"),
    ("Feature(s)", "features"),
    ("Aggregate(s)", "aggregates"),
    ("Fixed effect(s)", "fixed_effects"),
    ("Prediction interval method", "estimator"),
    ("model_paramters", "params_dict"),
    ("lambda", "lambda"),
    ("turnout_factor", "tf_limits"),
    ("handle_unreporting", "policy"),
]
EST_PARAM_BAD = {"gaussian": {"beta": "x"}, "nonparametric": {"robust": 1}, "bootstrap": {"B": 2.5}}


def _job_inputs(rows):
    from elexmodel.client import ModelClient, ModelClientException
    from elexmodel.models.BootstrapElectionModel import BootstrapElectionModelException

    from harness import synth

    pre, cur = synth.make_election(n=6, states=("AA",), seed=1)
    bad = []
    for row in rows:
        r = row["req"]
        ok = r["ok"]
        est = r["estimator"] if ok["estimator"] else "magic"
        mp = {}
        if not ok["lambda"]:
            mp["lambda_"] = -1
        if not ok["tf_limits"]:
            mp["turnout_factor_lower"] = "a"
        if not ok["estimator_param"]:
            mp.update(EST_PARAM_BAD[r["paramOf"]])
        else:
            mp.update({"gaussian": {"beta": 1.5}, "nonparametric": {"robust": True}, "bootstrap": {"B": 20}}[r["paramOf"]])
        params = mp if ok["params_dict"] else list(mp.items()) + [("k", 1)]
        kw = dict(
            features=["x1"] if ok["features"] else ["x1", "nope"],
            aggregates=["postal_code", "unit"] if ok["aggregates"] else ["postal_code", "nope"],
            fixed_effects=({"postal_code": "all"} if ok["fixed_effects"] else ["nope"]),
            pi_method=est,
            save_output=[],
            handle_unreporting="drop" if ok["policy"] else "skip",
        )
        estimands = ["turnout", "party_vote_share_dem"] if r["unknownEstimand"] else ["turnout"]
        office = "G" if ok["office"] else "Q"
        gut = "precinct" if ok["unit_type"] else "township"
        cfg = synth.config("G", ("AA",))
        try:
            ModelClient().get_estimates(
                cur.copy(), synth.EID, office, estimands, [0.9], 100, gut, raw_config=cfg, preprocessed_data=pre.copy(), model_parameters=params, **kw
            )
            got = "accepted"
        except ValueError as e:
            msg = str(e)
            got = next((name for pre_, name in MSG if msg.startswith(pre_)), None)
            if got is None:
                got = "estimator_param" if " is not valid" in msg else f"other ValueError: {msg[:80]}"
        except (ModelClientException, BootstrapElectionModelException):
            got = "accepted"  # past the argument checks (too few units / estimator's own precondition)
        except Exception as e:  # noqa: BLE001
            got = f"raised {type(e).__name__}: {str(e)[:80]}"
        if got != row["verdict"]:
            bad.append({"clause": "verdict", "expected": row["verdict"], "observed": got, "req": r})
    return bad


def s01(tier, seed):
    """Argument checks of get_estimates as an ordered decision list (InputValidation.tla)."""
    run = report.Run("S01", tier, seed)
    run.assumptions += ["supplementary model, not a listed property: first failing argument check decides the error; unknown estimands are accepted"]
    res = tlc.run_tlc("MC_InputValidation", "MC_InputValidation.cfg", workers=1, timeout=600, keep_stdout=False)
    run.add_tlc("MC_InputValidation", res)
    if res.violation:
        run.violation(f"tlc:{res.violation}", {"model": "MC_InputValidation"}, {"trace": res.error_trace[:60]})
    rows = [v for t, v in res.printed if t == "SCEN"]
    rnd = random.Random(seed)
    if tier == "quick":
        rows = rnd.sample(rows, 4000)
    else:
        run.cov["exhaustive"] = True
    jobs = [rows[i : i + 250] for i in range(0, len(rows), 250)]
    for bads, job in zip(common.pool().map(_job_inputs, jobs, chunksize=1), jobs):
        run.cov["scenarios_replayed_into_impl"] += len(job)
        for b in bads:
            run.violation(b["clause"], {"clause": b["clause"], "expected": b["expected"], "observed": b["observed"]}, b)
    for r in rows:
        run.witness("verdict_" + r["verdict"])
    run.sample({"request": rows[0]})
    run.finish(require_witnesses=["verdict_accepted", "verdict_office", "verdict_policy", "verdict_estimator_param"])


# ---------------------------------------------------------------------------------------------------------------
# S02: evaluation metrics of a historical run


def _job_metrics(rows_batch):
    import math
    import warnings
    from fractions import Fraction

    import pandas as pd

    from harness import synth  # noqa: F401
    from elexmodel.client import HistoricalModelClient

    warnings.filterwarnings("ignore")
    c = HistoricalModelClient()
    bad = []
    for sc in rows_batch:
        rows = sc["rows"]
        est = pd.DataFrame(
            {"postal_code": [r["g"] for r in rows], "geographic_unit_fips": [f"u{i}" for i in range(len(rows))],
             "pred_turnout": [float(r["p"]) for r in rows], "lower_0.9_turnout": [float(r["lo"]) for r in rows], "upper_0.9_turnout": [float(r["hi"]) for r in rows]}
        )
        res = pd.DataFrame({"postal_code": [r["g"] for r in rows], "geographic_unit_fips": [f"u{i}" for i in range(len(rows))], "raw_results_turnout": [float(r["t"]) for r in rows]})
        try:
            per = c.compute_evaluation(est, res, ["postal_code", "geographic_unit_fips"], ["postal_code"], [0.9], "turnout")
            allg = c.compute_evaluation(est, res, ["postal_code", "geographic_unit_fips"], lambda x: True, [0.9], "turnout")[True]
        except Exception as e:  # noqa: BLE001
            bad.append({"clause": "evaluation_raised", "exc": f"{type(e).__name__}: {str(e)[:200]}", "scenario": sc})
            continue
        obs = dict(per)
        obs["all"] = allg
        for g, want in sc["report"].items():
            o = obs.get(g)
            if o is None:
                bad.append({"clause": "group_missing", "group": g, "scenario": sc})
                continue

            def close(x, fr):
                return not (math.isnan(x) or math.isinf(x)) and abs(x - float(Fraction(fr[0], fr[1]))) < 1e-9

            ok = close(o["mae_turnout"], want["mae"]) and close(o["frac_within_pi_0.9_turnout"], want["within"])
            if want["mape"]["kind"] == "nan":
                ok = ok and math.isnan(o["mape_turnout"])
            else:
                ok = ok and close(o["mape_turnout"], want["mape"]["v"])
            if want["length"]["kind"] == "huge":
                ok = ok and o["mean_pi_length_0.9_turnout"] > 1e300
            else:
                ok = ok and close(o["mean_pi_length_0.9_turnout"], want["length"]["v"])
            if not ok:
                bad.append({"clause": "metric", "group": g, "expected": want, "observed": {k: (None if isinstance(v, float) and math.isnan(v) else v) for k, v in o.items()}, "scenario": sc})
    return bad


def s02(tier, seed):
    """Evaluation metrics of a historical run (EvaluationMetrics.tla), every exported scenario replayed into compute_evaluation."""
    run = report.Run("S02", tier, seed)
    run.assumptions += ["supplementary model, not a listed property: MAE, MAPE (undefined for an all-zero group), coverage share and mean relative interval length per group and overall, as exact rationals"]
    res = tlc.run_tlc("MC_EvaluationMetrics", "MC_EvaluationMetrics.cfg", workers=1, timeout=600, keep_stdout=False)
    run.add_tlc("MC_EvaluationMetrics", res)
    if res.violation:
        run.violation(f"tlc:{res.violation}", {"model": "MC_EvaluationMetrics"}, {"trace": res.error_trace[:60]})
    scen = [v for t, v in res.printed if t == "SCEN"]
    rnd = random.Random(seed)
    if tier == "quick":
        scen = rnd.sample(scen, 3000)
    else:
        run.cov["exhaustive"] = True
    jobs = [scen[i : i + 150] for i in range(0, len(scen), 150)]
    for bads, job in zip(common.pool().map(_job_metrics, jobs, chunksize=1), jobs):
        run.cov["scenarios_replayed_into_impl"] += len(job)
        for b in bads:
            run.violation(b["clause"], {"clause": b["clause"]}, b)
    for s in scen:
        for g, w in s["report"].items():
            if w["mape"]["kind"] == "nan":
                run.witness("group_with_all_zero_results")
            if w["length"]["kind"] == "huge":
                run.witness("zero_prediction_with_nondegenerate_interval")
    run.sample({"scenario": scen[0]})
    run.finish(require_witnesses=["group_with_all_zero_results", "zero_prediction_with_nondegenerate_interval"])


# ---------------------------------------------------------------------------------------------------------------
# S03: the simulated live feed


def _job_mockfeed(arg):
    import pandas as pd

    from harness import synth  # noqa: F401
    from elexmodel.handlers.data.LiveData import MockLiveDataHandler

    seed, count = arg
    rnd = random.Random(seed)
    out = []
    for _ in range(count):
        N = rnd.randint(3, 8)
        ids = rnd.sample(["a", "b", "c", "d", "e", "f", "g", "h", "k1", "k2"], N)
        res = {x: rnd.randint(1, 50) for x in ids}
        df = pd.DataFrame({"postal_code": ["AA"] * N, "geographic_unit_fips": ids, "county_fips": ["c"] * N, "county_classification": ["k"] * N,
                           "results_turnout": [res[x] for x in ids]})
        u = rnd.choice([0, 0, 1, 2])
        # at least one expected unit reports: with none, the handler's column assignment on the empty reporting frame
        # re-expands it to N phantom rows without ids (observation O3 in DESIGN 9.3; outside this model's precondition)
        n = rnd.randint(max(2 * u, u + 1), N + u)
        enforce = rnd.sample(ids, rnd.randint(0, 2))
        sd = rnd.randint(0, 10**6)

        def handler():
            return MockLiveDataHandler("e", "G", "county", ["turnout"], data=df.copy(), unexpected_units=u)

        h0 = handler()
        h0.shuffle(seed=sd)
        order0 = h0.data.geographic_unit_fips.tolist()
        h = handler()
        h.shuffle(seed=sd, enforce=enforce)
        try:
            got = h.get_n_fully_reported(n)
        except Exception as e:  # noqa: BLE001
            out.append({"kind": "raised", "exc": f"{type(e).__name__}: {str(e)[:200]}", "N": N, "n": n, "u": u})
            continue
        rows = []
        for _, r in got.iterrows():
            fid = str(r["geographic_unit_fips"])
            rows.append({"id": fid, "pev": int(r["percent_expected_vote"]), "res": int(r["results_turnout"]), "raw": int(r["raw_results_turnout"]), "fake": fid not in res})
        out.append({"kind": "report", "order": order0, "res": res, "n": n, "u": u, "enforce": enforce, "out": rows})
        pct = rnd.randint(0, 100)
        out.append({"kind": "percent", "percent": pct, "N": N, "up": h0._convert_percent_to_n(pct, "up"), "down": h0._convert_percent_to_n(pct, "down")})
    return out


def s03(tier, seed):
    """The simulated live feed (MockFeed.tla): recorded outputs of the real MockLiveDataHandler validated by Trace_MockFeed."""
    from harness import tracecheck

    run = report.Run("S03", tier, seed)
    run.assumptions += ["supplementary model, not a listed property; preconditions n >= 2u, 1 <= n - u <= N (outside them the handler slices from the end, raises, or - for n - u = 0 - returns N phantom reporting rows without ids)",
                        "ids in the recorded runs are not prefix-related: the model shows that a fake id can collide with a real id otherwise (MC_MockFeed_prefix.cfg)"]
    common.mc(run, "MC_MockFeed", "MC_MockFeed.cfg", timeout=600, workers=8)
    common.mc(run, "MC_MockFeed", "MC_MockFeed_prefix.cfg", expect_violation="FakeIdsFresh", workers=4, name="demo: ids '1' and '10' - a fake id collides with a real one")
    traces = []
    for recs in common.pool().map(_job_mockfeed, [(seed + k, 40) for k in range(8 if tier == "quick" else 80)], chunksize=1):
        for r in recs:
            if r["kind"] == "raised":
                run.violation("handler_raised", {"clause": "handler_raised"}, r)
            else:
                traces.append(r)
                if r["kind"] == "report" and r["u"] > 0:
                    run.witness("request_with_unexpected_rows")
                if r["kind"] == "report" and r["enforce"]:
                    run.witness("request_with_enforced_units")

    def on_reject(tr, clause, inv):
        run.violation(clause, {"clause": clause, "kind": tr["kind"]}, {"trace": tr})

    n_ok = tracecheck.validate("Trace_MockFeed", "Trace_MockFeed.cfg", traces, on_reject, run=run, chunk=1000)
    run.cov["traces_validated_against_impl"] += n_ok
    run.sample({"recorded": traces[0]})
    run.finish(require_witnesses=["request_with_unexpected_rows", "request_with_enforced_units"])


# ---------------------------------------------------------------------------------------------------------------
# S04: how the working columns come into being (Estimandizer)


def _job_estimands(rows):
    import math
    import warnings

    import pandas as pd

    from harness import synth  # noqa: F401
    from elexmodel.handlers.data.Estimandizer import Estimandizer

    warnings.filterwarnings("ignore")
    bad = []

    def same(x, want):
        if want["k"] == "nan":
            return isinstance(x, float) and math.isnan(x)
        if want["k"] == "huge":
            return x > 1e300
        return not math.isnan(x) and abs(float(x) - want["n"] / want["d"]) < 1e-12

    for sc in rows:
        par, inp = sc["par"], sc["inp"]
        if isinstance(inp, list):  # ToJson prints the empty frame (an empty function) as []
            inp = {}
        if isinstance(sc["cols"], list):
            sc["cols"] = {}
        df = pd.DataFrame({c: [int(v["n"])] for c, v in inp.items()}, index=[0])
        ests = par["ests"]
        ret = None
        try:
            if par["entry"] == "baselines":
                pointers = {e["e"]: (None if e["ptr"] == "<none>" else e["ptr"]) for e in ests}
                out = Estimandizer().add_estimand_baselines(df, pointers, par["historical"], include_results_estimand=par["includeRes"])
            else:
                out, ret = Estimandizer().add_estimand_results(df, [e["e"] for e in ests], par["historical"])
            outcome = "done"
        except KeyError:
            outcome = "error"
        except Exception as e:  # noqa: BLE001
            outcome = f"raised {type(e).__name__}: {str(e)[:80]}"
        if outcome != sc["outcome"]:
            bad.append({"clause": "outcome", "expected": sc["outcome"], "observed": outcome, "scenario": sc})
            continue
        if outcome != "done":
            continue
        want = sc["cols"]
        if set(out.columns) != set(want):
            bad.append({"clause": "columns", "expected": sorted(want), "observed": sorted(out.columns), "scenario": sc})
            continue
        wrong = [c for c in want if not same(out[c].iloc[0], want[c])]
        if wrong:
            bad.append({"clause": "values", "columns": wrong, "observed": {c: repr(out[c].iloc[0]) for c in wrong}, "scenario": sc})
        if ret is not None and list(ret) != list(sc["ret"]):
            bad.append({"clause": "returned_columns", "expected": sc["ret"], "observed": list(ret), "scenario": sc})
    return bad


def s04(tier, seed):
    """Estimandizer (Estimands.tla): every exported call replayed into add_estimand_baselines / add_estimand_results."""
    run = report.Run("S04", tier, seed)
    run.assumptions += ["supplementary model, not a listed property: one-row frames (all operations are row-wise); values as exact rationals, "
                        "nan and 'huge' (nan_to_num of +inf); a KeyError is the modelled error outcome"]
    common.mc(run, "MC_Estimands", "MC_Estimands.cfg" if tier == "quick" else "MC_Estimands_thorough.cfg", timeout=3000, workers=16)
    common.mc(run, "MC_Estimands", "MC_Estimands_demo_returned.cfg", expect_violation="ReturnedColumnsExistAlways", workers=4,
              name="demo: results_weights handed in without results_turnout - a returned column does not exist")
    common.mc(run, "MC_Estimands", "MC_Estimands_demo_order.cfg", expect_violation="OrderIndependentAlways", workers=4,
              name="demo: historical blanking makes the order of the estimands observable")
    res = tlc.run_tlc("MC_Estimands", "MC_Estimands_export.cfg", workers=1, timeout=1800, keep_stdout=False)
    run.add_tlc("MC_Estimands_export", res)
    scen = [v for t, v in res.printed if t == "SCEN"]
    rnd = random.Random(seed)
    if tier == "quick":
        scen = rnd.sample(scen, 20000)
    else:
        run.cov["exhaustive"] = True
    jobs = [scen[i : i + 500] for i in range(0, len(scen), 500)]
    for bads, job in zip(common.pool().map(_job_estimands, jobs, chunksize=1), jobs):
        run.cov["scenarios_replayed_into_impl"] += len(job)
        for b in bads:
            run.violation(b["clause"], {"clause": b["clause"]}, b)
    for s in scen:
        run.witness("outcome_" + s["outcome"])
        if s["outcome"] == "done" and isinstance(s["cols"], dict):
            if any(v["k"] == "nan" for v in s["cols"].values()):
                run.witness("historical_blank_column")
            if any(v["k"] == "huge" for v in s["cols"].values()):
                run.witness("share_of_zero_turnout")
            if "baseline_normalized_margin" in s["cols"]:
                run.witness("margin_generated")
    run.sample({"scenario": scen[0]})
    run.finish(require_witnesses=["outcome_done", "outcome_error", "historical_blank_column", "share_of_zero_turnout", "margin_generated"])


# ---------------------------------------------------------------------------------------------------------------
# S05: where configuration and baseline data come from, and what the save options leave behind


def _job_datasources(arg):
    from harness import datasources

    return datasources.job(arg)


def s05(tier, seed):
    """DataSources.tla: recorded histories of real client runs (scratch working directory, remote fake) validated by Trace_DataSources."""
    from harness import datasources, tracecheck

    run = report.Run("S05", tier, seed)
    run.assumptions += ["supplementary model, not a listed property: argument > working directory > remote store for the configuration and the baseline data; "
                        "what 'config' / 'data' in save_output leave behind; the caller's configuration dictionary is an object the run can mutate",
                        "configurations list their features (the in-place growth needs a `features` entry) and the election id is a general election"]
    common.mc(run, "MC_DataSources", "MC_DataSources.cfg", timeout=1800, workers=16,
              constants={"MaxRuns": 3, "MaxOps": 4, "MaxVer": 2})
    for inv, what in (("FreshestConfigUsed", "a saved configuration shadows a newer published one"),
                      ("CachedDataCoversConfig", "cached data stays cut to the states configured when it was saved"),
                      ("CallerConfigUntouched", "get_features appends to the caller's own feature list on every run")):
        common.mc(run, "MC_DataSources", f"MC_DataSources_demo_{inv}.cfg", expect_violation=inv, workers=4, name=f"demo: {what}")
    traces = []
    # the three demonstrations as concrete histories: the code must do what the counterexamples say
    demo = {k: datasources.run_events(v) for k, v in datasources.DEMOS.items()}
    last = {k: [e for e in t["events"] if e["op"] == "run"][-1] for k, t in demo.items()}
    # (what the counterexamples show is today's behaviour, not something a user relies on: a repaired tree is counted
    # as drift in the evidence, never reported)
    drift = run.cov.setdefault("advisory_drift", {})
    if not (last["stale_config"]["outcome"] == "ok" and last["stale_config"]["obs"]["cfgVer"] == 1):
        drift["demo_stale_config_not_reproduced"] = 1
    if not (last["cached_data_cut_to_old_states"]["outcome"] == "ok" and last["cached_data_cut_to_old_states"]["obs"]["dataStates"] == ["AA"]):
        drift["demo_cached_data_not_reproduced"] = 1
    if last["caller_dictionary_grows"]["after"]["callerExtra"] != 2:
        drift["demo_caller_dictionary_not_reproduced"] = 1
    traces += list(demo.values())
    n_jobs = 16 if tier == "quick" else 160
    for recs in common.pool().map(_job_datasources, [(seed * 1000 + k, 25) for k in range(n_jobs)], chunksize=1):
        traces += recs
    for t in traces:
        for e in t["events"]:
            if e["op"] != "run":
                continue
            if e["outcome"] not in ("ok", "failed"):
                run.violation("run_raised", {"clause": "run_raised", "outcome": e["outcome"]}, t)
            if e["outcome"] == "failed":
                run.witness("run_without_any_source")
            if e["outcome"] == "ok":
                run.witness("run_completed")
                if e["after"]["localcfg"]["kind"] != "none" and e["cfgArg"] != "own" and e["obs"]["cfgVer"] == e["after"]["localcfg"]["ver"]:
                    run.witness("config_from_working_directory_or_saved")
                if e["cfgArg"] == "own" and e["saveCfg"]:
                    run.witness("caller_dictionary_saved")
    traces = [t for t in traces if all(e["op"] != "run" or e["outcome"] in ("ok", "failed") for e in t["events"])]

    def on_reject(tr, clause, inv):
        run.violation(clause, {"clause": clause}, {"trace": tr})

    n_ok = tracecheck.validate("Trace_DataSources", "Trace_DataSources.cfg", traces, on_reject, run=run, chunk=500)
    run.cov["traces_validated_against_impl"] += n_ok
    run.sample({"recorded": traces[3]})
    run.finish(require_witnesses=["run_without_any_source", "run_completed", "config_from_working_directory_or_saved", "caller_dictionary_saved"])


# ---------------------------------------------------------------------------------------------------------------
# S06: clipping bounds of a partially reported unit (bootstrap estimator)


def _job_partial_bounds(rows):
    import warnings
    from fractions import Fraction

    import pandas as pd

    from harness import synth  # noqa: F401
    from elexmodel.models.BootstrapElectionModel import BootstrapElectionModel

    warnings.filterwarnings("ignore")
    bad = []
    groups = {}
    for r in rows:
        s = r["sc"]
        groups.setdefault((s["kind"], tuple(s["e"]), tuple(s["lb"]), tuple(s["ub"])), []).append(r)
    for (kind, e, lb, ub), rs in groups.items():
        fl = lambda q: float(Fraction(q[0], q[1]))  # noqa: E731
        settings = {"percent_expected_vote_error_bound": fl(e), "features": ["baseline_normalized_margin"]}
        col = "results_normalized_margin" if kind == "margin" else "turnout_factor"
        settings.update({"y_unobserved_lower_bound": fl(lb), "y_unobserved_upper_bound": fl(ub)} if kind == "margin"
                        else {"z_unobserved_lower_bound": fl(lb), "z_unobserved_upper_bound": fl(ub)})
        model = BootstrapElectionModel(model_settings=settings)
        df = pd.DataFrame({"percent_expected_vote": [float(r["sc"]["pev"]) for r in rs], col: [fl(r["sc"]["v"]) for r in rs]})
        try:
            lo, hi = model._generate_nonreporting_bounds(df, col)
        except Exception as ex:  # noqa: BLE001
            bad.append({"clause": "raised", "exc": f"{type(ex).__name__}: {str(ex)[:200]}", "group": [kind, e, lb, ub]})
            continue
        for r, a, b in zip(rs, lo.ravel(), hi.ravel()):
            wl, wu = fl(r["out"]["lower"]), fl(r["out"]["upper"])
            if not (abs(a - wl) <= 1e-9 * max(1, abs(wl)) and abs(b - wu) <= 1e-9 * max(1, abs(wu))):
                bad.append({"clause": "bounds", "scenario": r["sc"], "expected": [wl, wu], "observed": [float(a), float(b)]})
    return bad


def s06(tier, seed):
    """PartialBounds.tla: every scenario of the grid replayed into BootstrapElectionModel._generate_nonreporting_bounds."""
    run = report.Run("S06", tier, seed)
    run.assumptions += ["supplementary model, not a listed property: whole percentages 0..104, exact rationals; the observed margin lies in the naive range"]
    res = tlc.run_tlc("MC_PartialBounds", "MC_PartialBounds.cfg", workers=1, timeout=600, keep_stdout=False)
    run.add_tlc("MC_PartialBounds", res)
    if res.violation:
        run.violation(f"tlc:{res.violation}", {"model": "MC_PartialBounds"}, {"trace": res.error_trace[:60]})
    common.mc(run, "MC_PartialBounds", "MC_PartialBounds_demo.cfg", expect_violation="MarginNarrowsUpTo100", workers=1,
              name="demo: at 100 percent (still below the reporting threshold) the margin interval jumps back to the whole range")
    scen = [v for t, v in res.printed if t == "SCEN"]
    run.cov["exhaustive"] = True
    jobs = [scen[i : i + 400] for i in range(0, len(scen), 400)]
    for bads, job in zip(common.pool().map(_job_partial_bounds, jobs, chunksize=1), jobs):
        run.cov["scenarios_replayed_into_impl"] += len(job)
        for b in bads:
            run.violation(b["clause"], {"clause": b["clause"]}, b)
    for s in scen:
        p = s["sc"]["pev"]
        run.witness("naive_bounds" if (p < 50 or p >= 100) else "partial_bounds")
        if s["sc"]["kind"] == "turnout" and s["sc"]["v"][0] == 0 and 50 <= p < 100:
            run.witness("zero_turnout_upper_replaced")
    run.sample({"scenario": scen[0]})
    run.finish(require_witnesses=["naive_bounds", "partial_bounds", "zero_turnout_upper_replaced"])


# ---------------------------------------------------------------------------------------------------------------
# S07: one historical evaluation (HistoricalModelClient)


def s07(tier, seed):
    """HistoricalRun.tla: recorded historical evaluations of the real client (local and non-local interpreters) validated by Trace_HistoricalRun."""
    from harness import controla, histflow, tracecheck

    run = report.Run("S07", tier, seed)
    run.assumptions += ["supplementary model, not a listed property: the code AS FOUND, with its deviations named (only requested estimands are blanked, "
                        "inner runs save by default, save_output omitted -> TypeError outside local, the evaluation is never serialisable)",
                        "nonparametric estimator, 40 units, one level; 0-2 historical elections"]
    common.mc(run, "MC_HistoricalRun", "MC_HistoricalRun.cfg", timeout=900, workers=8)
    for name, inv in (("typeerror", "NeverTypeError"), ("evaluation", "EvaluationWrittenWhenAsked"), ("omitted", "OmittedOptionWritesNothing"), ("turnout", "AllHiddenResultsBlank")):
        common.mc(run, "MC_HistoricalRun", f"MC_HistoricalRun_demo_{name}.cfg", expect_violation=inv, workers=4, name=f"demo: {inv} is violated by the code as found")
    rnd = random.Random(seed)
    n = 48 if tier == "quick" else 400
    jobs = [histflow.make_job(i, rnd) for i in range(n)]
    batches = []
    for envname in ("local", "remote"):
        for v, part in enumerate([jobs[i::4] for i in range(4)]):
            batches.append((envname, controla.env_of(envname, v), part))
    outs = common.pool().map(controla.spawn_job, [(env, part) for _, env, part in batches], chunksize=1)
    traces = []
    for (envname, _, part), (status, res) in zip(batches, outs):
        if status != "ok":
            raise tlc.MachineryError(f"historical child failed: {res}")
        for r in res:
            if str(r["outcome"]).startswith(("raised", "harness_error")):
                run.violation("run_raised", {"clause": "run_raised", "outcome": r["outcome"]}, r)
                continue
            units = {h: {u: {"pev": int(x["pev"]), "res": {c: int(v) for c, v in x["res"].items()}, "fed": {c: int(v) for c, v in x["fed"].items()}} for u, x in us.items()}
                     for h, us in r["units"].items()}
            traces.append({"job": r["job"], "env": envname, "outcome": r["outcome"], "puts": r["puts"], "result": r["result"], "units": units})
            run.witness("outcome_" + r["outcome"])
            if envname == "remote" and r["puts"]:
                run.witness("remote_puts_seen")
            if any(x["pev"] < 100 and x["fed"].get("turnout", 0) > 0 for us in units.values() for x in us.values()):
                run.witness("turnout_of_hidden_unit_visible")

    def on_reject(tr, clause, inv):
        run.violation(clause, {"clause": clause, "env": tr["env"]}, {"trace": {k: v for k, v in tr.items() if k != "units"}})

    n_ok = tracecheck.validate("Trace_HistoricalRun", "Trace_HistoricalRun.cfg", traces, on_reject, run=run, chunk=200)
    run.cov["traces_validated_against_impl"] += n_ok
    run.sample({"recorded": {k: v for k, v in traces[0].items() if k != "units"}})
    run.finish(require_witnesses=["outcome_ok", "outcome_not_enough", "outcome_client_error", "outcome_type_error", "remote_puts_seen", "turnout_of_hidden_unit_visible"])


# ---------------------------------------------------------------------------------------------------------------
# S08: the command line tool


def _job_cli(rows):
    import pandas as pd
    from click.testing import CliRunner

    from harness import synth  # noqa: F401
    import elexmodel.cli as cli_mod

    log = []

    class FakeHandler:
        def __init__(self, election, office, gut, estimands, historical=False, unexpected_units=0, s3_client=None, **k):
            log.append({"f": "handler", "args": {"estimands": list(estimands), "historical": bool(historical), "unexpected": int(unexpected_units)}})

        def shuffle(self, *a, **k):
            log.append({"f": "shuffle", "args": []})

        def get_percent_fully_reported(self, p):
            log.append({"f": "percent_reporting", "args": int(p)})
            return "FEED"

    def norm_kw(kw):
        fe = kw.get("fixed_effects")
        key = "-" if fe == {} else (list(fe)[0] if isinstance(fe, dict) and len(fe) == 1 and list(fe.values())[0] == ["all"] else f"?{fe!r}")
        mp = kw.get("model_parameters")
        return {
            "aggregates": {"given": "aggregates" in kw, "v": list(kw.get("aggregates", []))},
            "fixed_effects": {"kind": "dict" if isinstance(fe, dict) else type(fe).__name__, "key": key},
            "save_output": list(kw.get("save_output", ["<missing>"])), "historical": bool(kw.get("historical")),
            "national_summary": bool(kw.get("national_summary")), "unexpected_units": kw.get("unexpected_units"),
            "percent_reporting": kw.get("percent_reporting"),
            "model_parameters": "absent" if mp == {} else ("literal" if mp == {"lambda_": 1} else f"?{mp!r}"),
            "lhs_called_contests": list(kw.get("lhs_called_contests") or []),
        }

    def pos(data, eid, office, estimands, pis, thr, gut):
        assert data == "FEED"
        return {"estimands": list(estimands), "pis": [repr(float(x)) for x in pis], "threshold": int(thr), "gut": gut}

    class FakeClient:
        def get_estimates(self, data, eid, office, estimands, pis, thr, gut, **kw):
            log.append({"f": "get_estimates", "args": {"pos": pos(data, eid, office, estimands, pis, thr, gut), "kw": norm_kw(kw)}})
            return {"state_data": pd.DataFrame({"postal_code": ["AA"]})}

        def get_national_summary_votes_estimates(self, w, base, alphas):
            log.append({"f": "get_national_summary_votes_estimates", "args": [repr(w), repr(base), repr(alphas[0]) if len(alphas) == 1 else repr(alphas)]})

    class FakeHistorical(FakeClient):
        def get_historical_evaluation(self, data, eid, office, estimands, pis, thr, gut, **kw):
            log.append({"f": "get_historical_evaluation", "args": {"pos": pos(data, eid, office, estimands, pis, thr, gut), "kw": norm_kw(kw)}})
            ev = {e: {"unit_data": {}, "state_data": {}, "county_data": {}} for e in estimands}
            return {"h1": {"evaluation": ev, "estimates": {"state_data": pd.DataFrame({"postal_code": ["AA"]})}}}

    saved = (cli_mod.MockLiveDataHandler, cli_mod.ModelClient, cli_mod.HistoricalModelClient)
    cli_mod.MockLiveDataHandler, cli_mod.ModelClient, cli_mod.HistoricalModelClient = FakeHandler, FakeClient, FakeHistorical
    bad = []
    try:
        for sc in rows:
            o = sc["opt"]
            args = [synth.EID, "--office_id", "G"]
            for e in o["ests"]:
                args += ["--estimands", e]
            for a in o["aggs"]:
                args += ["--aggregates", a]
            if o["fe"] == "json":
                args += ["--fixed_effects", '{"county_classification": ["all"]}']
            elif o["fe"] == "name":
                args += ["--fixed_effects", "postal_code"]
            for s in o["save"]:
                args += ["--save_output", s]
            if o["pis"] == "one":
                args += ["--prediction_intervals", "0.8"]
            if o["unexpected"]:
                args += ["--unexpected_units", str(o["unexpected"])]
            if o["reporting"] != 100:
                args += ["--percent_reporting", str(o["reporting"])]
            if o["params"] == "literal":
                args += ["--model_parameters", '{"lambda_": 1}']
            for c in o["lhs"]:
                args += ["--lhs_called_contests", c]
            if o["historical"]:
                args.append("--historical")
            if o["national"]:
                args.append("--national_summary")
            del log[:]
            res = CliRunner().invoke(cli_mod.cli, args)
            outcome = "ok" if res.exception is None else type(res.exception).__name__
            obs_calls = json.loads(json.dumps(log))
            want = sc["calls"]
            if outcome != sc["outcome"]:
                bad.append({"clause": "outcome", "expected": sc["outcome"], "observed": outcome, "detail": str(res.exception)[:200], "opt": o})
            elif obs_calls != want:
                k = next((i for i, (a, b) in enumerate(zip(obs_calls, want)) if a != b), min(len(obs_calls), len(want)))
                bad.append({"clause": "calls", "first_difference_at": k, "expected": want[k] if k < len(want) else None,
                            "observed": obs_calls[k] if k < len(obs_calls) else None, "opt": o})
    finally:
        cli_mod.MockLiveDataHandler, cli_mod.ModelClient, cli_mod.HistoricalModelClient = saved
    return bad


def s08(tier, seed):
    """CliDispatch.tla: every exported option combination run through the real click command with recording stand-ins for the handler and the clients."""
    global json
    import json

    run = report.Run("S08", tier, seed)
    run.assumptions += ["supplementary model, not a listed property: the command's control flow and argument shaping; the data handler and the two clients are "
                        "replaced by recording stand-ins (their behaviour is the business of the other models)"]
    res = tlc.run_tlc("MC_CliDispatch", "MC_CliDispatch.cfg", workers=1, timeout=600, keep_stdout=False)
    run.add_tlc("MC_CliDispatch", res)
    if res.violation:
        run.violation(f"tlc:{res.violation}", {"model": "MC_CliDispatch"}, {"trace": res.error_trace[:60]})
    common.mc(run, "MC_CliDispatch", "MC_CliDispatch_demo.cfg", expect_violation="HistoricalRunAlwaysReports", workers=1,
              name="demo: a historical run without --aggregates ends in KeyError after the evaluation was computed")
    scen = [v for t, v in res.printed if t == "SCEN"]
    rnd = random.Random(seed)
    if tier == "quick":
        scen = rnd.sample(scen, 3000)
    else:
        run.cov["exhaustive"] = True
    jobs = [scen[i : i + 200] for i in range(0, len(scen), 200)]
    for bads, job in zip(common.pool().map(_job_cli, jobs, chunksize=1), jobs):
        run.cov["scenarios_replayed_into_impl"] += len(job)
        for b in bads:
            run.violation(b["clause"], {"clause": b["clause"]}, b)
    for s in scen:
        run.witness("outcome_" + s["outcome"])
        if s["opt"]["national"] and not s["opt"]["historical"]:
            run.witness("national_summary_requested")
    run.sample({"scenario": scen[0]})
    run.finish(require_witnesses=["outcome_ok", "outcome_KeyError", "national_summary_requested"])


# ---------------------------------------------------------------------------------------------------------------
# S09: one model object of the bootstrap estimator (pipeline steps, the stream of draws, clips, what is stored)


def _job_bootrun_scenario(arg):
    from harness import bootrun

    return bootrun.job_scenario(arg)


def _job_bootrun_random(seed):
    from harness import bootrun

    return bootrun.job_random(seed)


def s09(tier, seed):
    """BootstrapRun.tla: TLC-exported shape classes realised as real client runs, random large runs, all validated by Trace_BootstrapRun."""
    from harness import bootrun, tracecheck

    run = report.Run("S09", tier, seed)
    run.assumptions += ["supplementary model, not a listed property: numbers are abstract; the model keeps the order of the pipeline steps, "
                        "the stream of draws from the model's generator with the requested shapes, the stage at which the clips happen, "
                        "what a model object stores and what a second call on it does",
                        "the contest columns are counted over all units handed to the model, unexpected ones included (root of open finding F12)"]
    if tier == "thorough":
        common.mc(run, "MC_BootstrapRun", "MC_BootstrapRun_thorough.cfg", timeout=1800, workers=16)
    common.mc(run, "MC_BootstrapRun", "MC_BootstrapRun_demo_clip.cfg", expect_violation="ClipLast", workers=4,
              name="demo: clipping the margin before the blending / correction steps lets an unclipped factor into the stored products")
    common.mc(run, "MC_BootstrapRun", "MC_BootstrapRun_demo_F12.cfg", expect_violation="StreamIgnoresUnexpected", workers=4,
              name="demo (finding F12): an unexpected unit in a state of its own adds a contest column and changes the stream of draws")
    res = tlc.run_tlc("MC_BootstrapRun", "MC_BootstrapRun_export.cfg", workers=1, timeout=900, keep_stdout=False)
    run.add_tlc("MC_BootstrapRun_export", res)
    if res.violation:
        run.violation(f"tlc:{res.violation}", {"model": "MC_BootstrapRun"}, {"trace": res.error_trace[:60]})
    seen, scen = set(), []
    for t, v in res.printed:
        if t != "SCEN" or v["pres"]:
            continue
        key = report.dumps(v, sort_keys=True)
        if key not in seen:
            seen.add(key)
            scen.append(v)
    rnd = random.Random(seed)
    rnd.shuffle(scen)
    run.cov["shape_classes_exported"] = len(scen)
    n_scen = 90 if tier == "quick" else len(scen)
    n_rand = 40 if tier == "quick" else 480
    # every chosen shape class is realised twice: as it is, and as a twin with the same sizes but other strata / covariates
    items = [(i, sc, tw) for i, sc in enumerate(scen[:n_scen]) for tw in (False, True)]
    outs = common.pool().map(_job_bootrun_scenario, items, chunksize=4)
    outs += common.pool().map(_job_bootrun_random, [seed % 1000 + i for i in range(n_rand)], chunksize=2)
    traces = []
    for o in outs:
        if o["raised"]:
            run.violation("run_raised", {"clause": "run_raised"}, {k: v for k, v in o.items() if k != "runs"})
            continue
        if "scenario" in o:
            run.cov["scenarios_replayed_into_impl"] += 1
        for r in o["runs"]:
            traces.append(r)
            run.witness("district_column" if r["district"] and r["n_columns"] > len({u[0] for u in r["train"] + r["test"] + r["unexp"]}) else "state_columns_only")
            run.witness("single_contest_effect_nothing_drawn" if r["eps_count"] == 1 else "several_contest_effects")
            run.witness("lambda_given" if r["lambda_given"] else "lambda_cross_validated")
            if r["pres"]:
                run.witness("presidential_correction")
            if r["n_calls"] > 1:
                run.witness("second_call_on_the_object")
            if r["unexp"]:
                run.witness("unexpected_units")
            if r["eps_count"] < r["n_columns"]:
                run.witness("contest_without_effect")
    # the model's StreamIsFunctionOfSizes on the code: runs with equal sizes made the same draws
    by_sig = {}
    for r in traces:
        by_sig.setdefault(bootrun.signature(r), []).append(r)
    for sig, rs in by_sig.items():
        if len(rs) > 1:
            run.witness("equal_sizes_compared")
        for r in rs[1:]:
            if bootrun.stream(r) != bootrun.stream(rs[0]):
                run.violation("stream_is_a_function_of_the_sizes", {"clause": "stream_is_a_function_of_the_sizes"},
                              {"sizes": list(sig), "a": bootrun.stream(rs[0]), "b": bootrun.stream(r), "origin_a": rs[0]["origin"], "origin_b": r["origin"]})
                break

    def on_reject(tr, clause, inv):
        run.violation(clause, {"clause": clause}, {"trace": {k: v for k, v in tr.items() if k not in ("train", "test", "unexp")}})

    n_ok = tracecheck.validate("Trace_BootstrapRun", "Trace_BootstrapRun.cfg", traces, on_reject, run=run, chunk=150)
    run.cov["traces_validated_against_impl"] += n_ok
    run.sample({"recorded": {k: v for k, v in traces[0].items() if k not in ("train", "test", "unexp")}})
    run.finish(require_witnesses=["district_column", "state_columns_only", "single_contest_effect_nothing_drawn", "several_contest_effects",
                                  "lambda_given", "lambda_cross_validated", "presidential_correction", "second_call_on_the_object",
                                  "unexpected_units", "contest_without_effect", "equal_sizes_compared"])
