"""Replay a violation file written by a check:  python -m checks.replay <path>

* a recorded trace (detail.trace): the trace is validated again by the trace specification of its property with TLC,
  and the failing clause is printed (this re-checks the recorded run, it does not re-run the implementation);
* a TLC-exported ledger scenario (detail.sc + detail.expect): the scenario is materialised again, run through the real
  client on the CURRENT tree and compared with the expected terminal state;
* anything else: the file is printed.
Exit 1 if the violation reproduces, 0 if it does not, 2 if the file cannot be replayed mechanically."""
import json
import sys

from harness import report, tlc, tracecheck

TRACE_SPEC = {
    "C01": ("Trace_Ledger", "Trace_Ledger_C01.cfg"),
    "C02": ("Trace_Ledger", "Trace_Ledger_C02.cfg"),
    "C03": ("Trace_Ledger", "Trace_Ledger_C03.cfg"),
    "C09": ("Trace_Ledger", "Trace_Ledger_C09.cfg"),
    "C10": ("Trace_Interference", "Trace_Interference.cfg"),
    "C11": ("Trace_LedgerDelta", "Trace_LedgerDelta.cfg"),
    "C06": ("Trace_Bootstrap", "Trace_Bootstrap_C06.cfg"),
    "C07": ("Trace_Bootstrap", "Trace_Bootstrap_C07.cfg"),
    "C08": ("Trace_NationalSummary", "Trace_NationalSummary.cfg"),
}


def main():
    path = sys.argv[1]
    d = json.load(open(path))
    prop, det = d.get("property"), d.get("detail", {})
    print(f"property {prop}, clause {d.get('clause')}, facts {json.dumps(d.get('facts'))[:300]}")
    if isinstance(det, dict) and "trace" in det and prop in TRACE_SPEC:
        mod, cfg = TRACE_SPEC[prop]
        seen = []
        tracecheck.validate(mod, cfg, [det["trace"]], lambda tr, clause, inv: seen.append((clause, inv)))
        if seen:
            print(f"REPRODUCED: trace rejected by {mod}/{cfg}: clause {seen[0][0]} (invariant {seen[0][1]})")
            return 1
        print("not reproduced: the recorded trace is accepted by the current specification")
        return 0
    if isinstance(det, dict) and "sc" in det and "expect" in det and prop == "C01":
        from checks import ledger_checks

        bad = ledger_checks._job_replay(([det["sc"]], [det["expect"]], det.get("estimator", "nonparametric"), 1))
        if bad:
            print("REPRODUCED on the current tree:", report.dumps([{k: v for k, v in b.items() if k not in ("sc", "expect", "pack")} for b in bad])[:1500])
            return 1
        print("not reproduced on the current tree")
        return 0
    print(json.dumps(d, indent=1)[:6000])
    return 2


if __name__ == "__main__":
    try:
        sys.exit(main())
    except tlc.MachineryError as e:
        print("MACHINERY:", e)
        sys.exit(2)
