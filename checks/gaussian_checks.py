"""C15 - gaussian intervals use a group's own calibration if big enough, else its parent (engine `gaussian`).

Decided by spec/GaussianFallback.tla:
  * TLC exhaustively: every structure of <= 2 states x <= 2 (thorough: 3) sub-groups x calibration counts in
    {0,1,2,9,10,11} x has-outstanding-units, list lengths 1 and 2 (and the three-column lists of district offices),
    invariants ExactlyOne / RightPool / NoSibling / FloorAligned + machinery lemmas;
  * spec -> code: TLC's terminal states replayed into the real GaussianElectionModel.get_aggregate_prediction_intervals
    (fit calls, fitted model frame, assignment compared with TLC's; numeric clause from the logged pool statistics);
  * code -> spec: real gaussian estimate runs through the public client, one trace per aggregate-interval call,
    validated by spec/Trace_GaussianFallback.tla.
"""
import random
import traceback

from checks import common
from harness import report, tlc, tracecheck

ALPHAS = [0.5, 0.7, 0.9, 0.95]


# ---------------------------------------------------------------------------------------------------------------
# pool jobs


def _key(k):
    return tuple(int(x) for x in k)


def _pool(p):
    return tuple(sorted(_key(k) for k in p))


def serving_levels(sc, exp):
    return tuple(sorted(sum(1 for x in r["mkey"] if x != 0) for r in exp["modeled"]))


def compare(obs, exp):
    """Observed abstract state of one replayed scenario against TLC's terminal state.

    `bad`: clauses of the property (which pool serves which group, exactly one, finite).  `notes`: differences in the
    *shape* of the computation only (sequence of fit calls, rows of the model frame) - the property does not speak about
    them, so they are recorded in the evidence as advisory drift between specification and code, never as violations."""
    bad, notes = [], []
    ecalls = [(c["lvl"], c["n"], sorted((_key(x["key"]), x["n"]) for x in c["counts"])) for c in exp["calls"]]
    ocalls = [(c["lvl"], c["n"], sorted(c["counts"])) for c in obs["calls"]]
    if ecalls != ocalls:
        notes.append({"clause": "fit_calls", "expected": ecalls, "observed": ocalls})
    emodels = sorted((_key(m["key"]), _pool(m["pool"])) for m in exp["models"])
    omodels = sorted((m["key"], _pool(m["pool"]) if m["pool"] is not None else (("unknown",),)) for m in obs["models"])
    if emodels != omodels:
        notes.append({"clause": "model_frame", "expected": emodels, "observed": omodels,
                    "observed_stats": [m["stats"] for m in obs["models"] if m["pool"] is None][:3]})
    out_groups = [_key(g) for g in exp["rows"]]
    erows, orows = {}, {}
    for r in exp["modeled"]:
        erows.setdefault(_key(r["key"]), []).append(_pool(r["pool"]))
    for r in obs["modeled"]:
        orows.setdefault(r["key"], []).append(r)
    for g in out_groups:
        o = orows.get(g, [])
        if len(o) != 1:
            bad.append({"clause": "exactly_one_model", "group": g, "observed_rows": len(o)})
            continue
        if not o[0]["finite"]:
            bad.append({"clause": "model_finite", "group": g, "stats": o[0]["stats"]})
            continue
        op = _pool(o[0]["pool"]) if o[0]["pool"] is not None else None
        if op is None:
            # (inflate, centre) are not the weighted median / inflation of any pool the data can form
            bad.append({"clause": "statistics_of_no_pool", "group": g, "expected_pool": erows.get(g), "stats": o[0]["stats"]})
        elif [op] != erows.get(g):
            bad.append({"clause": "right_pool", "group": g, "expected": erows.get(g), "observed": op, "stats": o[0]["stats"]})
    for g in orows:
        if g not in out_groups:
            bad.append({"clause": "modeled_group_has_outstanding_units", "group": g})
    for p in obs["problems"]:
        bad.append({"clause": "projection", "msg": p})
    return bad, notes


def _job_replay(arg):
    from harness import gaussian as G

    scen, seed, boot_iter = arg
    sc, exp = scen["sc"], scen["expect"]
    rnd = random.Random(seed)
    alpha = rnd.choice(ALPHAS)
    second = rnd.choice(["county_fips", "county_fips", "county_classification"]) if len(sc["leaves"][0]["key"]) == 2 else None
    info = {"L": sc["L"], "D": len(sc["leaves"][0]["key"]), "alpha": alpha, "second_col": second, "seed": seed, "boot_iterations": boot_iter}
    try:
        fr, call = G.run_scenario(sc, seed, alpha=alpha, boot_iterations=boot_iter, second_col=second)
    except tlc.MachineryError:
        raise
    except Exception as e:  # noqa: BLE001
        return {"bad": [{"clause": "run_raised", "exc": type(e).__name__, "msg": str(e)[:300], "tb": traceback.format_exc()[-1500:]}], "info": info, "w": {}, "notes": []}
    obs = G.project(fr, call)
    bad, notes = compare(obs, exp)
    bad += G.numeric_check(fr, call, obs)
    w = {}
    for r in obs["modeled"]:
        if r.get("floor_active"):
            w["floor_applied_to_group_interval"] = 1
            if r.get("displaced"):
                w["floor_applied_to_row_displaced_in_modeled_bounds"] = 1
        if r.get("correction", 0) > 10:
            w["correction_larger_than_10_votes"] = 1
    info["obs_modeled"] = [{"key": r["key"], "pool": _pool(r["pool"]) if r["pool"] is not None else None} for r in obs["modeled"]]
    return {"bad": bad, "info": info, "w": w, "notes": notes}


def _job_real(arg):
    from harness import gaussian as G

    seed, boot_iter, district = arg
    try:
        calls, info = G.run_real(seed, boot_iterations=boot_iter, district=district)
    except Exception as e:  # noqa: BLE001
        if type(e).__name__ == "ModelNotEnoughSubunitsException":
            return {"skipped": str(e)[:200]}  # the minimum-units gate (C14), not an interval computation
        return {"exc": {"clause": "run_raised", "exc": type(e).__name__, "msg": str(e)[:300], "seed": seed, "district": district,
                        "tb": traceback.format_exc()[-1500:]}}
    out = []
    for c in calls:
        tr, problems = G.trace_of(c)
        tr["meta"].update(seed=seed, district=district, shape=info["shape"])
        problems = problems + G.numeric_check_real(c)
        out.append((tr, problems))
    return {"traces": out}


# ---------------------------------------------------------------------------------------------------------------


def tlc_batch(run, jobs):
    """Run several TLC jobs concurrently (threads around subprocesses), then book them in the given order.
    job = dict(name, cfg, kind in {"mc", "demo", "export"}, workers, + run_tlc keywords).  Returns {name: scenarios}."""
    from concurrent.futures import ThreadPoolExecutor

    def one(j):
        kw = {k: v for k, v in j.items() if k not in ("name", "cfg", "kind", "expect")}
        try:
            return tlc.run_tlc("MC_GaussianFallback", j["cfg"], keep_stdout=False, **kw)
        except tlc.MachineryError as e:
            return e

    with ThreadPoolExecutor(max_workers=len(jobs)) as ex:
        results = list(ex.map(one, jobs))
    scen = {}
    for j, res in zip(jobs, results):
        if isinstance(res, Exception):
            raise res
        run.add_tlc(j["name"], res)
        if j["kind"] == "demo":
            if res.violation != j["expect"]:
                raise tlc.MachineryError(f"{j['cfg']}: expected TLC to refute {j['expect']} in the deliberately wrong design, got {res.violation}")
            continue
        if res.violation is not None:
            run.violation(f"tlc:{res.violation}", {"model": j["cfg"], "invariant": res.violation}, {"counterexample": res.error_trace[:200]})
        if j["kind"] == "export":
            scen[j["name"]] = [v for t, v in res.printed if t == "SCEN"]
    return scen


def stratum(s):
    sc, exp = s["sc"], s["expect"]
    only_out = any(lf["out"] and lf["cal"] == 0 for lf in sc["leaves"])
    at_thr = any(c["n"] == exp["T"] for call in exp["calls"][:1] for c in call["counts"])
    return (sc["L"], len(sc["leaves"][0]["key"]), serving_levels(sc, exp), exp["T"] < 10, only_out, at_thr)


def dedupe_projected(scens):
    """Two scenarios whose structure at the requested level is the same (same groups of the first L key columns, same
    calibration count and outstanding flag per group) are the same abstract scenario of the property at that level:
    the split of a group's units over finer keys that are not requested cannot matter.  Keep one representative per
    projected structure when L is smaller than the leaf depth; keep everything when L = depth."""
    seen, out = set(), []
    for s in scens:
        sc = s["sc"]
        L, D = sc["L"], len(sc["leaves"][0]["key"])
        if L == D:
            out.append(s)
            continue
        g = {}
        for lf in sc["leaves"]:
            k = _key(lf["key"])[:L]
            c, o = g.get(k, (0, False))
            g[k] = (c + lf["cal"], o or lf["out"])
        sig = (L, D, tuple(sorted((k, v[0], v[1]) for k, v in g.items())))
        if sig not in seen:
            seen.add(sig)
            out.append(s)
    return out


def sample_stratified(scens, n, rnd):
    if n >= len(scens):
        return list(scens), True
    by = {}
    for s in scens:
        by.setdefault(stratum(s), []).append(s)
    keys = sorted(by)
    pick, left = [], n
    # round-robin over strata so that small strata are taken completely
    pools = {k: rnd.sample(by[k], len(by[k])) for k in keys}
    while left > 0 and any(pools.values()):
        for k in keys:
            if pools[k] and left > 0:
                pick.append(pools[k].pop())
                left -= 1
    return pick, False


def witness_scenario(run, s):
    sc, exp = s["sc"], s["expect"]
    D = len(sc["leaves"][0]["key"])
    for r in exp["modeled"]:
        nn = sum(1 for x in r["mkey"] if x != 0)
        if nn == sc["L"]:
            run.witness("group_served_by_own_calibration")
        elif nn == 0:
            run.witness("group_served_by_all_calibration_units")
        else:
            run.witness("group_served_by_enclosing_group")
    cal_of = {}
    for lf in sc["leaves"]:
        cal_of[_key(lf["key"])[: sc["L"]]] = cal_of.get(_key(lf["key"])[: sc["L"]], 0) + lf["cal"]
    for g in exp["rows"]:
        if cal_of.get(_key(g), 0) == 0:
            run.witness("group_present_only_among_nonreporting_units")
        if cal_of.get(_key(g), 0) == exp["T"]:
            run.witness("group_exactly_at_threshold")
    if exp["T"] < 10:
        run.witness("fewer_than_10_calibration_units")
    if len({_key(lf["key"])[0] for lf in sc["leaves"]}) > 1:
        run.witness("multi_state")
    else:
        run.witness("single_state")
    if D == 3 and sc["L"] == 3:
        run.witness("three_column_list")


def shape_note(run, clause, detail):
    d = run.cov.setdefault("advisory_shape_drift", {"counts": {}, "examples": []})
    d["counts"][clause] = d["counts"].get(clause, 0) + 1
    if len(d["examples"]) < 3:
        d["examples"].append(report.dumps(detail)[:1500])


def replay(run, scens, seed, boot_iter, label):
    jobs = [(s, seed + 17 * n, boot_iter) for n, s in enumerate(scens)]
    results = common.pool().map(_job_replay, jobs, chunksize=8)
    for (s, sd, _), r in zip(jobs, results):
        run.cov["scenarios_replayed_into_impl"] += 1
        witness_scenario(run, s)
        for k, v in r["w"].items():
            run.witness(k, v)
        for nt in r["notes"]:
            shape_note(run, nt["clause"], {"scenario": s["sc"], "note": nt})
        if len(run.violations) >= 40:
            continue
        for b in r["bad"]:
            facts = {"clause": b["clause"], "L": r["info"]["L"], "D": r["info"]["D"], "direction": "replay"}
            if "exc" in b:
                facts["exc"] = b["exc"]
            run.violation(b["clause"], facts, {"problem": b, "scenario": s["sc"], "expect": s["expect"], "run": r["info"], "batch": label})
    if scens:
        run.sample({"replayed_scenario": scens[0]["sc"], "expected_terminal_state": scens[0]["expect"], "batch": label})


def real_traces(run, n_runs, seed, boot_iter):
    jobs = [(seed + n, boot_iter, n % 3 == 2) for n in range(n_runs)]
    results = common.pool().map(_job_real, jobs, chunksize=1)
    traces = []
    for job, r in zip(jobs, results):
        if "skipped" in r:
            run.cov["real_runs_stopped_by_minimum_units_gate"] = run.cov.get("real_runs_stopped_by_minimum_units_gate", 0) + 1
            continue
        if "exc" in r:
            run.violation("run_raised", {"clause": "run_raised", "exc": r["exc"]["exc"], "direction": "trace"}, r["exc"])
            continue
        for tr, problems in r["traces"]:
            traces.append(tr)
            for p in problems:
                run.violation(p["clause"], {"clause": p["clause"], "direction": "trace", "L": tr["sc"]["L"]}, {"problem": p, "trace": tr})
    for tr in traces:
        L = tr["sc"]["L"]
        cal = {tuple(lf["key"]): lf["cal"] for lf in tr["sc"]["leaves"]}
        ncal = sum(cal.values())
        for r in tr["obs"]["modeled"]:
            own = [list(r["key"])] == [list(k) for k in r["pool"]]
            if own:
                run.witness("trace_group_served_by_own_calibration")
            elif sum(cal[tuple(k)] for k in r["pool"]) == ncal:
                run.witness("trace_group_served_by_all_calibration_units")
            else:
                run.witness("trace_group_served_by_enclosing_group")
            if cal.get(tuple(r["key"]), 0) == 0:
                run.witness("trace_group_present_only_among_nonreporting_units")
        if L == 3:
            run.witness("trace_three_column_list")

    def on_reject(tr, clause, inv):
        run.violation(clause, {"clause": clause, "invariant": inv, "direction": "trace", "L": tr["sc"]["L"]}, {"trace": tr})

    n = tracecheck.validate("Trace_GaussianFallback", "Trace_GaussianFallback.cfg", traces, on_reject, run=run, name="Trace_GaussianFallback")
    run.cov["traces_validated_against_impl"] += n
    # advisory: the same fit calls and the same model frame as the specification's recursion (shape of the computation)
    tracecheck.validate("Trace_GaussianFallback", "Trace_GaussianFallback_shape.cfg", traces,
                        lambda tr, clause, inv: shape_note(run, clause, {"trace_meta": tr["meta"], "sc": tr["sc"]}),
                        run=run, name="Trace_GaussianFallback (advisory shape clauses)", max_rejects=5)
    if traces:
        t = traces[-1]
        run.sample({"recorded_call": {"sc": t["sc"], "obs_modeled": t["obs"]["modeled"][:4], "obs_calls": t["obs"]["calls"][:3], "meta": t["meta"]}})
    return n


def selftest(run=None):
    """Binding self-test of the machinery itself: corrupted recorded traces must be rejected by the trace specification
    and a perturbed expectation must be flagged by the replay comparison.  Raises MachineryError otherwise."""
    import copy

    from harness import gaussian as G

    traces = []
    for sd in range(1, 8):
        calls, _ = G.run_real(sd, boot_iterations=100)
        traces = [G.trace_of(c)[0] for c in calls]
        t0 = traces[-1]
        own = [r for r in t0["obs"]["modeled"] if [r["key"]] == r["pool"]]
        other = [r for r in t0["obs"]["modeled"] if [r["key"]] != r["pool"]]
        if own and other:
            break
    else:
        raise tlc.MachineryError("selftest: no recorded run with both own-pool and fallback groups")

    def corrupt(kind):
        t = copy.deepcopy(t0)
        m = t["obs"]["modeled"]
        if kind == "sibling":
            fb = next(r for r in m if [r["key"]] != r["pool"])
            fb["pool"] = next(r for r in m if [r["key"]] == r["pool"])["pool"]
        elif kind == "missing":
            m.pop()
        elif kind == "duplicate":
            m.append(copy.deepcopy(m[0]))
        elif kind == "nonfinite":
            m[0]["finite"] = False
        return t

    rejected = {}
    for kind in ("sibling", "missing", "duplicate", "nonfinite"):
        got = []
        n = tracecheck.validate("Trace_GaussianFallback", "Trace_GaussianFallback.cfg", [corrupt(kind)], lambda tr, c, i: got.append(c))
        if n != 0 or not got:
            raise tlc.MachineryError(f"selftest: trace corrupted by '{kind}' was accepted")
        rejected[kind] = got[0]
    if tracecheck.validate("Trace_GaussianFallback", "Trace_GaussianFallback.cfg", [copy.deepcopy(t0)], lambda *a: None) != 1:
        raise tlc.MachineryError("selftest: the uncorrupted trace was rejected")
    # replay side: perturb TLC's expectation of one scenario
    sc = {"L": 2, "leaves": [{"key": [1, 1], "cal": 11, "out": True}, {"key": [1, 2], "cal": 2, "out": True}, {"key": [2, 1], "cal": 0, "out": True}]}
    fr, call = G.run_scenario(sc, 5, boot_iterations=100)
    obs = G.project(fr, call)
    exp = {"T": 10, "calls": [], "models": [], "rows": [[1, 1], [1, 2], [2, 1]],
           "modeled": [{"key": [1, 1], "mkey": [1, 1], "pool": [[1, 1]]}, {"key": [1, 2], "mkey": [1, 0], "pool": [[1, 1], [1, 2]]},
                       {"key": [2, 1], "mkey": [0, 0], "pool": [[1, 1], [1, 2]]}]}
    if compare(obs, exp)[0]:
        raise tlc.MachineryError(f"selftest: correct expectation flagged: {compare(obs, exp)[0]}")
    exp["modeled"][1]["pool"] = [[1, 2]]
    if not any(b["clause"] == "right_pool" for b in compare(obs, exp)[0]):
        raise tlc.MachineryError("selftest: perturbed expectation not flagged")
    if run is not None:
        run.cov["selftest"] = {"corrupted_traces_rejected": rejected, "perturbed_expectation_flagged": True}
    return rejected


def c15(tier, seed):
    run = report.Run("C15", tier, seed)
    run.assumptions += [
        "at least 2 calibration units in total and at least one outstanding unit (the client's minimum-units gate leaves >= 3 "
        "calibration units; with 1 unit scipy's bootstrap rejects the sample, with 0 the code returns an empty model)",
        "key columns of calibration / nonreporting rows are not missing",
        "normal quantile, square root and the bootstrap are outside TLA+: the specification decides WHICH pool serves a group; "
        "the bound is recomputed in the projector from the logged statistics with scipy.stats.norm.ppf as trusted base, and "
        "sigma is compared with scipy.stats.bootstrap (basic interval, upper end, level (3+alpha)/4, model seed) of that pool's scores",
        "weighted median: exact rational reference; at an exact tie of the cumulative share with 1/2 the midpoint and both neighbours are admitted",
        "three-column lists (district offices): 'its state' is read as 'the nearest enclosing group that is big enough'",
        "TLC bounds: <= 2 states x <= 2 sub-groups (thorough: 2 x 3) x counts {0,1,2,9,10,11}; larger structures only through validated traces",
    ]
    quick = tier == "quick"
    rnd = random.Random(seed)
    # 1. the design satisfies the property within the bounds (exhaustive), 2a. terminal states exported for replay
    jobs = [
        dict(name="MC_GaussianFallback_quick.cfg", cfg="MC_GaussianFallback_quick.cfg", kind="mc", workers=8, timeout=900),
        dict(name="MC_GaussianFallback_3lvl.cfg", cfg="MC_GaussianFallback_3lvl.cfg", kind="mc", workers=4, timeout=900),
        # the invariants are able to fail: '<=' instead of '<' in the design is refuted by TLC
        dict(name="MC_GaussianFallback_demo ('<=' design, must violate RightPool)", cfg="MC_GaussianFallback_demo.cfg", kind="demo",
             expect="RightPool", workers=1, timeout=300),
    ]
    if quick:
        jobs += [
            dict(name="export 2x2", cfg="MC_GaussianFallback_export_quick.cfg", kind="export", workers=1, timeout=900),
            dict(name="export 1x2x2", cfg="MC_GaussianFallback_export_3lvl_quick.cfg", kind="export", workers=1, timeout=900),
        ]
    else:
        jobs += [
            dict(name="MC_GaussianFallback_thorough.cfg", cfg="MC_GaussianFallback_thorough.cfg", kind="mc", workers=16, timeout=3000, heap="12g"),
            dict(name="MC_GaussianFallback_3lvl_thorough.cfg", cfg="MC_GaussianFallback_3lvl_thorough.cfg", kind="mc", workers=4, timeout=3000, heap="8g"),
            dict(name="MC_GaussianFallback_1x3.cfg", cfg="MC_GaussianFallback_1x3.cfg", kind="mc", workers=2, timeout=900),
            dict(name="export 2x2", cfg="MC_GaussianFallback_export.cfg", kind="export", workers=1, timeout=3000),
            dict(name="export 1x2x2", cfg="MC_GaussianFallback_export_3lvl.cfg", kind="export", workers=1, timeout=3000),
            dict(name="simulate 2x3", cfg="MC_GaussianFallback_sim.cfg", kind="export", workers=1, timeout=3000,
                 simulate="num=3000", seed=seed % 100000, depth=60),
        ]
    scen = tlc_batch(run, jobs)
    # 2. spec -> code
    boot_fast = 200
    scens = scen["export 2x2"] + scen["export 1x2x2"]
    run.witness("exported_scenarios", len(scens))
    if quick:
        pick, complete = sample_stratified(scens, 1500, rnd)
        replay(run, pick, seed, boot_fast, "stratified sample of the exported terminal states, boot_sigma num_iterations=200")
    else:
        full = dedupe_projected(scens)
        run.cov["replay_universe"] = {"exported": len(scens), "after_merging_identical_projected_structures": len(full)}
        replay(run, full, seed, boot_fast, "all exported terminal states (one per projected structure where L < depth), boot_sigma num_iterations=200")
        run.cov["exhaustive"] = True
        pick, _ = sample_stratified(scens, 1200, rnd)
        replay(run, pick, seed + 1, None, "stratified sample, boot_sigma unmodified (10000 resamples)")
        sim = scen["simulate 2x3"]
        run.witness("simulated_scenarios", len(sim))
        replay(run, sim, seed + 2, boot_fast, "TLC -simulate on 2 x 3 leaves")
    if not quick:
        selftest(run)
    # 3. code -> spec
    real_traces(run, 21 if quick else 200, seed + 5, 300 if quick else None)
    req = [
        "exported_scenarios",
        "group_served_by_own_calibration",
        "group_served_by_enclosing_group",
        "group_served_by_all_calibration_units",
        "group_present_only_among_nonreporting_units",
        "group_exactly_at_threshold",
        "fewer_than_10_calibration_units",
        "multi_state",
        "single_state",
        "three_column_list",
        "floor_applied_to_group_interval",
        "floor_applied_to_row_displaced_in_modeled_bounds",
        "correction_larger_than_10_votes",
        "trace_group_served_by_own_calibration",
        "trace_group_served_by_enclosing_group",
        "trace_group_served_by_all_calibration_units",
        "trace_group_present_only_among_nonreporting_units",
        "trace_three_column_list",
    ]
    run.finish(require_witnesses=req)
