"""Checks decided by Persistence (C18) and FitRetry (C20) - engine `controla`."""
import json
import os
import random
import tempfile

from checks import common
from harness import controla, report, tlc, tracecheck

BATCH = 7  # behaviours per fresh interpreter (they share the process environment)


# ---------------------------------------------------------------------------------------------------------------
# shared helpers


def _export(run, module, cfg, timeout=600):
    res = tlc.run_tlc(module, cfg, workers=1, timeout=timeout, keep_stdout=False)
    run.add_tlc(cfg, res)
    if res.violation:
        run.violation(f"tlc:{res.violation}", {"model": cfg, "invariant": res.violation}, {"trace": res.error_trace[:120]})
    return [v for t, v in res.printed if t == "SCEN"]


def _spawn_all(batches):
    """batches: list of (env, jobs).  Returns {job id: result}; a dead child is a machinery failure."""
    out = {}
    for (env, jobs), (status, val) in zip(batches, common.pool().map(controla.spawn_job, batches, chunksize=1)):
        if status != "ok":
            raise tlc.MachineryError(val)
        for j, r in zip(jobs, val):
            if str(r.get("outcome", "")).startswith("harness_error"):
                raise tlc.MachineryError(f"controla child harness error on job {j}:\n{r.get('detail')}")
            out[j["id"]] = r
    return out


# ---------------------------------------------------------------------------------------------------------------
# C18


def _base_key(sc):
    return (tuple(sorted(sc["opts"])), sc["env"], sc["estimator"], sc["gate"], bool(sc["natsum"]))


def _quick_subset(scens, rnd):
    """Covering subset: every (option set, environment, estimator, gate outcome, summary) combination exactly once,
    the request shape rotating (so every shape occurs with every estimator)."""
    groups = {}
    for s in scens:
        groups.setdefault(_base_key(s["sc"]), []).append(s)
    pick = []
    for i, k in enumerate(sorted(groups)):
        g = sorted(groups[k], key=lambda s: s["sc"]["shape"])
        pick.append(g[(i + rnd.randrange(len(g))) % len(g)])
    return pick


def _batches_persist(jobs_with_env):
    """Group jobs by process environment, then cut into batches; heavy and light jobs are interleaved."""
    by_env = {}
    for env, job in jobs_with_env:
        by_env.setdefault(json.dumps(env, sort_keys=True), (env, []))[1].append(job)
    batches = []
    for _k, (env, jobs) in sorted(by_env.items()):
        nb = max(1, (len(jobs) + BATCH - 1) // BATCH)
        for b in range(nb):
            part = jobs[b::nb]
            if part:
                batches.append((env, part))
    return batches


def _trace_of(sc, r):
    return {
        "sc": {k: sc[k] for k in ("opts", "env", "estimator", "gate", "natsum", "estimands", "aggs", "alphas")},
        "outcome": r["outcome"],
        "natsum_outcome": r["natsum_outcome"],
        "puts": r["puts"],
        "files": r["files"],
        "id": r["id"],
    }


def _varied_unsaved_runs(seed, n):
    """Requests far from the model's shapes, all with save_output=[] (and a few with the option omitted = the
    client's default ['results'])."""
    rnd = random.Random(seed * 31 + 5)
    out = []
    for i in range(n):
        est = ["nonparametric", "gaussian", "bootstrap"][i % 3]
        boot = est == "bootstrap"
        aggs = rnd.sample(["postal_code", "county_fips", "county_classification"], rnd.choice([1, 2, 3]))
        if boot and "postal_code" not in aggs:
            aggs.insert(0, "postal_code")
        if rnd.random() < 0.7:
            aggs.append("unit")
        estimands = ["margin"] if boot else rnd.sample(["turnout", "dem", "gop"], rnd.choice([1, 2, 3]))
        alphas = [str(a) for a in sorted(rnd.sample([0.6, 0.7, 0.8, 0.9], rnd.choice([1, 2, 3])))]
        gate = "fail" if rnd.random() < 0.25 else "pass"
        default_opt = i % 6 == 5
        sc = {
            "opts": ["results"] if default_opt else [],
            "env": "remote" if (i % 2 == 0 or default_opt) else "local",
            "estimator": est,
            "gate": gate,
            "natsum": bool(boot and gate == "pass" and rnd.random() < 0.6),
            "estimands": estimands,
            "aggs": aggs,
            "alphas": alphas,
            "shape": "free",
        }
        job = controla.persist_job(sc, 100000 + i, seed)
        job["n"] = rnd.choice([48, 60])
        job["n_reporting"] = int(job["n"] * rnd.choice([0.6, 0.8]))
        if default_opt:
            job["omit_save_output"] = True
        out.append((sc, job))
    return out


def c18(tier, seed):
    run = report.Run("C18", tier, seed)
    rnd = random.Random(seed)
    run.assumptions += [
        "remote storage = the put_object calls seen by a recording fake for boto3.client; local storage = files that appear under a scratch working directory",
        "every behaviour runs in a fresh interpreter with APP_ENV / DATA_ENV / MODEL_S3_* set before elexmodel is imported (several behaviours share an interpreter only if they share that environment)",
        "gate outcome 'fail' = 3 of 40 units reporting; national summary only for a completed bootstrap run (other estimators do not implement it)",
        "HistoricalModelClient._write_evaluation is not exercised (the property speaks of an estimate run)",
    ]
    # the design: every behaviour, every clause
    common.mc(run, "MC_Persistence", "MC_Persistence_all.cfg", workers=8, timeout=600)
    run.cov["exhaustive"] = True
    # the code as found before cfb172b (F7): TLC reproduces the malformed key
    common.mc(run, "MC_Persistence", "MC_Persistence_F7.cfg", expect_violation="KeyShape", workers=4, timeout=600)
    scens = _export(run, "MC_Persistence", "MC_Persistence_export.cfg")
    if len(scens) != 800:
        raise tlc.MachineryError(f"expected 800 exported behaviours, got {len(scens)}")
    chosen = scens if tier == "thorough" else _quick_subset(scens, rnd)
    run.assumptions.append(
        "replay: all 800 behaviours (224 combinations x request shapes)" if tier == "thorough"
        else "replay: covering subset of 224 behaviours = every option set x environment x estimator x gate outcome x summary combination once, request shape rotating (thorough replays all 800)"
    )
    jobs = []
    by_id = {}
    for i, s in enumerate(chosen):
        job = controla.persist_job(s["sc"], i, seed)
        by_id[i] = s
        jobs.append((controla.env_of(s["sc"]["env"], i // 2), job))
    extra = _varied_unsaved_runs(seed, 24 if tier == "quick" else 72)
    for sc, job in extra:
        by_id[job["id"]] = {"sc": sc, "free": True}
        jobs.append((controla.env_of(sc["env"], job["id"]), job))
    results = _spawn_all(_batches_persist(jobs))

    # ---- spec -> code: the recorded behaviour equals the terminal state TLC exported
    traces = []
    shown = 0
    for jid in sorted(results):
        r, s = results[jid], by_id[jid]
        sc = s["sc"]
        facts = {"estimator": sc["estimator"], "env": sc["env"], "gate": sc["gate"], "opts": sorted(sc["opts"]), "natsum": bool(sc["natsum"])}
        if r["outcome"].startswith("raised") or r["natsum_outcome"].startswith("raised"):
            run.violation("run_raised", dict(facts, clause="run_raised", exc=r["outcome"] + "/" + r["natsum_outcome"]), {"sc": sc, "result": r})
            continue
        traces.append(_trace_of(sc, r))
        if s.get("free"):
            run.witness("varied_run_without_options" if not sc["opts"] else "run_with_default_option")
            continue
        run.cov["scenarios_replayed_into_impl"] += 1
        exp_outcome = "not_enough" if s["phase"] == "failed" else "ok"
        bad = None
        if r["outcome"] != exp_outcome:
            bad = "outcome"
        elif r["puts"] != s["puts"]:
            bad = "put_sequence"
        elif sorted(r["files"]) != sorted(s["files"]):
            bad = "local_files"
        if bad:
            run.violation(bad, dict(facts, clause=bad), {"sc": sc, "expected": {"phase": s["phase"], "puts": s["puts"], "files": s["files"]}, "observed": {k: r.get(k) for k in ("outcome", "keys", "puts", "files", "app_env", "root")}})
        # witnesses
        kinds = [p["kind"] for p in r["puts"]]
        if sc["gate"] == "fail" and "live" in kinds:
            run.witness("gate_failed_after_live_results_were_put")
            if r.get("nothing_counted"):
                run.witness("live_results_put_although_nothing_was_counted_yet")
        if sc["env"] == "local" and "conformalization" in kinds:
            run.witness("conformalization_put_in_local_env")
        if sc["env"] == "remote" and "results" not in sc["opts"] and sc["gate"] == "pass":
            run.witness("remote_run_without_results_option")
        if sc["env"] == "local" and "results" in sc["opts"] and sc["gate"] == "pass":
            run.witness("local_run_with_results_option")
        if "natsum" in kinds:
            run.witness("national_summary_put")
        if r["files"] and not r["puts"]:
            run.witness("local_files_only")
        if not sc["opts"]:
            run.witness("empty_option_set")
        if sc["shape"] == "D" and "conformalization" in sc["opts"] and sc["estimator"] == "gaussian":
            run.witness("unit_only_request_no_conformalization")
        run.witness(f"app_env_{r['app_env']}")
        if shown < 2 and len(r["puts"]) > 4:
            run.sample({"behaviour": sc, "keys": r["keys"], "files": r["files"], "outcome": r["outcome"]})
            shown += 1

    # ---- code -> spec: the same runs (and the varied ones) through the trace specification
    def on_reject(tr, clause, inv):
        sc = tr["sc"]
        run.violation(
            clause,
            {"clause": clause, "invariant": inv, "estimator": sc["estimator"], "env": sc["env"], "gate": sc["gate"], "opts": sorted(sc["opts"]), "natsum": bool(sc["natsum"])},
            {"trace": tr, "keys": results[tr["id"]].get("keys")},
        )

    n = tracecheck.validate("Trace_Persistence", "Trace_Persistence.cfg", traces, on_reject, run=run, chunk=500)
    run.cov["traces_validated_against_impl"] += n
    # binding self-test: a reordered put sequence and a blank in a key must be rejected
    _selftest_persistence(run, traces)
    run.finish(
        require_witnesses=[
            "gate_failed_after_live_results_were_put",
            "live_results_put_although_nothing_was_counted_yet",
            "conformalization_put_in_local_env",
            "remote_run_without_results_option",
            "local_run_with_results_option",
            "national_summary_put",
            "local_files_only",
            "empty_option_set",
            "varied_run_without_options",
            "run_with_default_option",
            "app_env_local",
            "app_env_prod",
            "app_env_staging",
            "selftest_corrupted_traces_rejected",
        ]
    )


def _selftest_persistence(run, traces):
    import copy

    if run.violations:
        return  # the recorded traces are not a sound basis for the self-test; the run fails anyway
    long = [t for t in traces if len(t["puts"]) >= 5 and t["sc"]["gate"] == "pass"]
    failing = [t for t in traces if t["sc"]["gate"] == "fail" and t["puts"]]
    if not long or not failing:
        return
    a = copy.deepcopy(long[0])
    a["puts"] = a["puts"][2:] + a["puts"][:2]  # live results after everything else
    b = copy.deepcopy(long[-1])
    b["puts"][-1]["ws"] = True
    c = copy.deepcopy(failing[0])
    c["puts"] = []  # "fail, nothing saved"
    got = []
    tracecheck.validate("Trace_Persistence", "Trace_Persistence.cfg", [a, b, c], lambda t, cl, inv: got.append(cl), run=None)
    if len(got) != 3:
        raise tlc.MachineryError(f"binding self-test: corrupted persistence traces not all rejected: {got}")
    run.witness("selftest_corrupted_traces_rejected")


# ---------------------------------------------------------------------------------------------------------------
# C20

LAM_VALUES = {"zero": 0.0, "pos": 1.0}
FINDING_LAMBDA = {
    "id": "F-C20-lambda",
    "property": "C20",
    "match": {"clause": "same_tables", "lambda_positive": True},
    "what": "lambda_ > 0: the retry with normalize_weights=False leaves the ridge penalty unscaled, so the effective penalty is divided by sum(weights) and the tables differ from the fault-free run by up to ~1000 votes",
}


def _fit_job(sc, jid, seed, n=64, lam=None, features=("x1",)):
    return {
        "kind": "fit",
        "id": jid,
        "estimator": sc["estimator"],
        "lam": LAM_VALUES[sc["lam"]] if lam is None else lam,
        "n_est": sc["nEst"],
        "n_alpha": len(sc["alphas"]),
        "fpos": sc["fpos"],
        "fkind": sc["fkind"],
        "seed": seed,
        "n": n,
        "features": list(features),
    }


def _validate_fit(run, traces):
    """Trace_FitRetry over `traces`; a rejected trace is reported and removed, FINDING records (lambda > 0 table
    mismatch, decided by the spec) are returned as trace indices."""
    accepted, findings = 0, []
    batch = list(traces)
    offset = 0
    while batch:
        fd, path = tempfile.mkstemp(prefix="traces_fit_", suffix=".json")
        with os.fdopen(fd, "w") as f:
            f.write(report.dumps(batch))
        try:
            res = tlc.run_tlc("Trace_FitRetry", "Trace_FitRetry.cfg", workers=1, env={"TRACE_FILE": path}, timeout=900)
        finally:
            os.unlink(path)
        run.add_tlc("Trace_FitRetry/Trace_FitRetry.cfg", res, {"traces": len(batch)})
        fails = [v for t, v in res.printed if t == "FAIL"]
        if res.violation is None and not res.postcondition_failed:
            findings += [offset + int(v["tid"]) - 1 for t, v in res.printed if t == "FINDING"]
            accepted += len(batch)
            break
        if res.violation is None or not fails:
            raise tlc.MachineryError("Trace_FitRetry: batch not consumed and no clause reported:\n" + res.stdout[-3000:])
        tid = int(fails[-1]["tid"])
        findings += [offset + int(v["tid"]) - 1 for t, v in res.printed if t == "FINDING" and int(v["tid"]) < tid]
        tr = batch[tid - 1]
        clause = fails[-1]["clause"]
        sc = tr["sc"]
        run.violation(
            clause,
            {"clause": clause, "invariant": res.violation, "estimator": sc["estimator"], "lambda_positive": sc["lam"] == "pos", "fkind": sc["fkind"], "fpos": sc["fpos"]},
            {"trace": tr},
        )
        accepted += tid - 1
        offset += tid
        batch = batch[tid:]
        if len(run.violations) >= 12:
            break
    return accepted, sorted(set(findings))


def c20(tier, seed):
    run = report.Run("C20", tier, seed)
    if not any(e.get("id") == FINDING_LAMBDA["id"] for e in run.findings.open):
        run.findings.open.append(dict(FINDING_LAMBDA))  # in memory only, until the shared file lists it
    rnd = random.Random(seed)
    run.assumptions += [
        "one fault per run; a second failure (of the retry itself) is not covered by the property: it propagates",
        "the fault is raised inside the real QuantileRegressionSolver.fit at the solve (after argument checks and weight normalisation, before the coefficients are stored); 'warning' is issued as cvxpy issues it and becomes an exception only through the filter installed by ConformalElectionModel",
        "the solve is abstract in the specification: for lambda_ = 0 any member of the LP minimiser set is accepted (tables may differ by at most 1 vote); for lambda_ > 0 the specification itself shows the retry poses a different problem (F-C20-lambda)",
        "X / y / weights are compared through 28-bit digests",
    ]
    thorough = tier == "thorough"
    common.mc(run, "MC_FitRetry", "MC_FitRetry_all_thorough.cfg" if thorough else "MC_FitRetry_all.cfg", workers=8, timeout=600)
    run.cov["exhaustive"] = True
    # finding demonstrations: the code as found before 6442e5d (F1), and the open lambda finding in the design
    common.mc(run, "MC_FitRetry", "MC_FitRetry_F1.cfg", expect_violation="NotFatal", workers=4, timeout=600)
    common.mc(run, "MC_FitRetry", "MC_FitRetry_lambda_finding.cfg", expect_violation="SameTables", workers=4, timeout=600)
    scens = _export(run, "MC_FitRetry", "MC_FitRetry_export_thorough.cfg" if thorough else "MC_FitRetry_export.cfg")
    want = 756 if thorough else 208
    if len(scens) != want:
        raise tlc.MachineryError(f"expected {want} exported fault scripts, got {len(scens)}")
    jobs = []
    meta = {}
    eseeds = [seed % 1000 + 3] if not thorough else [seed % 1000 + 3, seed % 1000 + 11]
    jid = 0
    for es in eseeds:
        for s in scens:
            sc = s["sc"]
            lam = None
            if sc["lam"] == "pos" and es != eseeds[0]:
                lam = 50.0
            jobs.append(_fit_job(sc, jid, es, lam=lam))
            meta[jid] = {"sc": sc, "model": s, "kind": "script"}
            jid += 1
    # larger runs outside the model's bounds (3 estimands, 3 levels, two covariates, 60 units): code -> spec only
    for i in range(16 if not thorough else 96):
        n_est, n_alpha = rnd.choice([2, 3]), rnd.choice([2, 3])
        nf = n_est * (1 + 2 * n_alpha)
        sc = {
            "estimator": rnd.choice(["nonparametric", "gaussian"]),
            "lam": "zero" if i % 4 else "pos",
            "nEst": n_est,
            "alphas": [int(round(a * 1e6)) for a in controla.ALPHA_LIST[:n_alpha]],
            "fpos": rnd.randint(1, nf),
            "fkind": rnd.choice(["solver_error", "warning"]),
        }
        jobs.append(_fit_job(sc, jid, seed % 1000 + 100 + i, n=60, features=("x1", "x2"), lam=None if sc["lam"] == "zero" else rnd.choice([0.5, 10.0])))
        meta[jid] = {"sc": sc, "kind": "random"}
        jid += 1
    # one interpreter per configuration chunk: the fault-free baseline is computed once per configuration in it
    groups = {}
    for j in jobs:
        groups.setdefault((j["estimator"], j["lam"], j["n_est"], j["n_alpha"], j["seed"], j["n"]), []).append(j)
    batches = []
    env = controla.ENV_GROUPS["local"][0]
    small = []
    for k in sorted(groups):
        g = groups[k]
        if len(g) <= 3:
            small += g
            continue
        per = 6 if k[0] == "gaussian" else 10  # gaussian runs are ~3x slower (bootstrapped sigma)
        parts = (len(g) + per - 1) // per
        for b in range(parts):
            batches.append((env, g[b::parts]))
    for b in range(0, len(small), 4):
        batches.append((env, small[b : b + 4]))
    batches.sort(key=lambda b: -len(b[1]) * (3 if b[1][0]["estimator"] == "gaussian" else 1))
    results = _spawn_all(batches)

    traces = []
    for j in sorted(results):
        r = results[j]
        m = meta[j]
        tr = {k: r[k] for k in ("sc", "lamv", "outcome", "maxdiff", "shape_same", "calls", "seed", "n")}
        tr["id"] = j
        traces.append(tr)
        sc = m["sc"]
        if m["kind"] == "script":
            run.cov["scenarios_replayed_into_impl"] += 1
            # spec -> code: the recorded call sequence is the one TLC exported for this script
            exp = [(c["tau"], c["normalize"], c["outcome"]) for c in m["model"]["calls"]]
            obs = [(c["tau"], c["normalize"], c["outcome"]) for c in r["calls"]]
            bad = None
            if r["outcome"] != "ok":
                bad = "not_fatal"
            elif obs != exp:
                bad = "call_sequence"
            if bad:
                run.violation(
                    bad,
                    {"clause": bad, "estimator": sc["estimator"], "lambda_positive": sc["lam"] == "pos", "fkind": sc["fkind"], "fpos": sc["fpos"]},
                    {"script": sc, "expected_calls": exp, "observed_calls": obs, "outcome": r["outcome"], "detail": r.get("detail")},
                )
        else:
            run.witness("larger_random_run")
        if sc["fpos"]:
            role = "median" if (sc["fpos"] - 1) % (1 + 2 * len(sc["alphas"])) == 0 else ("lower" if ((sc["fpos"] - 1) % (1 + 2 * len(sc["alphas"]))) % 2 == 1 else "upper")
            run.witness(f"fault_at_{role}_{sc['fkind']}")
            if any(c["outcome"] == sc["fkind"] for c in r["calls"]) and r["outcome"] == "ok":
                run.witness(f"retried_after_{sc['fkind']}_{'ridge' if sc['lam'] == 'pos' else 'lp'}_{sc['estimator']}")
            if sc["lam"] == "zero" and r["outcome"] == "ok" and r["maxdiff"] == 0:
                run.witness("faulted_run_tables_identical")
        else:
            run.witness("fault_free_script")
    n, findings = _validate_fit(run, traces)
    run.cov["traces_validated_against_impl"] += n
    worst = None
    for idx in findings:
        tr = traces[idx]
        sc = tr["sc"]
        run.violation(
            "same_tables",
            {"clause": "same_tables", "lambda_positive": sc["lam"] == "pos", "estimator": sc["estimator"]},
            {"script": sc, "lambda_": tr["lamv"] / 1000.0, "maxdiff_votes": tr["maxdiff"], "election_seed": tr["seed"], "n_units": tr["n"]},
        )
        if worst is None or tr["maxdiff"] > worst["maxdiff"]:
            worst = tr
    if worst is not None:
        run.sample({"open_finding_F-C20-lambda_worst_case": {"script": worst["sc"], "lambda_": worst["lamv"] / 1000.0, "maxdiff_votes": worst["maxdiff"], "election_seed": worst["seed"], "n_units": worst["n"]}})
    ok = [t for t in traces if t["sc"]["fpos"] and t["outcome"] == "ok"]
    if ok:
        t = ok[len(ok) // 2]
        run.sample({"fault_script": t["sc"], "calls": [(c["tau"], c["normalize"], c["outcome"], c["ncoef"]) for c in t["calls"]], "maxdiff_votes": t["maxdiff"]})
    _selftest_fit(run, traces)
    req = ["fault_free_script", "larger_random_run", "faulted_run_tables_identical", "selftest_corrupted_traces_rejected"]
    req += [f"fault_at_{r}_{k}" for r in ("median", "lower", "upper") for k in ("solver_error", "warning")]
    req += [f"retried_after_{k}_{p}_{e}" for k in ("solver_error", "warning") for p in ("lp", "ridge") for e in ("nonparametric", "gaussian")]
    run.finish(require_witnesses=req)


def _selftest_fit(run, traces):
    import copy

    if run.violations:
        return  # the recorded traces are not a sound basis for the self-test; the run fails anyway
    cand = [t for t in traces if t["sc"]["fpos"] and t["sc"]["lam"] == "zero" and t["outcome"] == "ok" and len(t["calls"]) > t["sc"]["fpos"]]
    if not cand:
        return
    a = copy.deepcopy(cand[0])
    a["calls"][a["sc"]["fpos"]]["normalize"] = True  # retry still normalised
    b = copy.deepcopy(cand[-1])
    b["calls"][b["sc"]["fpos"]]["dw"] += 1  # retry with other weights
    c = copy.deepcopy(cand[len(cand) // 2])
    c["maxdiff"] = 7
    got = []
    dummy = report.Run("C20", "selftest", 0)
    dummy.violation = lambda clause, facts, detail: got.append(clause)  # noqa: E731
    dummy.violations = []
    for t in (a, b, c):
        _validate_fit(dummy, [t])
    if sorted(got) != sorted(["retry_call_as_modelled", "retry_args", "same_tables"]):
        raise tlc.MachineryError(f"binding self-test: corrupted fit traces not rejected as expected: {got}")
    run.witness("selftest_corrupted_traces_rejected")
