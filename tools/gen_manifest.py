#!/usr/bin/env python3
"""Regenerate /verif/MANIFEST.json from the table below (single source of truth for the interface)."""
import json
import os

ROOT = os.path.dirname(os.path.dirname(os.path.abspath(__file__)))
ALL = [f"C{i:02d}" for i in range(1, 21)]

HOOK_COMMITS = []  # filled when instrumentation commits exist in /repo

CHECKS = {
    "C01": dict(
        engine="ledger",
        technique="TLA+ spec (Ledger.tla) model-checked exhaustively by TLC; TLC-exported terminal states replayed into ModelClient.get_estimates; recorded random runs validated by Trace_Ledger with TLC",
        design_ref="DESIGN.md §5 C01",
        text="TLC checks conservation / exactly-once / reporting-count invariants on every scenario of 2 units (3 in thorough) over all unit kinds, keys, policies, office kinds and request lists; every exported terminal state (a stratified sample in quick) is replayed through the real client for all three estimators and compared cell by cell; random elections of 4-12 units per state are recorded and replayed through the trace specification, which recomputes the ledger with the same operators.",
        note="Assumes unique feed ids and numeric non-missing feed values; bounded scopes as stated in the evidence; F8 (zero policy + state mismatch) is an open known finding.",
    ),
}

NOT_YET = "check not built yet in this round (planned, see DESIGN.md §5)"


def main():
    checks = []
    for pid in ALL:
        if pid not in CHECKS:
            continue
        c = CHECKS[pid]
        checks.append(
            {
                "property_id": pid,
                "quick_cmd": f"./run_check.sh {pid} quick",
                "thorough_cmd": f"./run_check.sh {pid} thorough",
                "evidence_file": f"/verif/evidence/{pid}.json",
                "replay_cmd_template": "cat {path}",
                "engine": c["engine"],
                "level_claimed": {"category": "model_checking", "text": c["text"], "design_ref": c["design_ref"]},
                "level_note": c["note"],
                "technique": c["technique"],
            }
        )
    engines = {}
    for pid, c in CHECKS.items():
        engines.setdefault(c["engine"], []).append(pid)
    m = {
        "version": 1,
        "setup_cmd": "./setup.sh",
        "hooks": {
            "guard": "ELEXMODEL_VERIF",
            "enable": "checks import /repo/src directly (PYTHONPATH) and set ELEXMODEL_VERIF=1 where hooks are needed; most observation is done by run-time wrappers in /verif/harness, no build step",
            "baseline_off_cmd": "cd /repo && /venv/bin/python -m pytest -ra -q -p no:cacheprovider --timeout=900 --continue-on-collection-errors",
            "source_commits": HOOK_COMMITS,
            "add_only": True,
        },
        "engines": [
            {"name": k, "path": f"/verif/checks/{k}_checks.py", "serves_properties": sorted(v), "kind_free_text": "TLA+ spec + TLC + conformance (replay and trace validation)"}
            for k, v in sorted(engines.items())
        ],
        "checks": checks,
        "not_applicable": [{"property_id": p, "reason": NOT_YET} for p in ALL if p not in CHECKS],
        "notes": "All checks: python -m checks.check <id>; exit 2 = machinery failure. Specs in /verif/spec, harness in /verif/harness.",
    }
    with open(os.path.join(ROOT, "MANIFEST.json"), "w") as f:
        json.dump(m, f, indent=1)
    print("MANIFEST.json:", len(checks), "checks,", len(m["not_applicable"]), "not claimed")


if __name__ == "__main__":
    main()
