#!/usr/bin/env python3
"""Regenerate /verif/MANIFEST.json from the table below (single source of truth for the interface)."""
import json
import os

ROOT = os.path.dirname(os.path.dirname(os.path.abspath(__file__)))
ALL = [f"C{i:02d}" for i in range(1, 21)]

HOOK_COMMITS = []  # filled when instrumentation commits exist in /repo

CHECKS = {
    "C01": dict(
        engine="ledger",
        technique="TLA+ spec (Ledger.tla) model-checked exhaustively by TLC; TLC-exported terminal states replayed into ModelClient.get_estimates; recorded random runs validated by Trace_Ledger with TLC",
        design_ref="DESIGN.md §5 C01",
        text="TLC checks conservation / exactly-once / reporting-count invariants on every scenario of 2 units (3 in thorough) over all unit kinds, keys, policies, office kinds and request lists; every exported terminal state (a stratified sample in quick) is replayed through the real client for all three estimators and compared cell by cell; random elections of 4-12 units per state are recorded and replayed through the trace specification, which recomputes the ledger with the same operators.",
        note="Assumes unique feed ids and numeric non-missing feed values; bounded scopes as stated in the evidence; F8 (zero policy + state mismatch) is an open known finding.",
    ),
    "C02": dict(
        engine="ledger",
        technique="TLA+ spec (Ledger.tla aggregation operators) model-checked by TLC with free unit outputs; recorded real runs validated by Trace_Ledger (TLC recomputes every group row from the returned unit table)",
        design_ref="DESIGN.md §5 C02",
        text="TLC checks LevelsAgree/GroupFloors for all 2-unit scenarios with free unit outputs; for real runs of all three estimators (random elections, 4-12 units per state, all request lists) the trace specification recomputes every aggregate row of every level from the returned unit table with the code-shaped join/sort steps and requires cell-by-cell, row-by-row equality (prediction for nonparametric and gaussian, both bounds for nonparametric, turnout and margin numerator for bootstrap).",
        note="Unit-level model outputs are inputs; bootstrap identities in thousandths with slack (#units+1); no race calls in these runs.",
    ),
    "C03": dict(
        engine="ledger",
        technique="TLA+ spec (Ledger.tla GroupFloors) model-checked by TLC; recorded real runs validated by Trace_Ledger (ObsFloors: floors and finality on every unit and group row)",
        design_ref="DESIGN.md §5 C03",
        text="Every unit row and every group row of every table returned by real nonparametric/gaussian runs is checked against the floor and finality clauses inside the trace specification (bootstrap: finality of reporting/unexpected units); scenarios include partial counts above the regression prediction, fully reporting elections and groups without nonreporting units; witnesses require that floors were actually active.",
        note="Floors are observed at the outputs (no hook on raw regression values); a removed floor is detected when a raw value falls below counted votes in a recorded run, which the witnesses show happens.",
    ),
    "C09": dict(
        engine="ledger",
        technique="TLA+ spec (MC_Eligibility.tla over Ledger.tla) exhaustively model-checked by TLC over boundary classes with exact rational arithmetic; every exported terminal state replayed into Estimandizer + CombinedDataHandler.get_units; recorded client runs with outlier models validated by Trace_Ledger",
        design_ref="DESIGN.md §5 C09",
        text="All 64,800 single-unit combinations of presence x feed turnout x baseline x percent-expected-vote x blocklist kind x policy x limits x threshold x estimand kind are enumerated by TLC (2-unit combinations in thorough), the eligibility rule is checked as an invariant in numbers, and every terminal state is replayed into the real get_units with frames, categories and derived columns compared exactly; client runs with outlier models on and unit counts around the threshold of 20 are validated by the trace spec.",
        note="Outlier-model flags are oracle inputs observed by a run-time wrapper; numeric boundary replay is at component level (the client's own call sequence).",
    ),
}

NOT_YET = "check not built yet in this round (planned, see DESIGN.md §5)"


def main():
    checks = []
    for pid in ALL:
        if pid not in CHECKS:
            continue
        c = CHECKS[pid]
        checks.append(
            {
                "property_id": pid,
                "quick_cmd": f"./run_check.sh {pid} quick",
                "thorough_cmd": f"./run_check.sh {pid} thorough",
                "evidence_file": f"/verif/evidence/{pid}.json",
                "replay_cmd_template": "cat {path}",
                "engine": c["engine"],
                "level_claimed": {"category": "model_checking", "text": c["text"], "design_ref": c["design_ref"]},
                "level_note": c["note"],
                "technique": c["technique"],
            }
        )
    engines = {}
    for pid, c in CHECKS.items():
        engines.setdefault(c["engine"], []).append(pid)
    m = {
        "version": 1,
        "setup_cmd": "./setup.sh",
        "hooks": {
            "guard": "ELEXMODEL_VERIF",
            "enable": "checks import /repo/src directly (PYTHONPATH) and set ELEXMODEL_VERIF=1 where hooks are needed; most observation is done by run-time wrappers in /verif/harness, no build step",
            "baseline_off_cmd": "cd /repo && /venv/bin/python -m pytest -ra -q -p no:cacheprovider --timeout=900 --continue-on-collection-errors",
            "source_commits": HOOK_COMMITS,
            "add_only": True,
        },
        "engines": [
            {"name": k, "path": f"/verif/checks/{k}_checks.py", "serves_properties": sorted(v), "kind_free_text": "TLA+ spec + TLC + conformance (replay and trace validation)"}
            for k, v in sorted(engines.items())
        ],
        "checks": checks,
        "not_applicable": [{"property_id": p, "reason": NOT_YET} for p in ALL if p not in CHECKS],
        "notes": "All checks: python -m checks.check <id>; exit 2 = machinery failure. Specs in /verif/spec, harness in /verif/harness.",
    }
    with open(os.path.join(ROOT, "MANIFEST.json"), "w") as f:
        json.dump(m, f, indent=1)
    print("MANIFEST.json:", len(checks), "checks,", len(m["not_applicable"]), "not claimed")


if __name__ == "__main__":
    main()
