#!/usr/bin/env python3
"""Regenerate /verif/MANIFEST.json from the table below (single source of truth for the interface)."""
import json
import os

ROOT = os.path.dirname(os.path.dirname(os.path.abspath(__file__)))
ALL = [f"C{i:02d}" for i in range(1, 21)]

HOOK_COMMITS = []  # filled when instrumentation commits exist in /repo

CHECKS = {
    "C01": dict(
        engine="ledger",
        technique="TLA+ spec (Ledger.tla) model-checked exhaustively by TLC; TLC-exported terminal states replayed into ModelClient.get_estimates; recorded random runs validated by Trace_Ledger with TLC",
        design_ref="DESIGN.md §5 C01",
        text="TLC checks conservation / exactly-once / reporting-count invariants on every scenario of 2 units (3 in thorough) over all unit kinds, keys, policies, office kinds and request lists; every exported terminal state (a stratified sample in quick) is replayed through the real client for all three estimators and compared cell by cell; random elections of 4-12 units per state are recorded and replayed through the trace specification, which recomputes the ledger with the same operators.",
        note="Assumes unique feed ids and numeric non-missing feed values; bounded scopes as stated in the evidence; F8 (zero policy + state mismatch) is an open known finding.",
    ),
    "C02": dict(
        engine="ledger",
        technique="TLA+ spec (Ledger.tla aggregation operators) model-checked by TLC with free unit outputs; recorded real runs validated by Trace_Ledger (TLC recomputes every group row from the returned unit table)",
        design_ref="DESIGN.md §5 C02",
        text="TLC checks LevelsAgree/GroupFloors for all 2-unit scenarios with free unit outputs; for real runs of all three estimators (random elections, 4-12 units per state, all request lists) the trace specification recomputes every aggregate row of every level from the returned unit table with the code-shaped join/sort steps and requires cell-by-cell, row-by-row equality (prediction for nonparametric and gaussian, both bounds for nonparametric, turnout and margin numerator for bootstrap).",
        note="Unit-level model outputs are inputs; bootstrap identities in thousandths with slack (#units+1); no race calls in these runs.",
    ),
    "C03": dict(
        engine="ledger",
        technique="TLA+ spec (Ledger.tla GroupFloors) model-checked by TLC; recorded real runs validated by Trace_Ledger (ObsFloors: floors and finality on every unit and group row)",
        design_ref="DESIGN.md §5 C03",
        text="Every unit row and every group row of every table returned by real nonparametric/gaussian runs is checked against the floor and finality clauses inside the trace specification (bootstrap: finality of reporting/unexpected units); scenarios include partial counts above the regression prediction, fully reporting elections and groups without nonreporting units; witnesses require that floors were actually active.",
        note="Floors are observed at the outputs (no hook on raw regression values); a removed floor is detected when a raw value falls below counted votes in a recorded run, which the witnesses show happens.",
    ),
    "C09": dict(
        engine="ledger",
        technique="TLA+ spec (MC_Eligibility.tla over Ledger.tla) exhaustively model-checked by TLC over boundary classes with exact rational arithmetic; every exported terminal state replayed into Estimandizer + CombinedDataHandler.get_units; recorded client runs with outlier models validated by Trace_Ledger",
        design_ref="DESIGN.md §5 C09",
        text="All 64,800 single-unit combinations of presence x feed turnout x baseline x percent-expected-vote x blocklist kind x policy x limits x threshold x estimand kind are enumerated by TLC (2-unit combinations in thorough), the eligibility rule is checked as an invariant in numbers, and every terminal state is replayed into the real get_units with frames, categories and derived columns compared exactly; client runs with outlier models on and unit counts around the threshold of 20 are validated by the trace spec.",
        note="Outlier-model flags are oracle inputs observed by a run-time wrapper; numeric boundary replay is at component level (the client's own call sequence).",
    ),
    "C04": dict(
        engine="arith",
        technique="TLA+ spec (ConformalSplit.tla parts Corr and Rank) model-checked by TLC with exact rationals; every exported calibration scenario replayed into _compute_population_correction / get_unit_prediction_intervals; rank lemma grid bound to the real function; recorded calibration sets validated by Trace_ConformalSplit",
        design_ref="DESIGN.md §5 C04, docs/arith.md",
        text="The calibration clause (weighted coverage strictly above alpha(1+1/n_cal), robust = max, symmetric widening, floors) is an invariant of the code-shaped correction pipeline checked by TLC on every calibration set of n_cal 2-4 (scores -2..2 incl. ties/all-negative, weights 1/2/4) and n_cal 8, dyadic alphas; all exported scenarios (31,856 in quick) are replayed into the real functions and compared exactly; the probabilistic clause is decided as the finite rank lemma (every rank of the outstanding unit, n_cal <= 8 explicitly and the closed form on alpha permille x n_cal <= 60/400) with the code's rank choice bound on the same grid (59,880 real calls in quick).",
        note="Exchangeability itself is an assumption; float ties admit named candidate neighbours; only get_unit_prediction_interval_bounds is stubbed in the scenario replay (real regressions in the recorded runs).",
    ),
    "C05": dict(
        engine="arith",
        technique="TLA+ spec (UniformSwing.tla) model-checked by TLC (weighted median = minimiser of the regression objective, closed form); exported scenarios replayed into CombinedDataHandler.get_units + NonparametricElectionModel.get_unit_predictions and through the client; recorded runs validated by Trace_UniformSwing",
        design_ref="DESIGN.md §5 C05, docs/arith.md",
        text="TLC checks MedianIsMinimiser / CommonFactor / FloorAtPartial on all scenarios of 3-5 reporting units over dyadic baselines; every exported unique-median scenario (7,749 in quick) is replayed into the real component functions and 266 through the full client with exact equality (rounding ties admit both neighbours); 60 real runs recorded and validated.",
        note="Scenarios with a non-unique weighted median are excluded as the property states; the LP solver is trusted to return a minimiser.",
    ),
    "C06": dict(
        engine="calls",
        technique="TLA+ spec (BootstrapIntervals.tla: rank candidate sets, interpolated quantile bounds, straddle) model-checked by TLC on the alpha-permille x B grid and on all small draw vectors; real _get_quantiles / interval functions and real client tables validated by Trace_Bootstrap",
        design_ref="DESIGN.md §5 C06",
        text="TLC checks rank validity, monotonicity in alpha (hence nesting) and national-summary index validity for all 999 levels x B<=300 (1000 in thorough), and ordering / strict containment / nesting of unit and aggregate bounds for every sorted draw vector over a small range; the real _get_quantiles is validated on the whole grid (every rank in the candidate set), injected draw vectors through the real unit and aggregate interval functions must equal the spec's interpolated bounds, and every row of every table of real bootstrap client runs (B in 2/3/10/40, districts, fixed effects, lambda 0/1/CV, extrapolating units that stress the clips) is checked in the trace spec for ordering, nesting, |margin|<=1, turnout>=0, |unit margin|<=turnout.",
        note="Statistical adequacy of bootstrap intervals is not claimed; millionths with exact signs; injection at the model-object boundary for the bounds clause.",
    ),
    "C07": dict(
        engine="calls",
        technique="TLA+ spec (RaceCalls.tla, one action per code step) model-checked by TLC; the whole exported decision table replayed into the real aggregate functions with injected bootstrap state; real client runs with call/stop lists validated by Trace_Bootstrap",
        design_ref="DESIGN.md §5 C07",
        text="TLC checks the call/stop invariants on the full one-contest decision table (11 predictions x 66 quantile pairs x called L/R/both/none x stopped = 5,808 rows, all exported) and on two-contest list shapes incl. unknown and doubly named contests; every exported row is replayed (state-level and district-level top aggregate, two interval levels) and compared exactly in thousandths, error rows must raise the dedicated exception; 24 (240) real client runs with random lists are paired with the list-free run and validated: clauses on top-level rows, untouched rows and all other tables bit-identical.",
        note="Bootstrap state injected at the model-object boundary for the table replay (B=3, order-statistic quantile levels, bit-exact ties).",
    ),
    "C08": dict(
        engine="calls",
        technique="TLA+ spec (NationalSummary.tla: model-object state across aggregate computations, both modes, candidate sets for argsort ties) model-checked by TLC; injected scenarios, client runs and request-order histories validated by Trace_NationalSummary",
        design_ref="DESIGN.md §5 C08",
        text="TLC checks Ordered/Bounded/PredIsWinners/CalledCertain on every 2-contest scenario (4 predictions x 16x16 draw signs x call/stop lists x both modes) and HistoryIndependent/SizeChecked over all orders/supersets of requested aggregates; configs with the repaired-design switches off reproduce the F3 and F4 counterexamples; 8,000 (80,000) scenarios incl. 3-contest ones are injected on a real model object and the returned triple must be a candidate of the spec; real 3-state client runs are summarised after six request orders (bit-identical summaries, wrong-size dictionary rejected) and checked against their own state table.",
        note="Hard threshold for the bounded/winners clauses; B=2, alpha=0.9 in injected scenarios; non-negative weights.",
    ),
    "C10": dict(
        engine="ledger",
        technique="TLA+ information-flow spec (Interference.tla) model-checked by TLC over all assignments of unit kinds and groups; paired real runs differing in one outstanding/excluded unit's count validated by Trace_Interference (Ledger decides frames and attributable groups, every other row must be bit-identical); historical evaluations with changed hidden results",
        design_ref="DESIGN.md §5 C10",
        text="TLC checks NonInterference and HistoricalHidden on the dependency sets computed step by step for 4 units x 2 groups (a leak variant reproduces a counterexample); 36 (400) pairs of real runs per tier, all three estimators, perturb the counted votes of one below-threshold / blocklisted / zero-baseline / unexpected unit (small change and a change crossing its floor, half of the runs with every outstanding unit above 50% expected vote so that the bootstrap clip bounds are active); the trace spec requires bit-identical tokens on every unit row and every group row the unit is not attributable to and exact deltas on its own groups; historical evaluations (nonparametric, gaussian) are run with changed hidden and changed visible historical results.",
        note="The flow model is an abstraction bound by the paired runs; historical clause not exercised for the bootstrap estimator (the historical client cannot run it on the margin estimand).",
    ),
    "C11": dict(
        engine="ledger",
        technique="TLA+ spec (LedgerDelta.tla: two-phase ledger with the action AddUnexpected and the Delta predicate over the two terminal states) model-checked by TLC; paired real runs (with / without the extra feed row) validated by Trace_LedgerDelta",
        design_ref="DESIGN.md §5 C11",
        text="TLC checks DeltaUnits/DeltaGroups/DeltaAlwaysAttributed for every 2-unit scenario x extra unit (known/new state, county, district) x policies x office kinds x five request lists; TLC-exported scenarios (600 in quick) and random larger elections are run twice through the real client for all three estimators; the trace spec recomputes both ledgers, requires the attributable groups to move by exactly the unit's votes (new group where needed) and every other row of every table to carry the same bit-level token.",
        note="Extra unit id well-formed for the unit type; common rows keep their order; F12 (bootstrap, extra unit in a state with no other row) is an open known finding.",
    ),
    "C12": dict(
        engine="controlb",
        technique="TLA+ spec (ClientHistory.tla: call histories on fresh/used clients, seeded and process-global random streams, the caller's baseline frame and default-argument objects as state that outlives a call, national summaries with their own arguments, memo of digests) model-checked by TLC; every exported history executed on the real client (in-process and in new interpreters with different PYTHONHASHSEED) and validated by Trace_ClientHistory",
        design_ref="DESIGN.md §5 C12, docs/controlb.md",
        text="TLC checks Functional (equal arguments => equal digest) over all histories of <=3 calls x 2 argument tuples x 3 estimators x same/fresh client x national summary (6k states; 171k in thorough); ten design switches (unseeded sigma = F2, unseeded split, unseeded bootstrap generator, model reuse, mutated defaults, set-order dependence, summary components kept on the model object, margin weights not rebuilt on a re-used caller frame = F17, derived results columns written into the caller's feed frame, outlier models reading a column an earlier margin run left in the caller's baseline frame = open finding F19) each reproduce a counterexample; every history hands ONE baseline frame object and ONE feed frame object to all its calls; 192 (2,608) exported histories are executed on the real client with the global numpy/random state perturbed by entropy between calls, and re-executed in new interpreters with PYTHONHASHSEED 0/1/12345/random; bit-level digests of every returned table are merged into traces and validated by the memo of the trace spec.",
        note="The harness never seeds anything itself; digests are dtype-aware float.hex hashes including column names and order. F19 (default outlier models on + baseline frame object shared with an earlier margin run) is an open known finding, reported as KNOWN-FINDING from a dedicated pair of histories.",
    ),
    "C13": dict(
        engine="controlb",
        technique="TLA+ spec (ClientLoops.tla: the loop nest of get_estimates with the shared caches and in-place mutated frames as variables; per-cell provenance) model-checked by TLC; request sets drawn by TLC's simulator executed on the real client and validated by Trace_ClientLoops (memo keyed by cell, key-column sets)",
        design_ref="DESIGN.md §5 C13, docs/controlb.md",
        text="TLC checks ReadsOwn, NoStaleColumn, StableKeys, CellFunctional for all request sets (estimands x levels x aggregate lists in every order; 112k states, 2.4M in thorough); seven switches (F5, district merge key = F14, loop order, single cache slot, fixed alpha read, first-estimand column, merge without reporting) each reproduce a counterexample; 329 (3,076) request sets on elections with complete feeds are executed for all three estimators, 606 cells are compared bit-for-bit across every pair of requests containing them, and the key/category column sets are compared for 1-3 estimands (district offices included).",
        note="'Same calibration split for every level' is a mechanism, not part of the statement: a per-alpha split seed is not flagged (documented).",
    ),
    "C14": dict(
        engine="arith",
        technique="TLA+ spec (ConformalSplit.tla parts Gate and Split with float-tie candidate sets) model-checked by TLC on the alpha-permille x n grid; real minimum/fraction functions validated on the whole grid, real regressions on the boundary band, client end-to-end at n = need-1/need/need+1 via Trace_ConformalSplit",
        design_ref="DESIGN.md §5 C14, docs/arith.md",
        text="TLC checks GateExact, TrainAtLeastOne, CalAtLeastOne, SplitPartitions, QuantileLevelBelowOne, RankExists for all 998 permille levels x n<=600 (3000 in thorough) and every tie resolution, plus multi-level requests for the three estimators and duplicate ids; the F6 switch reproduces the zero-training-rows counterexample; the real get_minimum_reporting_units/_compute_conf_frac are validated on the whole grid, ~5,400 real split probes with real regressions and 344 client runs around the gate (all three estimators, duplicates) are validated by the trace spec.",
        note="Float ties admit the named neighbour (e.g. minimum 20 at alpha 0.9, pinned by the repo's tests).",
    ),
    "C15": dict(
        engine="gaussian",
        technique="TLA+ spec (GaussianFallback.tla: recursive fit on an explicit call stack, matching loop) model-checked by TLC; exported group structures replayed into the real GaussianElectionModel.get_aggregate_prediction_intervals; recorded real gaussian runs validated by Trace_GaussianFallback",
        design_ref="DESIGN.md §5 C15, docs/gaussian.md",
        text="TLC checks ExactlyOne, RightPool, NoSibling, FloorAligned (and machinery lemmas) for every group structure of 2 states x 2 subgroups over calibration counts {0,1,2,9,10,11} and the three-column lists district offices use (405k + 113k states; 2x3 and 2x2x2 in thorough); a <= variant of the design reproduces a RightPool counterexample; 1,500 (28,383) exported structures are replayed into the real aggregate function, the pool that served each group is read off the model frame and the bound is recomputed from the logged pool statistics with the closed form; 21 (200) real client runs are recorded and validated.",
        note="Normal quantile, square root and the bootstrapped scale are outside TLA+: the spec decides which statistics a group receives, the projector checks the closed form (trusted base scipy.stats.norm.ppf); quick tier passes a smaller num_iterations to boot_sigma.",
    ),
    "C17": dict(
        engine="versions",
        technique="TLA+ spec (VersionedMargin.tla with exact rationals) model-checked by TLC over all small version histories; every exported history replayed into the real compute_versioned_margin_estimate with float64 and int64 columns; recorded random histories and the repository's versioned fixtures validated by Trace_VersionedMargin",
        design_ref="DESIGN.md §5 C17, docs/versions.md",
        text="TLC checks Convex, BeforeFirst, EveryPercent, CorrectionDef, AllMissing, NeverUsed on every history of <=3 versions (turnout <=4; <=6 and 4 versions in thorough: 14.5M states), incl. repeats, zero-vote versions, downward revisions and turnout revised to zero; configs with the repaired defects switched back on (integer truncation, monotonicity on the re-scaled axis) reproduce the V1/V2 counterexamples; all 33,680 exported histories are replayed twice (float64 and int64 columns) into the real function and compared as rationals; 643 (5,003) random traces and the repo's three versioned fixtures are validated; the extrapolation filter is bound on 480 groups.",
        note="'Latest percent' is the re-scaled one; at percent 0 the code's division guard gives margin 0; _extrapolate_unit_margin needs a pandas-2 groupby.apply shim to run at all under the installed pandas 3 (observation outside C17).",
    ),
    "C16": dict(
        engine="featurizer",
        technique="TLA+ spec (FeaturizerSpec.tla, one action per Featurizer step) model-checked by TLC; exported terminal states replayed into the real Featurizer with exact rational comparison; Featurizer calls recorded in real estimate runs validated by Trace_FeaturizerSpec",
        design_ref="DESIGN.md §5 C16, docs/featurizer.md",
        text="TLC checks SameColumns, NonConstant, OneAbsorbed, SeenLevel, UnseenLevel, Centered, OtherPooled, StateCopiesOnlyReporting, SliceDiscipline on all row/level assignments of the quick families (~250k states; 7.4M in thorough); 11,992 exported terminal states are replayed into the real Featurizer and compared (column lists, matrices as 0/1/<<1,k+1>>, centred values as exact rationals); the three callers' positional slicing is validated on recorded real runs of all estimators.",
        note="scale_features is not modelled (no caller uses it); F-C16-prefix (name-prefix collision) is an open known finding, not reachable with the client's frames.",
    ),
    "C18": dict(
        engine="controla",
        technique="TLA+ spec (Persistence.tla: ordered put sequence and local writes per option set / environment / estimator / gate outcome) model-checked by TLC; every exported behaviour replayed through the real client in fresh subprocesses with a recording fake S3; recorded runs validated by Trace_Persistence",
        design_ref="DESIGN.md §5 C18, docs/controla.md",
        text="TLC checks OnlyWhatAsked, SaveThenFail, Order, KeyShape on all 800 behaviours (16 option sets x 2 environments x 3 estimators x gate outcomes x national summary); the F7 switch reproduces the KeyShape counterexample; 224 covering behaviours (all 800 in thorough) are replayed through ModelClient.get_estimates in fresh interpreters (APP_ENV is read at import), the recorded ordered put sequence and local files are parsed into the spec's key structure and compared; 24 (72) varied runs with save_output=[] / default must write nothing unasked.",
        note="HistoricalModelClient._write_evaluation is outside the property and fails on its own (DataFrame not JSON serialisable) - documented, not checked.",
    ),
    "C19": dict(
        engine="versions",
        technique="TLA+ spec (S3Versions.tla: paging service with arbitrary page cuts, recursive client, download queue with failures) model-checked by TLC; every exported behaviour replayed against the real S3VersionUtil / VersionedDataHandler with scripted fakes; recorded random histories validated by Trace_S3Versions",
        design_ref="DESIGN.md §5 C19, docs/versions.md",
        text="TLC checks ExactWindow, Sampled, OwnStamp, SkipFailures, NoData for every history of <=5 versions (equal timestamps included), every paging, window, sampling step and failure subset (1.05M states; <=6 versions in thorough); all 14,790 exported behaviours are replayed against the real code whose s3 client and transfer manager are scripted fakes following the behaviour's choices; 480 (6,400) random histories of <=40 versions are recorded and validated as behaviours of the specification.",
        note="Listing is newest-first and pages are non-empty prefixes (the service contract); the early stop is admitted, not demanded.",
    ),
    "C20": dict(
        engine="controla",
        technique="TLA+ spec (FitRetry.tla: sequence of fits, Attempt/Retry with argument records, effective penalty lambda/scale) model-checked by TLC; every exported fault script replayed into the real client with a run-time wrapper around QuantileRegressionSolver.fit; recorded call sequences validated by Trace_FitRetry",
        design_ref="DESIGN.md §5 C20, docs/controla.md",
        text="TLC checks RetryArgs, NotFatal, SameTables, NoExtraFits for every position of one fault (median / lower / upper, 1-2 estimands x 1-2 levels) x both failure kinds x nonparametric/gaussian x lambda 0 / >0; the F1 switch reproduces the fatal retry, the lambda switch shows SameTables cannot hold for lambda > 0 with un-normalised weights; all 208 (756 x 2 elections) fault scripts are injected into real client runs, the recorded solver calls (tau, lambda, intercept flag, normalize flag, digests of X/y/weights, outcome) and the table differences against the fault-free run are validated by the trace spec.",
        note="A second failure on the retry is outside the property; F-C20-lambda (lambda_ > 0: tables differ after the retry) is an open known finding.",
    ),
}

NOT_YET = "check not built yet in this round (planned, see DESIGN.md §5)"


def main():
    checks = []
    for pid in ALL:
        if pid not in CHECKS:
            continue
        c = CHECKS[pid]
        checks.append(
            {
                "property_id": pid,
                "quick_cmd": f"./run_check.sh {pid} quick",
                "thorough_cmd": f"./run_check.sh {pid} thorough",
                "evidence_file": f"/verif/evidence/{pid}.json",
                "replay_cmd_template": "./replay.sh {path}",
                "engine": c["engine"],
                "level_claimed": {"category": "model_checking", "text": c["text"], "design_ref": c["design_ref"]},
                "level_note": c["note"],
                "technique": c["technique"],
            }
        )
    engines = {}
    for pid, c in CHECKS.items():
        engines.setdefault(c["engine"], []).append(pid)
    m = {
        "version": 1,
        "setup_cmd": "./setup.sh",
        "hooks": {
            "guard": "ELEXMODEL_VERIF",
            "enable": "checks import /repo/src directly (PYTHONPATH) and set ELEXMODEL_VERIF=1 where hooks are needed; most observation is done by run-time wrappers in /verif/harness, no build step",
            "baseline_off_cmd": "cd /repo && /venv/bin/python -m pytest -ra -q -p no:cacheprovider --timeout=900 --continue-on-collection-errors",
            "source_commits": HOOK_COMMITS,
            "add_only": True,
        },
        "engines": [
            {"name": k, "path": f"/verif/checks/{k}_checks.py", "serves_properties": sorted(v), "kind_free_text": "TLA+ spec + TLC + conformance (replay and trace validation)"}
            for k, v in sorted(engines.items())
        ],
        "checks": checks,
        "not_applicable": [{"property_id": p, "reason": NOT_YET} for p in ALL if p not in CHECKS],
        "notes": "All checks: python -m checks.check <id>; exit 2 = machinery failure. Specs in /verif/spec, harness in /verif/harness.",
    }
    with open(os.path.join(ROOT, "MANIFEST.json"), "w") as f:
        json.dump(m, f, indent=1)
    print("MANIFEST.json:", len(checks), "checks,", len(m["not_applicable"]), "not claimed")


if __name__ == "__main__":
    main()
