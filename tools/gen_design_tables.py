#!/usr/bin/env python3
"""Rewrite the marked section of DESIGN.md ("which checks catch which changes") from selftest/mutant_results.json and
seeded/*/meta.json.  usage: gen_design_tables.py [results.json]"""
import glob
import json
import os
import re
import sys

ROOT = os.path.dirname(os.path.dirname(os.path.abspath(__file__)))
BEGIN, END = "<!-- BEGIN mutation tables -->", "<!-- END mutation tables -->"


def caught_by(v):
    return [c for c, r in v.items() if isinstance(r, dict) and r.get("exit") == 1]


def main():
    res_path = sys.argv[1] if len(sys.argv) > 1 else f"{ROOT}/selftest/mutant_results.json"
    res = json.load(open(res_path)) if os.path.exists(res_path) else {}
    out = [BEGIN, ""]
    out.append("#### Independently seeded changes (`/verif/seeded/<id>/`, written by fresh sub-agents that saw only the property text)")
    out.append("")
    out.append("| change | what it does / what it needs to manifest | caught by (quick tier) | first clauses |")
    out.append("|---|---|---|---|")
    n_seed = n_seed_caught = 0
    for d in sorted(glob.glob(f"{ROOT}/seeded/*/")):
        name = os.path.basename(d.rstrip("/"))
        meta = json.load(open(f"{d}meta.json")) if os.path.exists(f"{d}meta.json") else {}
        r = res.get("seeded:" + name) or meta.get("checks", {})
        cb = caught_by(r)
        clauses = sorted({c for v in r.values() if isinstance(v, dict) for c in v.get("clauses", [])})[:3]
        summ = meta.get("summary") or ""
        if not summ and os.path.exists(f"{d}README.md"):
            txt = open(f"{d}README.md").read()
            lines = [l.strip() for l in txt.splitlines() if l.strip() and not l.startswith("#") and not l.startswith("```")]
            summ = " ".join(lines[:3])[:260]
        summ = summ.replace("|", "/")
        n_seed += 1
        n_seed_caught += bool(cb)
        out.append(f"| {name} | {summ} | {', '.join(cb) if cb else '**missed**'} | {', '.join(clauses)} |")
    out.append("")
    out.append(f"{n_seed_caught} of {n_seed} seeded changes are detected by the quick tier.")
    out.append("")
    out.append("#### Self-test mutants (`/verif/selftest/mutants/<PROP>_*.patch`, written while building the checks; `revert_*` = reverse of a `fix:` commit)")
    out.append("")
    byprop = {}
    for k, v in sorted(res.items()):
        if not k.startswith("mutant:"):
            continue
        nm = k[len("mutant:"):]
        byprop.setdefault(nm.split("_")[0], []).append((nm, v))
    out.append("| property | mutants caught / total | missed or not applicable |")
    out.append("|---|---|---|")
    for prop in sorted(byprop):
        items = byprop[prop]
        real = [(nm, v) for nm, v in items if "_benign_" not in nm]
        benign = [(nm, v) for nm, v in items if "_benign_" in nm]
        c = [nm for nm, v in real if caught_by(v)]
        miss = [nm + (" (patch no longer applies)" if "error" in v else "") for nm, v in real if not caught_by(v)]
        notes = list(miss)
        for nm, v in benign:
            notes.append(nm + (": FALSE ALARM" if caught_by(v) else ": property-preserving change, check silent (as it should be)"))
        out.append(f"| {prop} | {len(c)} / {len(real)} | {', '.join(notes) if notes else '-'} |")
    out += ["", END]
    p = f"{ROOT}/DESIGN.md"
    s = open(p).read()
    block = "\n".join(out)
    if BEGIN in s:
        s = re.sub(re.escape(BEGIN) + r".*?" + re.escape(END), lambda m: block, s, flags=re.S)
    else:
        s += "\n### 9.5 Which checks catch which changes\n\n" + block + "\n"
    open(p, "w").write(s)
    print(f"DESIGN.md updated: {n_seed_caught}/{n_seed} seeded, {sum(len(v) for v in byprop.values())} mutants listed")


if __name__ == "__main__":
    main()
