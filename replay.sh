#!/bin/sh
# usage: ./replay.sh <replay file>
cd "$(dirname "$0")"
export PYTHONPATH="$(pwd)" PYTHONHASHSEED=0
exec /venv/bin/python -m checks.replay "$1"
