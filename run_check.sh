#!/bin/sh
# usage: ./run_check.sh <property id> <quick|thorough> ; cwd=/verif
cd "$(dirname "$0")"
export PYTHONPATH="$(pwd)" PYTHONHASHSEED=${PYTHONHASHSEED:-0} VERIF_TIER=$2
export OMP_NUM_THREADS=1 OPENBLAS_NUM_THREADS=1 MKL_NUM_THREADS=1
exec /venv/bin/python -m checks.check "$1" --tier "$2"
