---------------------------- MODULE MC_Persistence ----------------------------
(* Every behaviour of the persistence design: 16 option sets x 2 environments x 3 estimators x 2 gate outcomes
   (x with / without national summary for a completed bootstrap run) x the request shapes of the estimator.
   Each behaviour is one initial state; terminal states are exported (scenario, expected ordered puts, local files). *)
EXTENDS Persistence, Json
CONSTANTS Export, ShapeMode

Shape(id, es, ag, al) == [id |-> id, estimands |-> es, aggs |-> ag, alphas |-> al]
ConformalShapes ==
  { Shape("A", <<"turnout">>, <<"postal_code", "unit">>, <<"0.9">>),
    Shape("B", <<"turnout", "dem">>, <<"postal_code", "county_fips", "unit">>, <<"0.7", "0.9">>),
    Shape("C", <<"dem">>, <<"county_fips", "postal_code">>, <<"0.8">>),
    Shape("D", <<"turnout">>, <<"unit">>, <<"0.9">>) }
BootstrapShapes ==
  { Shape("A", <<"margin">>, <<"postal_code", "unit">>, <<"0.9">>),
    Shape("B", <<"margin">>, <<"postal_code", "county_fips", "unit">>, <<"0.7", "0.9">>),
    Shape("C", <<"margin">>, <<"county_fips", "postal_code">>, <<"0.8">>) }
ShapesOf(m) ==
  LET all == IF m = "bootstrap" THEN BootstrapShapes ELSE ConformalShapes
  IN IF ShapeMode = "all" THEN all ELSE {x \in all : x.id = "B"}

ScenariosOf(m) ==
  { [opts |-> o, env |-> e, estimator |-> m, gate |-> g, natsum |-> n, shape |-> x.id,
     estimands |-> x.estimands, aggs |-> x.aggs, alphas |-> x.alphas]
    : o \in SUBSET Options, e \in {"local", "remote"}, g \in {"pass", "fail"}, n \in BOOLEAN, x \in ShapesOf(m) }
Scenarios == { s \in ScenariosOf("nonparametric") \cup ScenariosOf("gaussian") \cup ScenariosOf("bootstrap") : WellFormed(s) }

Init == sc \in Scenarios /\ PInitRest
Spec == Init /\ [][PNext]_pvars

ExportDone ==
  (Export /\ Terminal) =>
     PrintT(<<"SCEN", ToJson([sc |-> sc, phase |-> phase, puts |-> puts, files |-> files])>>)
=============================================================================
