SPECIFICATION Spec
CONSTANTS
  States = {"AA", "BB"}
  MaxVer = 2
  MaxRuns = 3
  MaxOps = 4
INVARIANT SourceOrder
INVARIANT DataWithinConfiguredStates
INVARIANT SavedIsUsed
PROPERTY NoSaveNoLocalChange
PROPERTY RunsNeverWriteRemote
PROPERTY LocalShadowsRemote
CHECK_DEADLOCK FALSE
