SPECIFICATION Spec
CONSTANTS
  F1 = FALSE
  Tol = 1
  Lams = {"pos"}
  Export = FALSE
  MaxEst = 2
  MaxAlpha = 2

INVARIANT NotFatal
INVARIANT RetryArgs
INVARIANT NoExtraFits
INVARIANT OneCoefficient
INVARIANT Progress
INVARIANT SameTables
CHECK_DEADLOCK FALSE
