SPECIFICATION Spec
CONSTANTS
  F1 = TRUE
  Tol = 1
  Lams = {"zero", "pos"}
  Export = FALSE
  MaxEst = 2
  MaxAlpha = 2

INVARIANT NotFatal
INVARIANT RetryArgs
INVARIANT NoExtraFits
INVARIANT OneCoefficient
INVARIANT Progress

CHECK_DEADLOCK FALSE
