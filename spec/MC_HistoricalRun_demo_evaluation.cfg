SPECIFICATION Spec
INVARIANT EvaluationWrittenWhenAsked
CHECK_DEADLOCK FALSE
