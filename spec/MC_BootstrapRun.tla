--------------------------- MODULE MC_BootstrapRun ---------------------------
(* Bounded model of BootstrapRun: every request with 2-3 training units, 1-2 outstanding units and at most one
   unexpected unit over three contests (statewide) or three districts in two states (district election), both lambda
   settings, both optional steps, B in {2, 3}, every admissible number of contest effects, up to two calls on the object.
   Terminal states are exported as shape classes for the spec -> code replay. *)
EXTENDS BootstrapRun, Json

CONSTANTS MaxCalls, ClipFirst, Export, TrainMax, TestMax

StatePairs == {<<"A", "">>, <<"B", "">>, <<"C", "">>}
DistrictPairs == {<<"A", "1">>, <<"A", "2">>, <<"B", "1">>}
SeqsOf(S, lo, hi) == UNION {[1..n -> S] : n \in lo..hi}

MCInit ==
  /\ InitRest
  /\ \E district \in BOOLEAN :
       LET P == IF district THEN DistrictPairs ELSE StatePairs IN
       \E tr \in SeqsOf(P, 2, TrainMax), te \in SeqsOf(P, 1, TestMax), ux \in SeqsOf(P, 0, 1),
          lg \in BOOLEAN, ver \in BOOLEAN, pr \in BOOLEAN, b \in {2, 3} :
         LET r0 == [B |-> b, lambdaGiven |-> lg, district |-> district, versioned |-> ver, pres |-> pr,
                    train |-> tr, test |-> te, unexp |-> ux, epsNonzero |-> 0, clipFirst |-> ClipFirst] IN
         \E k \in 0..Cardinality(EffectColumns(r0)) : rq = [r0 EXCEPT !.epsNonzero = k]

MCNext == Call(MaxCalls) \/ Pipeline
Spec == MCInit /\ [][MCNext]_bvars

\* per contest column: (training units, outstanding units, unexpected units)
Shape ==
  [c \in Columns(rq, TRUE) |-> <<TrainCount(rq, c), CountIn(rq.test, LAMBDA u : InColumn(u, c)), CountIn(rq.unexp, LAMBDA u : InColumn(u, c))>>]
ExportDone ==
  (Export /\ Done(MaxCalls) /\ ~rq.district /\ ~rq.versioned) =>
     PrintT(<<"SCEN", ToJson([B |-> rq.B, lambdaGiven |-> rq.lambdaGiven, pres |-> rq.pres,
                               shape |-> [c \in {x[1] : x \in Columns(rq, TRUE)} |-> Shape[<<c, "">>]]])>>)
=============================================================================
