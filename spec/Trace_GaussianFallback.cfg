SPECIFICATION TSpec
CONSTANTS
  Variant = "code"
INVARIANT TExactlyOne
INVARIANT TRightPool
INVARIANT TNoSibling
INVARIANT TFloorAligned
INVARIANT TNoError
INVARIANT ObsCalls
INVARIANT ObsModels
INVARIANT ObsAssigned
INVARIANT ObsExactlyOne
INVARIANT ObsRightPool
INVARIANT ObsNoSibling
CONSTRAINT Finished
POSTCONDITION PostOK
CHECK_DEADLOCK FALSE
