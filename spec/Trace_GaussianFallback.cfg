SPECIFICATION TSpec
CONSTANTS
  Variant = "code"
INVARIANT TExactlyOne
INVARIANT TRightPool
INVARIANT TNoSibling
INVARIANT TFloorAligned
INVARIANT TNoError
INVARIANT ObsAssigned
INVARIANT ObsExactlyOne
INVARIANT ObsRightPool
INVARIANT ObsNoSibling
CONSTRAINT Finished
POSTCONDITION PostOK
CHECK_DEADLOCK FALSE
