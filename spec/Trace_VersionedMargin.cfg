SPECIFICATION TSpec
CONSTANTS
  IntTruncation = FALSE
  MonotoneOnRescaled = FALSE
  MaxDist = 5
INVARIANT TRegularYieldsRows
INVARIANT TConvex
INVARIANT TBounded
INVARIANT TBeforeFirst
INVARIANT TEveryPercent
INVARIANT TCorrectionDef
INVARIANT TNearestDef
INVARIANT TAllMissing
INVARIANT TNeverUsed
INVARIANT ObsKind
INVARIANT ObsMissing
INVARIANT ObsRows
CONSTRAINT Finished
POSTCONDITION PostOK
CHECK_DEADLOCK FALSE
