SPECIFICATION Spec
CONSTANTS
  EstimatorSet <- GaussianOnly
  DistrictKinds <- StateOffice
  EstimandSet <- TwoCounts
  AlphaSet <- Alphas2
  AggSet <- Aggs3
  MaxEsts = 2
  MaxAlphas = 2
  MaxAggs = 2
  Export = FALSE
  LoopOrder = "estimand_outer"
  CacheSlots = "single"
  CacheRead = "requested"
  PredRead = "own"
  UnitCategoryInMergeKeys = TRUE
  DistrictInMergeKeys = TRUE
  ReportingInMergeKeys = TRUE
INVARIANT ReadsOwn
CHECK_DEADLOCK FALSE
