SPECIFICATION TSpec
CONSTANTS
  IntTruncation = TRUE
  MaxDist = 5
INVARIANT ObsKind
INVARIANT ObsMissing
INVARIANT ObsRows
CONSTRAINT Finished
POSTCONDITION PostOK
CHECK_DEADLOCK FALSE
