---------------------------- MODULE Trace_Bootstrap ----------------------------
(* C06 / C07, code -> spec.  One record per trace:
   "ranks"   B and the ranks the real _get_quantiles returned for every level 1..999 permille: each must be one of
             the specification's candidate ranks and the pair must be valid;
   "bounds"  a prediction and a vector of error draws injected on a real model object, with the unit and aggregate
             bounds the real functions returned at several levels: they must equal the specification's
             interpolated quantile bounds (unit bounds are rounded to whole numbers by the code: within 1/2;
             aggregate bounds logged in millionths: within 1);
   "client"  every row of every table of a real bootstrap client run, in millionths with exact signs, with the
             call / stop lists of the run and, per row, whether it equals (bit for bit) the row of the same run
             without lists: ordering, nesting, ranges (C06) and the call / stop clauses (C07). *)
EXTENDS BootstrapIntervals, Json, IOUtils

CONSTANT ExactKnown   \* TRUE: the bounds of a group with known (reporting / unexpected) parts must equal the exact
                      \* numerator / denominator model (C11's clause); FALSE: advisory (C06 states order relations)
VARIABLES tid
Traces == JsonDeserialize(IOEnv.TRACE_FILE)
NT == Len(Traces)
T == Traces[tid]
TInit == tid = 1
TNext == tid < NT /\ tid' = tid + 1
TSpec == TInit /\ [][TNext]_tid
Finished == (tid = NT) => TLCSet(1, TRUE)
PostOK == TLCGet(1) = TRUE
Mark(name) == PrintT(<<"FAIL", ToJson([tid |-> tid, clause |-> name])>>)
Chk(name, cond) == cond \/ (Mark(name) /\ FALSE)
\* advisory: the implementation differs from the specification's exact model in a way the property does not forbid
Adv(name, cond) == cond \/ PrintT(<<"ADVISORY", ToJson([tid |-> tid, clause |-> name])>>)
Abs(x) == IF x < 0 THEN -x ELSE x

RanksOK ==
  T.kind = "ranks" =>
    \A A \in 1..999 :
      /\ Chk("ranks_valid", ValidRanks(T.rl[A], T.ru[A], T.B))
      /\ (A < 999 => Chk("ranks_nested", T.rl[A + 1] <= T.rl[A] /\ T.ru[A] <= T.ru[A + 1]))
      /\ Adv("lower_rank_differs_from_modelled_formula", T.rl[A] \in LowerRankCands(A, T.B))
      /\ Adv("upper_rank_differs_from_modelled_formula", T.ru[A] \in UpperRankCands(A, T.B))

\* |obs/scale - num/den| <= tol/scale   (all integers)
Near(obs, scale, r, tol) == Abs(obs * r[2] - r[1] * scale) <= tol * r[2]
BoundsExactAt(k) ==
  LET A == T.levels[k]
      Bn == Len(T.xs)
      o == T.obs[k]
  IN \E rl \in LowerRankCands(A, Bn), ru \in UpperRankCands(A, Bn) :
       /\ Abs(2 * (o.ulo * UnitLower(T.p, T.xs, ru)[2] - UnitLower(T.p, T.xs, ru)[1])) <= UnitLower(T.p, T.xs, ru)[2]
       /\ Abs(2 * (o.uhi * UnitUpper(T.p, T.xs, rl)[2] - UnitUpper(T.p, T.xs, rl)[1])) <= UnitUpper(T.p, T.xs, rl)[2]
       /\ Near(o.alo, 1000, AggLower(T.p, T.xs, ru), 1)
       /\ Near(o.ahi, 1000, AggUpper(T.p, T.xs, rl), 1)
\* C06 on injected draws: ordering, strict containment of the prediction, nesting over the (ascending) levels;
\* equality with the interpolated-quantile model is advisory
BoundsOK ==
  T.kind = "bounds" =>
    \A k \in DOMAIN T.levels :
      LET o == T.obs[k] IN
      /\ Chk("unit_lower_le_upper", o.ulo <= o.uhi)
      /\ Chk("prediction_strictly_inside", o.alo < T.p * 1000 /\ T.p * 1000 < o.ahi)
      /\ (k > 1 => /\ Chk("unit_nested", o.ulo <= T.obs[k - 1].ulo /\ T.obs[k - 1].uhi <= o.uhi)
                    /\ Chk("group_nested", o.alo <= T.obs[k - 1].alo /\ T.obs[k - 1].ahi <= o.ahi))
      /\ Adv("bounds_differ_from_modelled_quantiles", BoundsExactAt(k))

\* kind "known": one group with a reporting unit (w, y, z), an unexpected unit (margin mu, two-party votes wu) and a
\* nonreporting unit with injected draws; draws 2 and 3 are identical and not below draw 1, so the quantile levels 0 and
\* 2/3 (B = 3, alpha = 0.9) are order statistics.  Bounds logged in 1/10000.
KnownOK ==
  T.kind = "known" =>
    LET Kyz == T.w * T.y * T.z + T.mu
        Kz  == T.w * T.z + T.wu
        d1  == KnownDraw(Kyz, Kz, T.e1[1], T.e2[1], T.e3[1], T.e4[1])
        d2  == KnownDraw(Kyz, Kz, T.e1[2], T.e2[2], T.e3[2], T.e4[2])
        pr  == KnownPred(Kyz, Kz, T.yz, T.zp)
        lo  == RMin(RNorm(RSub(pr, d2)), RNorm(RSub(pr, Thousandth)))
        hi  == RMax(RNorm(RSub(pr, d1)), RAdd(pr, Thousandth))
    IN  /\ Chk("known_scenario_well_formed", RLe(d1, d2) /\ Kz + T.zp > 0)
        /\ Chk("known_pred", Near(T.obs.pred, 10000, pr, 1))
        /\ Chk("prediction_strictly_inside", T.obs.lower < T.obs.pred /\ T.obs.pred < T.obs.upper)
        /\ IF ExactKnown
           THEN Chk("known_lower", Near(T.obs.lower, 10000, lo, 1)) /\ Chk("known_upper", Near(T.obs.upper, 10000, hi, 1))
           ELSE Adv("known_bounds_differ_from_modelled_quantiles", Near(T.obs.lower, 10000, lo, 1) /\ Near(T.obs.upper, 10000, hi, 1))

InSeq(x, s) == \E i \in DOMAIN s : s[i] = x
ClientOK ==
  T.kind = "client" =>
    /\ \A i \in DOMAIN T.units :
         LET u == T.units[i] IN
         /\ \A a \in DOMAIN u.lower : Chk("unit_lower_le_upper", u.lower[a] <= u.upper[a])
         /\ \A a \in DOMAIN u.lower : a > 1 =>
              Chk("unit_nested", u.lower[a] <= u.lower[a - 1] /\ u.upper[a - 1] <= u.upper[a])
         /\ Chk("unit_turnout_nonnegative", u.turnout >= 0)
         /\ Chk("unit_margin_within_turnout", Abs(u.pred) <= u.turnout + 1)
         /\ (u.final => \A a \in DOMAIN u.lower : Chk("reported_unit_degenerate", u.lower[a] = u.pred /\ u.upper[a] = u.pred))
    /\ \A i \in DOMAIN T.groups :
         LET g == T.groups[i]
             calledL == g.top /\ InSeq(g.name, T.lhs)
             calledR == g.top /\ InSeq(g.name, T.rhs)
             stopped == g.top /\ InSeq(g.name, T.stop)
         IN
         /\ Chk("margin_in_range", -1000000 <= g.pred /\ g.pred <= 1000000)
         /\ Chk("turnout_nonnegative", g.turnout >= 0)
         /\ \A a \in DOMAIN g.lower :
              /\ (~calledL /\ ~calledR /\ ~stopped) => Chk("prediction_strictly_inside", g.lower[a] < g.pred /\ g.pred < g.upper[a])
              /\ (a > 1 /\ ~calledL /\ ~calledR /\ ~stopped) =>
                   Chk("group_nested", g.lower[a] <= g.lower[a - 1] /\ g.upper[a - 1] <= g.upper[a])
              \* C07
              /\ calledL => Chk("called_left_prediction", g.pred >= 5000) /\ (~stopped => Chk("called_left_lower", g.lower[a] >= 0))
              /\ calledR => Chk("called_right_prediction", g.pred <= -5000) /\ (~stopped => Chk("called_right_upper", g.upper[a] <= 0))
              /\ (stopped /\ ~calledL /\ ~calledR) => Chk("stopped_contains_zero", g.lower[a] <= 0 /\ 0 <= g.upper[a])
         /\ (~calledL /\ ~calledR /\ ~stopped) => Chk("untouched_row_unchanged", g.same)
=============================================================================
