SPECIFICATION Spec
CONSTANTS
  Contests = {"AA", "BB"}
  PVals <- PV_Small
  QVals <- QV_Small
  Names = {"AA", "BB", "QQ"}
  Export = TRUE
CONSTRAINT ExportDone
INVARIANT CalledLeftHonoured
INVARIANT CalledRightHonoured
INVARIANT StoppedContainsZero
INVARIANT UntouchedUnchanged
INVARIANT ContradictionRejected
INVARIANT NoEstimateOnError
INVARIANT StrictlyInside
CHECK_DEADLOCK FALSE
