---------------------------- MODULE MC_S3Versions ----------------------------
(* Bounded universe for S3Versions: TLC enumerates every version history of at most MaxN versions with
   non-increasing times in 1..MaxT (equal times included), every window [start, end] with each bound at every cut
   point or None (open), every sampling step, and then - as nondeterministic steps - every way the service can page
   the listing (each request answered with 1..PageLimit versions) and every subset of failing downloads.
   With Export = TRUE every terminal state (= one complete behaviour, its paging and failures are kept in the
   history variables) is printed as JSON for replay into the real S3VersionUtil. *)
EXTENDS S3Versions, Json

CONSTANTS MaxN, MaxT, PageLimit, Steps, ZoneSeq, Export

NonInc(n) == {s \in [1..n -> 1..MaxT] : \A i \in 1..(n - 1) : s[i] >= s[i + 1]}
Bounds == {NONE} \cup 0..(MaxT + 1)

\* version ids are opaque; oldest = 1.  The zone is a function of the scenario so that it does not multiply states.
Init ==
  /\ \E n \in 0..MaxN : \E ts \in NonInc(n) : \E st \in Bounds, en \in Bounds, k \in Steps :
       sc = [ versions |-> [i \in 1..n |-> [id |-> n - i + 1, t |-> ts[i]]],
              start |-> st, end |-> en, step |-> k,
              zone |-> ZoneSeq[((n + st + en + k + 2) % Len(ZoneSeq)) + 1] ]
  /\ InitRest

Next ==
  \/ \E k \in 1..PageLimit : ClientListPage(k)
  \/ Unwind \/ GetNone \/ Queue
  \/ \E ok \in BOOLEAN : Complete(ok)
  \/ Concat \/ Handler

Spec == Init /\ [][Next]_vars

Zones3 == <<"UTC", "America/New_York", "Asia/Tokyo">>
Zones1 == <<"America/New_York">>
Steps123 == {1, 2, 3}
Steps12 == {1, 2}

ExportDone ==
  (Export /\ pc = "done") =>
     PrintT(<<"SCEN", ToJson([ sc |-> sc,
                               pages |-> [j \in 1..Len(calls) |-> calls[j].n],
                               outcomes |-> outcomes,
                               expect |-> [ listed |-> Ids(listed), requested |-> requested,
                                            ncalls |-> Len(calls),
                                            kind |-> result.kind, rows |-> result.rows, hresult |-> hresult ] ])>>)
=============================================================================
