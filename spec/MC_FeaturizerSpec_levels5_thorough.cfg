SPECIFICATION Spec
CONSTANTS
  Matching = "identity"
  MinRows = 5
  MaxRows = 5
  MaxOutside = 1
  L1 = {"a", "k", "z"}
  L2 = {"p", "q"}
  FESeqs <- FE_12a
  FeatSeqs <- FT_x
  SepSeqs <- SEP_none
  StateSet = {"S1"}
  CenterSet = {FALSE}
  NoInterceptToo = FALSE
  Callers = {"pred"}
  SelMode = "all"
  WithNA = FALSE
  NAInExpected = FALSE
  ExtraSet <- EX_none
  Export = TRUE
  SampleMod = 8
INVARIANT NoRaise
INVARIANT DisciplineHolds
INVARIANT SameColumns
INVARIANT NonConstant
INVARIANT OneAbsorbed
INVARIANT SeenLevel
INVARIANT UnseenLevel
INVARIANT Centered
INVARIANT OtherPooled
INVARIANT StateCopiesOnlyReporting
CONSTRAINT ExportDone
CHECK_DEADLOCK FALSE
