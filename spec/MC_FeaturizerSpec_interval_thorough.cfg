SPECIFICATION Spec
CONSTANTS
  Matching = "identity"
  MinRows = 2
  MaxRows = 4
  MaxOutside = 0
  L1 = {"a", "k", "z"}
  L2 = {"p", "q"}
  FESeqs <- FE_q
  FeatSeqs <- FT_x
  SepSeqs <- SEP_none
  StateSet = {"S1"}
  CenterSet = {FALSE}
  NoInterceptToo = FALSE
  Callers = {"interval"}
  SelMode = "all"
  WithNA = TRUE
  NAInExpected = TRUE
  ExtraSet <- EX_none
  Export = TRUE
  SampleMod = 1
INVARIANT NoRaise
INVARIANT DisciplineHolds
INVARIANT SameColumns
INVARIANT NonConstant
INVARIANT OneAbsorbed
INVARIANT SeenLevel
INVARIANT UnseenLevel
INVARIANT Centered
INVARIANT OtherPooled
INVARIANT StateCopiesOnlyReporting
CONSTRAINT ExportDone
CHECK_DEADLOCK FALSE
