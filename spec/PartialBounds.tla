---------------------------- MODULE PartialBounds ----------------------------
(***************************************************************************)
(* Supplementary model (no listed property): the clipping bounds the       *)
(* bootstrap estimator derives for a partially reported unit from the      *)
(* expected-vote percentage -                                              *)
(*   BootstrapElectionModel._generate_nonreporting_bounds                  *)
(* for the two quantities it models: the normalized margin ("margin") and  *)
(* the turnout factor ("turnout").  Rationals are pairs <<n, d>>, d > 0.    *)
(*   f = min(percent, 100) / 100                                           *)
(*   margin :  lower = f m + (1 - f) ylb      upper = f m + (1 - f) yub    *)
(*   turnout:  lower = t / (f + e)            upper = t / max(f - e, 1/100)*)
(*             (an upper bound of 0 is replaced by zub)                    *)
(*   f < 1/2 or f = 1:  the naive bounds (ylb, yub) / (zlb, zub)           *)
(***************************************************************************)
EXTENDS Integers, TLC

VARIABLES sc,     \* [kind, pev, v (the observed margin or turnout factor), e, lb, ub]
          out,    \* [lower, upper]
          bpc
bvars == <<sc, out, bpc>>

GCD(a, b) == LET RECURSIVE g(_, _)
                 g(x, y) == IF y = 0 THEN x ELSE g(y, x % y)
             IN  g(IF a < 0 THEN -a ELSE a, IF b < 0 THEN -b ELSE b)
R(n, d) == LET s == IF d < 0 THEN -1 ELSE 1
               g == GCD(n, d)
           IN  <<(s * n) \div g, (s * d) \div g>>
RAdd(a, b) == R(a[1] * b[2] + b[1] * a[2], a[2] * b[2])
RSub(a, b) == R(a[1] * b[2] - b[1] * a[2], a[2] * b[2])
RMul(a, b) == R(a[1] * b[1], a[2] * b[2])
RDiv(a, b) == R(a[1] * b[2], a[2] * b[1])
RLe(a, b) == a[1] * b[2] <= b[1] * a[2]
RLt(a, b) == a[1] * b[2] < b[1] * a[2]
RMax(a, b) == IF RLe(a, b) THEN b ELSE a
One == <<1, 1>>
Half == <<1, 2>>

Frac(pev) == R(IF pev > 100 THEN 100 ELSE pev, 100)
Naive(s) == RLt(Frac(s.pev), Half) \/ Frac(s.pev) = One

Bounds(s) ==
  LET f == Frac(s.pev)
      partial ==
        IF s.kind = "margin"
        THEN [lower |-> RAdd(RMul(f, s.v), RMul(RSub(One, f), s.lb)), upper |-> RAdd(RMul(f, s.v), RMul(RSub(One, f), s.ub))]
        ELSE LET up == RDiv(s.v, RMax(RSub(f, s.e), <<1, 100>>))
             IN  [lower |-> RDiv(s.v, RAdd(f, s.e)), upper |-> IF up[1] = 0 THEN s.ub ELSE up]
  IN  IF Naive(s) THEN [lower |-> s.lb, upper |-> s.ub] ELSE partial

Compute == bpc = "compute" /\ out' = Bounds(sc) /\ bpc' = "done" /\ UNCHANGED sc
BInitRest == bpc = "compute" /\ out = [lower |-> <<0, 1>>, upper |-> <<0, 1>>]
BDone == bpc = "done"

\* properties (the observed value is within the naive range, as the estimator's own clipping guarantees)
Ordered == BDone => RLe(out.lower, out.upper)
MarginWithinNaive == (BDone /\ sc.kind = "margin") => RLe(sc.lb, out.lower) /\ RLe(out.upper, sc.ub)
ObservedMarginInside == (BDone /\ sc.kind = "margin" /\ ~Naive(sc)) => RLe(out.lower, sc.v) /\ RLe(sc.v, out.upper)
\* the naive extrapolation of the counted turnout (t / f) is inside the turnout bounds
ExtrapolationInside ==
  (BDone /\ sc.kind = "turnout" /\ ~Naive(sc) /\ sc.v[1] > 0) =>
     LET x == RDiv(sc.v, Frac(sc.pev)) IN RLe(out.lower, x) /\ RLe(x, out.upper)
\* more counted vote never widens the margin interval - below 100 percent
Width(s) == LET b == Bounds(s) IN RSub(b.upper, b.lower)
MarginNarrows ==
  (bpc = "compute" /\ sc.kind = "margin" /\ sc.pev >= 50 /\ sc.pev < 99) =>
     RLe(Width([sc EXCEPT !.pev = sc.pev + 1]), Width(sc))
\* ... at 100 percent (a unit still below the reporting threshold) the code falls back to the naive bounds: the
\* interval jumps from almost nothing to the whole range (finding demonstration)
MarginNarrowsUpTo100 ==
  (bpc = "compute" /\ sc.kind = "margin" /\ sc.pev >= 50 /\ sc.pev < 100) =>
     RLe(Width([sc EXCEPT !.pev = sc.pev + 1]), Width(sc))
=============================================================================
