----------------------------- MODULE LedgerDelta -----------------------------
(* C11: adding one unexpected unit to the feed.  The ledger pipeline of Ledger is run twice: first on the
   scenario without the extra feed row, then - after the action AddUnexpected - on the scenario with it.
   `prev` keeps the terminal state of the first run, so the effect of AddUnexpected is a state predicate
   (Delta) over (prev, current terminal state). *)
EXTENDS Ledger

VARIABLES phase,   \* 1 = run without the extra row, 2 = run with it
          extra,   \* the unit record of the extra unexpected feed row
          prev     \* terminal state of phase 1: [utable, tables]

dvars == <<vars, phase, extra, prev>>

X == Len(sc.units)          \* id of the extra unit in phase 2

AddUnexpected ==
  /\ pc = "done" /\ phase = 1
  /\ prev' = [utable |-> utable, tables |-> tables]
  /\ sc' = [sc EXCEPT !.units = Append(@, extra)]
  /\ phase' = 2
  /\ pc' = "merge"
  /\ data' = {} /\ dvotes' = <<>> /\ drep' = <<>> /\ unexp' = {} /\ nmcat' = <<>>
  /\ fR' = {} /\ fN' = {} /\ fX' = {} /\ utable' = <<>> /\ tables' = <<>>
  /\ UNCHANGED extra

DNext == (Next /\ UNCHANGED <<phase, extra, prev>>) \/ AddUnexpected

Done2 == pc = "done" /\ phase = 2

\* the groups the extra unit can be attributed to at a level: its state and the key recovered from its id;
\* none at classification levels
XAttributable(l, g) ==
  /\ "county_classification" \notin Rng(AggKeys(l))
  /\ Defined(X, AggKeys(l)) /\ GroupKey(X, AggKeys(l)) = g

Plus(r, v) == [r EXCEPT !.counted = @ + v, !.pred = @ + v,
                        !.lower = [a \in DOMAIN @ |-> @[a] + v], !.upper = [a \in DOMAIN @ |-> @[a] + v],
                        !.nmemb = @ + 1, !.ptsum = @ + extra.pt, !.pmsum = @ + extra.pm]
EmptyRow == [counted |-> 0, reporting |-> 0, pred |-> 0, lower |-> [a \in 1..NAlpha |-> 0],
             upper |-> [a \in 1..NAlpha |-> 0], hasN |-> FALSE, nmemb |-> 0, ptsum |-> 0, pmsum |-> 0]

\* C11 as a predicate on (prev, current)
DeltaUnits ==
  Done2 => /\ DOMAIN utable = DOMAIN prev.utable \cup {X}
           /\ \A i \in DOMAIN prev.utable : utable[i] = prev.utable[i]
           /\ utable[X] = [state |-> extra.fstate, cat |-> "unexpected", reporting |-> 0, votes |-> extra.votes]
DeltaGroups ==
  Done2 => \A l \in Levels :
    LET new == tables[l].val  old == prev.tables[l].val IN
    /\ DOMAIN new = DOMAIN old \cup {g \in {GroupKey(X, AggKeys(l))} : XAttributable(l, g)}
    /\ \A g \in DOMAIN new :
         IF XAttributable(l, g)
         THEN new[g] = Plus(IF g \in DOMAIN old THEN old[g] ELSE EmptyRow, extra.votes)
         ELSE g \in DOMAIN old /\ new[g] = old[g]
\* the extra unit is attributable at every non-classification level whichever aggregates were requested
DeltaAlwaysAttributed ==
  Done2 => \A l \in Levels : "county_classification" \notin Rng(AggKeys(l)) => Defined(X, AggKeys(l))
=============================================================================
