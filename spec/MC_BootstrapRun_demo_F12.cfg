SPECIFICATION Spec
CONSTANT DistrictMin = 1
CONSTANT MaxCalls = 1
CONSTANT ClipFirst = FALSE
CONSTANT TrainMax = 2
CONSTANT TestMax = 1
CONSTANT Export = FALSE
INVARIANT ClipLast
INVARIANT RunOnce
INVARIANT StreamIgnoresUnexpected
INVARIANT StoredShapes
CHECK_DEADLOCK FALSE
