SPECIFICATION TSpec
INVARIANT TGroupFloors
INVARIANT ObsFloors
INVARIANT ObsUnitTable
CONSTRAINT Finished
POSTCONDITION PostOK
CHECK_DEADLOCK FALSE
