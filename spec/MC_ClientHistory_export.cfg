SPECIFICATION Spec
CONSTANTS
  Estimators <- AllEstimators
  ArgIds <- TwoArgs
  DefaultArgIds <- DefaultA
  HashSeeds <- Hash0
  MaxCalls = 3
  MaxProcs = 1
  Export = TRUE
  SigmaSeeded = TRUE
  SplitSeeded = TRUE
  BootSeeded = TRUE
  FreshModelPerCall = TRUE
  DefaultsUntouched = TRUE
  OrderedIteration = TRUE
  SummaryStateless = TRUE
  WeightsRebuilt = TRUE
  FeedCopied = TRUE
  OutlierColumnsOwn = TRUE
INVARIANT Functional
INVARIANT SeedDerived
CONSTRAINT ExportDone
CHECK_DEADLOCK FALSE
