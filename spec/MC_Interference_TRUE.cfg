SPECIFICATION ISpec
CONSTANTS
  Units = {u1, u2, u3, u4}
  Groups = {g1, g2}
  Historical = TRUE
  Leak = "none"
INVARIANT NonInterference
INVARIANT HistoricalHidden
INVARIANT ReportingReaches
CHECK_DEADLOCK FALSE
