SPECIFICATION Spec
CONSTANTS
  EstimatorSet <- Conformal2
  DistrictKinds <- StateOffice
  EstimandSet <- TwoCounts
  AlphaSet <- Alphas2
  AggSet <- Aggs3
  MaxEsts = 2
  MaxAlphas = 1
  MaxAggs = 2
  Export = FALSE
  LoopOrder = "estimand_outer"
  CacheSlots = "per_alpha"
  CacheRead = "requested"
  PredRead = "own"
  UnitCategoryInMergeKeys = TRUE
  DistrictInMergeKeys = TRUE
  ReportingInMergeKeys = FALSE
INVARIANT StableKeys
CHECK_DEADLOCK FALSE
