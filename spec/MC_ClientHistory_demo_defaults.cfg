SPECIFICATION Spec
CONSTANTS
  Estimators <- AllEstimators
  ArgIds <- TwoArgs
  DefaultArgIds <- DefaultA
  HashSeeds <- Hash01
  MaxCalls = 3
  MaxProcs = 2
  Export = FALSE
  SigmaSeeded = TRUE
  SplitSeeded = TRUE
  BootSeeded = TRUE
  FreshModelPerCall = TRUE
  DefaultsUntouched = FALSE
  OrderedIteration = TRUE
  SummaryStateless = TRUE
  WeightsRebuilt = TRUE
  FeedCopied = TRUE
  OutlierColumnsOwn = TRUE
INVARIANT Functional
CHECK_DEADLOCK FALSE
