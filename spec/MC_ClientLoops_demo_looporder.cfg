SPECIFICATION Spec
CONSTANTS
  EstimatorSet <- GaussianOnly
  DistrictKinds <- StateOffice
  EstimandSet <- TwoCounts
  AlphaSet <- Alphas2
  AggSet <- Aggs3
  MaxEsts = 2
  MaxAlphas = 2
  MaxAggs = 2
  Export = FALSE
  LoopOrder = "units_first"
  CacheSlots = "per_alpha"
  CacheRead = "requested"
  PredRead = "own"
  UnitCategoryInMergeKeys = TRUE
  DistrictInMergeKeys = TRUE
  ReportingInMergeKeys = TRUE
INVARIANT ReadsOwn
CHECK_DEADLOCK FALSE
