SPECIFICATION TSpec
INVARIANT TExactWindow
INVARIANT TStopIsSafe
INVARIANT TSampled
INVARIANT TOwnStamp
INVARIANT TSkipFailures
INVARIANT TNoData
INVARIANT ObsCallCount
INVARIANT ObsProtocol
INVARIANT ObsListed
INVARIANT ObsSampled
INVARIANT ObsResult
CONSTRAINT Finished
POSTCONDITION PostOK
CHECK_DEADLOCK FALSE
