SPECIFICATION TSpec
CONSTANTS
  ExactKnown = FALSE
INVARIANT RanksOK
INVARIANT BoundsOK
INVARIANT KnownOK
INVARIANT ClientOK
CONSTRAINT Finished
POSTCONDITION PostOK
CHECK_DEADLOCK FALSE
