------------------------------ MODULE RaceCalls ------------------------------
(***************************************************************************)
(* Race calls and call-stops on the top-level aggregate of the bootstrap   *)
(* estimator (BootstrapElectionModel.get_aggregate_predictions /           *)
(* get_aggregate_prediction_intervals, _format_called_contests,            *)
(* _adjust_called_contests).  All margins are integers in thousandths.     *)
(*                                                                         *)
(* One action per code step:                                               *)
(*   Validate    _format_called_contests: a contest named for both parties *)
(*               or a named contest that is not modelled -> Error          *)
(*   Clamp       _adjust_called_contests on the point prediction           *)
(*   Interval    bounds = clamped prediction - error quantiles (the code   *)
(*               builds the interval around the CLAMPED prediction)        *)
(*   Straddle    lower <= pred - 0.001, upper >= pred + 0.001              *)
(*   Override    called L and lower < 0 -> lower := +0.005;                *)
(*               called R and upper > 0 -> upper := -0.005                 *)
(*   Stop        stop-listed and lower > 0 -> lower := -0.005;             *)
(*               stop-listed and upper < 0 -> upper := +0.005              *)
(***************************************************************************)
EXTENDS Integers, Sequences, FiniteSets, TLC

CONSTANTS Contests      \* names of the modelled contests

VARIABLES sc,           \* scenario: [p, a, b : Contests -> Int, lhs, rhs, stop : sets of names]
                        \*   p raw prediction, a >= b the error quantiles at the upper / lower quantile level
          pc, pred, lower, upper, err
rvars == <<sc, pc, pred, lower, upper, err>>

LT == 5      \* lhs_called_threshold  +0.005
RT == -5     \* rhs_called_threshold  -0.005
Max(x, y) == IF x >= y THEN x ELSE y
Min(x, y) == IF x <= y THEN x ELSE y

Validate ==
  /\ pc = "validate"
  /\ IF \/ sc.lhs \cap sc.rhs # {}
        \/ sc.lhs \ Contests # {} \/ sc.rhs \ Contests # {} \/ sc.stop \ Contests # {}
     THEN err' = TRUE /\ pc' = "error"
     ELSE err' = FALSE /\ pc' = "clamp"
  /\ UNCHANGED <<sc, pred, lower, upper>>

Clamp ==
  /\ pc = "clamp"
  /\ pred' = [c \in Contests |-> IF c \in sc.lhs THEN Max(LT, sc.p[c])
                                 ELSE IF c \in sc.rhs THEN Min(RT, sc.p[c]) ELSE sc.p[c]]
  /\ pc' = "interval"
  /\ UNCHANGED <<sc, lower, upper, err>>

Interval ==
  /\ pc = "interval"
  /\ lower' = [c \in Contests |-> pred[c] - sc.a[c]]
  /\ upper' = [c \in Contests |-> pred[c] - sc.b[c]]
  /\ pc' = "straddle"
  /\ UNCHANGED <<sc, pred, err>>

Straddle ==
  /\ pc = "straddle"
  /\ lower' = [c \in Contests |-> Min(lower[c], pred[c] - 1)]
  /\ upper' = [c \in Contests |-> Max(upper[c], pred[c] + 1)]
  /\ pc' = "override"
  /\ UNCHANGED <<sc, pred, err>>

Override ==
  /\ pc = "override"
  /\ lower' = [c \in Contests |-> IF lower[c] < 0 /\ c \in sc.lhs THEN LT ELSE lower[c]]
  /\ upper' = [c \in Contests |-> IF upper[c] > 0 /\ c \in sc.rhs THEN RT ELSE upper[c]]
  /\ pc' = "stop"
  /\ UNCHANGED <<sc, pred, err>>

Stop ==
  /\ pc = "stop"
  /\ lower' = [c \in Contests |-> IF lower[c] > 0 /\ c \in sc.stop THEN RT ELSE lower[c]]
  /\ upper' = [c \in Contests |-> IF upper[c] < 0 /\ c \in sc.stop THEN LT ELSE upper[c]]
  /\ pc' = "done"
  /\ UNCHANGED <<sc, pred, err>>

RNext == Validate \/ Clamp \/ Interval \/ Straddle \/ Override \/ Stop

RInitRest == pc = "validate" /\ pred = <<>> /\ lower = <<>> /\ upper = <<>> /\ err = FALSE

---------------------------------------------------------------------------
(* C07 *)
RDone == pc = "done"

CalledLeftHonoured ==
  RDone => \A c \in Contests : c \in sc.lhs => pred[c] >= LT /\ (c \notin sc.stop => lower[c] >= 0)
CalledRightHonoured ==
  RDone => \A c \in Contests : c \in sc.rhs => pred[c] <= RT /\ (c \notin sc.stop => upper[c] <= 0)
StoppedContainsZero ==
  RDone => \A c \in Contests : (c \in sc.stop /\ c \notin sc.lhs \cup sc.rhs) => lower[c] <= 0 /\ 0 <= upper[c]
\* neither called nor stopped: exactly the straddled bootstrap interval around the raw prediction
UntouchedUnchanged ==
  RDone => \A c \in Contests : c \notin sc.lhs \cup sc.rhs \cup sc.stop =>
             /\ pred[c] = sc.p[c]
             /\ lower[c] = Min(sc.p[c] - sc.a[c], sc.p[c] - 1)
             /\ upper[c] = Max(sc.p[c] - sc.b[c], sc.p[c] + 1)
ContradictionRejected ==
  (pc \in {"done", "error"}) =>
     (pc = "error" <=> (sc.lhs \cap sc.rhs # {} \/ (sc.lhs \cup sc.rhs \cup sc.stop) \ Contests # {}))
\* in the error state no estimate exists
NoEstimateOnError == pc = "error" => pred = <<>> /\ lower = <<>> /\ upper = <<>>
\* C06 on the same table: an uncalled, unstopped contest has lower < pred < upper
StrictlyInside ==
  RDone => \A c \in Contests : c \notin sc.lhs \cup sc.rhs \cup sc.stop => lower[c] < pred[c] /\ pred[c] < upper[c]
=============================================================================
