SPECIFICATION Spec
CONSTANTS
  F7 = FALSE
  Export = FALSE
  ShapeMode = "B"

INVARIANT OnlyWhatAsked
INVARIANT SaveThenFail
INVARIANT Order
INVARIANT KeyShape
INVARIANT Progress
CHECK_DEADLOCK FALSE
