---------------------------- MODULE ClientLoops ----------------------------
(* C13 - what is reported for one (estimand, aggregate level, interval level) does not depend on what else was
   requested; every table keeps the same key / category columns however many estimands are requested.

   The loop nest of ModelClient.get_estimates (client.py L438-494), one action per call the client makes, with the
   objects the iterations SHARE as variables:

     for estimand in estimands:                                             UnitPred      model.get_unit_predictions
         results_handler.add_unit_predictions (frames mutated in place)                    (+ pred_turnout: bootstrap)
         alpha_to_unit_prediction_intervals = {}
         for alpha in prediction_intervals:                                 UnitInt       model.get_unit_prediction_intervals
             gaussian: self.alpha_to_nonreporting_lower/upper_bounds[alpha] = unadjusted bounds   (gcache)
             nonparametric: self.nonreporting_lower/upper_bounds = ...      (npLast; written, never read again)
         results_handler.add_unit_intervals (frames mutated in place)       UnitAdd
         for aggregate in aggregates (without "unit"):                      AggPred       model.get_aggregate_predictions
             for alpha in prediction_intervals:                             AggInt        model.get_aggregate_prediction_intervals
                 gaussian: reads self.alpha_to_nonreporting_*_bounds[alpha]; nonparametric: sums frame columns
             results_handler.add_agg_predictions                            AggAdd
     results_handler.process_final_results                                  Final         merges across estimands

   Every CELL (estimand, level, "pred" | alpha) records its provenance: whose prediction column, whose unadjusted
   bounds and whose calibration data went into it.  Own(cell) is the provenance the property demands; it mentions
   nothing but the cell itself, so `cells[c] = Own(c)` says exactly that the cell is independent of the rest of
   the request.

   WHY THE GAUSSIAN CACHE KEYED BY alpha ONLY IS CORRECT HERE.  cache[alpha] holds the bounds of the estimand that
   wrote it LAST.  With the estimand loop outermost, every read by (e, g, alpha) happens in the iteration of e, and
   in that iteration the unit-interval loop has already run over the SAME alpha list, so cache[alpha] was
   overwritten for e before any aggregate of e reads it; the next estimand's writes only start after the last
   aggregate of e.  The argument needs (1) the loop order and (2) one slot per alpha (before elex-model 1.0.8 there
   was one slot for all alphas: the last alpha of the unit loop won).  Both are constants here, so that TLC shows
   the stale read as soon as either is changed:
     LoopOrder    "estimand_outer" (the code) | "units_first" (unit predictions / intervals of every estimand first,
                  then the aggregate loops of every estimand - a natural "tidy-up" of the function)
     CacheSlots   "per_alpha" (the code) | "single" (pre-1.0.8)
     CacheRead    "requested" (the code reads cache[alpha]) | "first" (reads the slot of the first requested alpha)
     PredRead     "own" (aggregates sum pred_<estimand>) | "first" (sum the first estimand's column)
     UnitCategoryInMergeKeys   F5 (fixed by e068b5f): unit tables of different estimands are merged on
                  postal_code, reporting, unit_category, geographic_unit_fips; FALSE = without unit_category
     DistrictInMergeKeys       aggregate tables of different estimands are merged on every key column of the level
                  (postal_code, [district,] level, reporting); FALSE = on postal_code, reporting, level only - the
                  code as found: for district offices `district` is then a non-key overlap (finding F-C13-district)
     ReportingInMergeKeys      FALSE = merge without `reporting` (mutant) *)
EXTENDS Naturals, Sequences, FiniteSets, TLC

CONSTANTS LoopOrder, CacheSlots, CacheRead, PredRead,
          UnitCategoryInMergeKeys, DistrictInMergeKeys, ReportingInMergeKeys

VARIABLES req,        \* [estimator, district (office kind), ests, alphas, aggs]   sequences without repetition
          pc, ei, ai, gi,
          gcache,     \* gaussian: slot -> [e, a] of the writer  (NoWrite if never written)
          npLast,     \* nonparametric: [e, a] of the last unit interval (self.nonreporting_*_bounds)
          uiv,        \* alpha_to_unit_prediction_intervals: <<e, a>> -> calibration data of (e, a)
          frame,      \* value columns present in the three frames the results handler mutates in place
          unitData,   \* estimand -> columns of its unit table          (ModelResultsHandler.unit_data)
          estimates,  \* level -> sequence of column sequences           (ModelResultsHandler.estimates)
          cells,      \* cell -> provenance
          tables      \* level / "unit" -> columns of the returned table

lvars == <<req, pc, ei, ai, gi, gcache, npLast, uiv, frame, unitData, estimates, cells, tables>>

(* ---- columns ---- *)
KeyCol(n) == [t |-> "key", n |-> n, e |-> "-", a |-> "-", s |-> ""]
ValCol(n, e, a) == [t |-> "val", n |-> n, e |-> e, a |-> a, s |-> ""]
Suffix(c, s) == [c EXCEPT !.s = s]
KeyNames == {"postal_code", "district", "county_classification", "county_fips", "geographic_unit_fips",
             "reporting", "unit_category"}

RangeOf(s) == {s[i] : i \in DOMAIN s}
Has(s, x) == \E i \in DOMAIN s : s[i] = x
Without(s, x) == SelectSeq(s, LAMBDA y : y # x)
RECURSIVE Flat(_)
Flat(ss) == IF ss = <<>> THEN <<>> ELSE Head(ss) \o Flat(Tail(ss))

Ests == req.ests
Alphas == req.alphas
Groups == Without(req.aggs, "unit")      \* ModelResultsHandler.aggregates
WithUnit == Has(req.aggs, "unit")
NE == Len(Ests)
NA == Len(Alphas)
NG == Len(Groups)
E == Ests[ei]
A == Alphas[ai]
G == Groups[gi]
Boot == req.estimator = "bootstrap"

\* client.get_aggregate_list: DEFAULT_AGGREGATES[office] without "unit", plus the level, in AGGREGATE_ORDER
AggList(g) ==
  LET want == {"postal_code", g} \cup (IF req.district THEN {"district"} ELSE {})
  IN SelectSeq(<<"postal_code", "district", "county_classification", "county_fips">>, LAMBDA n : n \in want)

IntervalCols(e) == Flat([i \in 1..NA |-> <<ValCol("lower", e, Alphas[i]), ValCol("upper", e, Alphas[i])>>])
TurnoutCol == IF Boot THEN <<ValCol("pred", "turnout", "-")>> ELSE <<>>
\* ModelResultsHandler.add_unit_intervals L68-76
UnitCols(e) ==
  <<KeyCol("postal_code"), KeyCol("geographic_unit_fips"), ValCol("pred", e, "-"), KeyCol("reporting"), KeyCol("unit_category")>>
  \o IntervalCols(e) \o <<ValCol("results", e, "-")>> \o TurnoutCol
\* get_aggregate_predictions (+ add_agg_predictions L92-94)
AggCols(e, g) ==
  [i \in 1..Len(AggList(g)) |-> KeyCol(AggList(g)[i])]
  \o <<ValCol("pred", e, "-"), ValCol("results", e, "-"), KeyCol("reporting")>> \o TurnoutCol \o IntervalCols(e)

\* pandas.merge(x, y, how="inner", on=keys): key columns once, every other column name that occurs on both sides
\* gets the suffixes _x / _y, left columns first
Merge(x, y, keys) ==
  LET isKey(c) == c.t = "key" /\ c.s = "" /\ c.n \in keys
      both == {c \in RangeOf(x) \cap RangeOf(y) : ~isKey(c)}
      left == [i \in DOMAIN x |-> IF x[i] \in both THEN Suffix(x[i], "x") ELSE x[i]]
      rest == SelectSeq(y, LAMBDA c : ~isKey(c))
      right == [i \in DOMAIN rest |-> IF rest[i] \in both THEN Suffix(rest[i], "y") ELSE rest[i]]
  IN left \o right
RECURSIVE Reduce(_, _)
Reduce(frames, keys) ==
  IF Len(frames) = 1 THEN frames[1]
  ELSE Reduce(<<Merge(frames[1], frames[2], keys)>> \o SubSeq(frames, 3, Len(frames)), keys)

\* ModelResultsHandler.process_final_results L96-107
AggMergeKeys(g) == {"postal_code", g} \cup (IF ReportingInMergeKeys THEN {"reporting"} ELSE {})
                   \cup (IF DistrictInMergeKeys /\ req.district THEN {"district"} ELSE {})
UnitMergeKeys == {"postal_code", "geographic_unit_fips"} \cup (IF ReportingInMergeKeys THEN {"reporting"} ELSE {})
                 \cup (IF UnitCategoryInMergeKeys THEN {"unit_category"} ELSE {})

(* ---- cells and provenance ---- *)
None2 == <<"-", "-">>
Cell(e, l, k) == [e |-> e, l |-> l, k |-> k]
Prov(pred, bnd, conf) == [pred |-> pred, bnd |-> bnd, conf |-> conf]
Own(c) == IF c.k = "pred" THEN Prov(c.e, None2, None2) ELSE Prov("-", <<c.e, c.k>>, <<c.e, c.k>>)
Put(c, p) == cells' = [x \in DOMAIN cells \cup {c} |-> IF x = c THEN p ELSE cells[x]]

NoWrite == [e |-> "-", a |-> "-"]
Slot(a) == IF CacheSlots = "per_alpha" THEN a ELSE "one"
ReadSlot(a) == IF CacheRead = "requested" THEN Slot(a) ELSE Slot(Alphas[1])
SlotNames == {"0.5", "0.7", "0.9", "0.909", "0.904", "0.7999999999999999", "one"}

\* state at the top of the loop nest for request r (unprimed for Init, primed to start the next request)
GroupsOf(r) == {r.aggs[i] : i \in DOMAIN r.aggs} \ {"unit"}
LInitRest ==
  /\ pc = "upred" /\ ei = 1 /\ ai = 1 /\ gi = 1
  /\ gcache = [s \in SlotNames |-> NoWrite]
  /\ npLast = NoWrite
  /\ uiv = <<>>
  /\ frame = {}
  /\ unitData = <<>>
  /\ estimates = [g \in GroupsOf(req) |-> <<>>]
  /\ cells = <<>>
  /\ tables = <<>>
LStart(r) ==
  /\ req' = r
  /\ pc' = "upred" /\ ei' = 1 /\ ai' = 1 /\ gi' = 1
  /\ gcache' = [s \in SlotNames |-> NoWrite]
  /\ npLast' = NoWrite
  /\ uiv' = <<>>
  /\ frame' = {}
  /\ unitData' = <<>>
  /\ estimates' = [g \in GroupsOf(r) |-> <<>>]
  /\ cells' = <<>>
  /\ tables' = <<>>

(* ---- the loop nest ---- *)
\* which call comes next (the trace specification compares it with the recorded call)
Cur == [op |-> pc,
        e |-> IF pc \in {"upred", "uint", "uadd", "apred", "aint", "aadd"} THEN E ELSE "-",
        a |-> IF pc \in {"uint", "aint"} THEN A ELSE "-",
        g |-> IF pc \in {"apred", "aint", "aadd"} THEN G ELSE "-"]

UnitPred ==
  /\ pc = "upred"
  /\ frame' = frame \cup {ValCol("pred", E, "-")} \cup RangeOf(TurnoutCol)
  /\ Put(Cell(E, "unit", "pred"), Prov(E, None2, None2))
  /\ pc' = "uint" /\ ai' = 1
  /\ UNCHANGED <<req, ei, gi, gcache, npLast, uiv, unitData, estimates, tables>>

UnitInt ==
  /\ pc = "uint"
  /\ gcache' = IF req.estimator = "gaussian" THEN [gcache EXCEPT ![Slot(A)] = [e |-> E, a |-> A]] ELSE gcache
  /\ npLast' = IF req.estimator = "nonparametric" THEN [e |-> E, a |-> A] ELSE npLast
  /\ uiv' = [x \in DOMAIN uiv \cup {<<E, A>>} |-> IF x = <<E, A>> THEN <<E, A>> ELSE uiv[x]]
  /\ Put(Cell(E, "unit", A), Prov("-", <<E, A>>, <<E, A>>))
  /\ IF ai < NA THEN ai' = ai + 1 /\ pc' = pc ELSE ai' = 1 /\ pc' = "uadd"
  /\ UNCHANGED <<req, ei, gi, frame, unitData, estimates, tables>>

NextEstimandOrFinal(start) ==
  IF ei < NE THEN ei' = ei + 1 /\ pc' = start ELSE ei' = ei /\ pc' = "final"

UnitAdd ==
  /\ pc = "uadd"
  /\ frame' = frame \cup RangeOf(IntervalCols(E))
  /\ unitData' = [x \in DOMAIN unitData \cup {E} |-> IF x = E THEN UnitCols(E) ELSE unitData[x]]
  /\ gi' = 1
  /\ IF LoopOrder = "estimand_outer"
     THEN IF NG > 0 THEN pc' = "apred" /\ ei' = ei ELSE NextEstimandOrFinal("upred")
     ELSE IF ei < NE THEN ei' = ei + 1 /\ pc' = "upred"
          ELSE IF NG > 0 THEN ei' = 1 /\ pc' = "apred" ELSE ei' = ei /\ pc' = "final"
  /\ UNCHANGED <<req, ai, gcache, npLast, uiv, estimates, cells, tables>>

PredColumn == ValCol("pred", IF PredRead = "own" THEN E ELSE Ests[1], "-")
AggPred ==
  /\ pc = "apred"
  /\ Put(Cell(E, G, "pred"), Prov(IF PredColumn \in frame THEN PredColumn.e ELSE "missing", None2, None2))
  /\ pc' = "aint" /\ ai' = 1
  /\ UNCHANGED <<req, ei, gi, gcache, npLast, uiv, frame, unitData, estimates, tables>>

\* whose unadjusted bounds an aggregate interval is built from
BoundsRead ==
  CASE req.estimator = "gaussian" -> <<gcache[ReadSlot(A)].e, gcache[ReadSlot(A)].a>>                \* GaussianElectionModel L157-160
    [] req.estimator = "nonparametric" ->                                                            \* NonparametricElectionModel L160-170
         IF {ValCol("lower", E, A), ValCol("upper", E, A)} \subseteq frame THEN <<E, A>> ELSE <<"missing", A>>
    [] OTHER -> <<E, A>>                                                                              \* bootstrap: matrices of the one run
AggInt ==
  /\ pc = "aint"
  /\ Put(Cell(E, G, A), Prov("-", BoundsRead, IF <<E, A>> \in DOMAIN uiv THEN uiv[<<E, A>>] ELSE <<"missing", A>>))
  /\ IF ai < NA THEN ai' = ai + 1 /\ pc' = pc ELSE ai' = 1 /\ pc' = "aadd"
  /\ UNCHANGED <<req, ei, gi, gcache, npLast, uiv, frame, unitData, estimates, tables>>

AggAdd ==
  /\ pc = "aadd"
  /\ estimates' = [estimates EXCEPT ![G] = Append(@, AggCols(E, G))]
  /\ IF gi < NG THEN gi' = gi + 1 /\ pc' = "apred" /\ ei' = ei
     ELSE gi' = 1 /\ NextEstimandOrFinal(IF LoopOrder = "estimand_outer" THEN "upred" ELSE "apred")
  /\ UNCHANGED <<req, ai, gcache, npLast, uiv, frame, unitData, cells, tables>>

Final ==
  /\ pc = "final"
  /\ tables' = [l \in RangeOf(Groups) \cup (IF WithUnit THEN {"unit"} ELSE {}) |->
                  IF l = "unit" THEN Reduce([i \in 1..NE |-> unitData[Ests[i]]], UnitMergeKeys)
                  ELSE Reduce(estimates[l], AggMergeKeys(l))]
  /\ pc' = "done"
  /\ UNCHANGED <<req, ei, ai, gi, gcache, npLast, uiv, frame, unitData, estimates, cells>>

LNext == UnitPred \/ UnitInt \/ UnitAdd \/ AggPred \/ AggInt \/ AggAdd \/ Final
Done == pc = "done"

(* ---- properties ---- *)
IsAggInterval(c) == c.l # "unit" /\ c.k # "pred"

\* a gaussian aggregate interval for (e, a) is built from the cache entry written for (e, a)
ReadsOwn ==
  req.estimator = "gaussian" => \A c \in DOMAIN cells : IsAggInterval(c) => cells[c].bnd = <<c.e, c.k>>

\* a group sum for estimand e reads only columns of e, and they exist when they are read
NoStaleColumn ==
  \A c \in DOMAIN cells :
    /\ c.k = "pred" => cells[c].pred = c.e
    /\ (req.estimator = "nonparametric" /\ IsAggInterval(c)) => cells[c].bnd = <<c.e, c.k>>

\* the provenance of a cell is a function of the cell alone; everything requested is reported, exactly once
Requested ==
  {Cell(Ests[i], l, k) : i \in 1..NE, l \in RangeOf(Groups) \cup {"unit"}, k \in {"pred"} \cup RangeOf(Alphas)}
ValueColsOf(c) == IF c.k = "pred" THEN {ValCol("pred", c.e, "-")} ELSE {ValCol("lower", c.e, c.k), ValCol("upper", c.e, c.k)}
Count(s, x) == Cardinality({i \in DOMAIN s : s[i] = x})
CellFunctional ==
  /\ \A c \in DOMAIN cells : cells[c] = Own(c)
  /\ Done => /\ DOMAIN cells = Requested
             /\ \A c \in Requested : c.l \in DOMAIN tables => \A v \in ValueColsOf(c) : Count(tables[c.l], v) = 1

\* key / category columns of every table: the same whatever the number of estimands, nothing suffixed
ExpectedKeys(l) ==
  IF l = "unit" THEN {"postal_code", "geographic_unit_fips", "reporting", "unit_category"}
  ELSE RangeOf(AggList(l)) \cup {"reporting"}
KeyPart(cols) == {c \in RangeOf(cols) : c.t = "key"}
StableKeysOf(l, cols) ==
  /\ KeyPart(cols) = {KeyCol(n) : n \in ExpectedKeys(l)}
  /\ \A c \in RangeOf(cols) : c.s = ""
StableKeys == Done => \A l \in DOMAIN tables : StableKeysOf(l, tables[l])
=============================================================================
