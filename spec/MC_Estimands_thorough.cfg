SPECIFICATION Spec
CONSTANTS
  NONE <- None
  F17 = FALSE
  U = {"turnout", "dem", "gop", "margin", "party_vote_share_dem"}
  MaxLen = 2
  FullPtrs = TRUE
  NVals = 4
  RSets = "all"
INVARIANT StepwiseIsFunctional
INVARIANT NoSilentOverwrite
INVARIANT LastElectionIsBaselinePlusOne
INVARIANT BaselineWeightsRule
INVARIANT Idempotent
INVARIANT NormalizedMarginInRange
INVARIANT ReturnedColumnsExist
INVARIANT TurnoutReturnedOnce
INVARIANT OrderIndependentLive
CHECK_DEADLOCK FALSE
