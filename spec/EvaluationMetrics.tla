-------------------------- MODULE EvaluationMetrics --------------------------
(***************************************************************************)
(* Supplementary model (no listed property): the evaluation of a           *)
(* historical run, HistoricalModelClient.compute_evaluation with            *)
(* math_utils.compute_error / compute_frac_within_pi /                      *)
(* compute_mean_pi_length.                                                  *)
(*                                                                         *)
(* Rows carry a group, the true result, the prediction and one interval.   *)
(* For every group (and for the single group "all") the code reports       *)
(*   mae  = mean |true - pred|                                             *)
(*   mape = mean over rows with true # 0 of |true - pred| / true            *)
(*          (not a number when every true value of the group is 0)          *)
(*   frac_within_pi = share of rows with lower <= true <= upper             *)
(*   mean_pi_length = mean of |(upper - lower) / true| (math_utils names   *)
(*          its third parameter `pred`, the client passes the TRUE result)  *)
(*          with x / 0 taken as 0                                            *)
(*          when upper = lower, and as "infinite" otherwise (nan_to_num     *)
(*          maps +inf to a huge finite number - recorded as kind "huge")    *)
(* All means are exact rationals <<num, den>>.                              *)
(***************************************************************************)
EXTENDS Integers, Sequences, FiniteSets, FiniteSetsExt, SequencesExt, TLC

VARIABLES rows, epc, report
evars == <<rows, epc, report>>

Abs(x) == IF x < 0 THEN -x ELSE x
SumI(S, f(_)) == FoldSet(LAMBDA i, acc : acc + f(i), 0, S)
Idx == DOMAIN rows
GroupsOf == {rows[i].g : i \in Idx}
Members(g) == IF g = "all" THEN Idx ELSE {i \in Idx : rows[i].g = g}

\* sum of fractions a_i / b_i over S as one rational with the common denominator prod b_i (b_i > 0, small)
SumFrac(S, num(_), den(_)) ==
  LET sq == SetToSeq(S)
      prs == [k \in 1..Len(sq) |-> <<num(sq[k]), den(sq[k])>>]
  IN  FoldLeft(LAMBDA acc, pr : <<acc[1] * pr[2] + pr[1] * acc[2], acc[2] * pr[2]>>, <<0, 1>>, prs)

Mae(g)  == <<SumI(Members(g), LAMBDA i : Abs(rows[i].t - rows[i].p)), Cardinality(Members(g))>>
NonZero(g) == {i \in Members(g) : rows[i].t # 0}
Mape(g) == IF NonZero(g) = {} THEN [kind |-> "nan"]
           ELSE LET s == SumFrac(NonZero(g), LAMBDA i : Abs(rows[i].t - rows[i].p), LAMBDA i : Abs(rows[i].t))
                IN  [kind |-> "value", v |-> <<s[1], s[2] * Cardinality(NonZero(g))>>]
Within(g) == <<Cardinality({i \in Members(g) : rows[i].lo <= rows[i].t /\ rows[i].t <= rows[i].hi}), Cardinality(Members(g))>>
\* mean relative length (relative to the true result): rows with a zero denominator and a non-degenerate interval make
\* the mean "huge"
Degenerate0(i) == rows[i].t = 0
Length(g) ==
  IF \E i \in Members(g) : Degenerate0(i) /\ rows[i].hi # rows[i].lo THEN [kind |-> "huge"]
  ELSE LET S == {i \in Members(g) : ~Degenerate0(i)}
           s == SumFrac(S, LAMBDA i : Abs(rows[i].hi - rows[i].lo), LAMBDA i : Abs(rows[i].t))
       IN  [kind |-> "value", v |-> <<s[1], s[2] * Cardinality(Members(g))>>]

Evaluate ==
  /\ epc = "evaluate"
  /\ report' = [g \in GroupsOf \cup {"all"} |-> [mae |-> Mae(g), mape |-> Mape(g), within |-> Within(g), length |-> Length(g)]]
  /\ epc' = "done"
  /\ UNCHANGED rows
EInitRest == epc = "evaluate" /\ report = <<>>

EDone == epc = "done"
\* sanity properties of the metrics
WithinIsAShare == EDone => \A g \in DOMAIN report : 0 <= report[g].within[1] /\ report[g].within[1] <= report[g].within[2]
MaeNonNegative == EDone => \A g \in DOMAIN report : report[g].mae[1] >= 0
AllIsUnionOfGroups ==
  EDone => /\ report["all"].within[1] = SumI(GroupsOf, LAMBDA g : report[g].within[1])
           /\ report["all"].mae[1] = SumI(GroupsOf, LAMBDA g : report[g].mae[1])
PerfectPredictionZeroError ==
  EDone => \A g \in DOMAIN report : (\A i \in Members(g) : rows[i].p = rows[i].t) => report[g].mae[1] = 0
=============================================================================
