SPECIFICATION Spec
CONSTANTS
  CSet = {"AA", "BB"}
  KeepContestLevel = TRUE
  RestrictToWinners = TRUE
  PVals <- PV
  DVals <- DV
  Bases = {10}
  Histories <- H_Top
  Modes = {TRUE, FALSE}
  SizeOffsets <- SO_None
  Export = FALSE
INVARIANT Ordered
INVARIANT Bounded
INVARIANT PredIsWinners
INVARIANT CalledCertain
INVARIANT HistoryIndependent
INVARIANT SizeChecked
CHECK_DEADLOCK FALSE
