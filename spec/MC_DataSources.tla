--------------------------- MODULE MC_DataSources ---------------------------
EXTENDS DataSources
CONSTANTS MaxOps
VARIABLES ops     \* number of environment steps taken (bound only)
StateSets == {{"AA"}, {"AA", "BB"}}
Reqs == [cfgArg : {"none", "empty", "own"}, dataArg : {NoneV, Dat(9, States, FALSE)}, saveCfg : BOOLEAN, saveData : BOOLEAN]
NextVer(x) == IF x = NoneV THEN 1 ELSE x.ver + 1
Env ==
  /\ ops < MaxOps /\ ops' = ops + 1
  /\ \/ \E ss \in StateSets : NextVer(s3cfg) <= MaxVer /\ PublishConfig(NextVer(s3cfg), ss)
     \/ \E ss \in StateSets : NextVer(s3data) <= MaxVer /\ PublishData(NextVer(s3data), ss)
     \/ CleanWorkdir
     \/ \E ss \in StateSets : caller # Cfg(7, ss, 0) /\ CallerRebuilds(7, ss)
Run == (\E r \in Reqs : Begin(r)) \/ RunStep
Next == (Env \/ (Run /\ UNCHANGED ops))
Init == DInit /\ ops = 0
Spec == Init /\ [][Next]_<<dvars, ops>>
=============================================================================
