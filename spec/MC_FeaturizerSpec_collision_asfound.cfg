SPECIFICATION Spec
CONSTANTS
  Matching = "startswith"
  MinRows = 2
  MaxRows = 3
  MaxOutside = 0
  L1 = {"a", "k", "z"}
  L2 = {"p", "q"}
  FESeqs <- FE_1
  FeatSeqs <- FT_x
  SepSeqs <- SEP_none
  StateSet = {"S1"}
  CenterSet = {FALSE}
  NoInterceptToo = FALSE
  Callers = {"pred"}
  SelMode = "all"
  WithNA = FALSE
  NAInExpected = FALSE
  ExtraSet <- EX_f1zz
  Export = FALSE
  SampleMod = 1
INVARIANT OneAbsorbed
CHECK_DEADLOCK FALSE
