SPECIFICATION Spec
CONSTANTS
  NUnits = 2
  Policies = {"drop", "zero"}
  Limits = {1}
  Thresholds = {90}
  Margins = {FALSE, TRUE}
  FeedT = {0, 2, 4, 8, 9}
  BaseT = {0, 4}
  Pevs = {89, 90}
  Export = FALSE
INVARIANT EveryUnitOnce
INVARIANT Eligibility
INVARIANT NumEligibility
INVARIANT ReportingIsModelled
CHECK_DEADLOCK FALSE
