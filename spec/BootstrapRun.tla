---------------------------- MODULE BootstrapRun ----------------------------
(* Supplementary specification S09: one model object of the bootstrap estimator, from the first
   `get_unit_predictions` call to the state it leaves behind for the aggregate / interval / summary calls.

   Mirrors `BootstrapElectionModel.get_unit_predictions` and `compute_bootstrap_errors` statement group by statement
   group (one action each), with the draws from the model's own generator as an explicit, ordered stream:

     Call -> Enter -> Bounds -> Lambda (two shuffles unless lambda_ is given) -> Errors -> Strata -> Dist
          -> BootEps (two multivariate normals over the contest COLUMNS) -> Pit -> BootDelta (one choice)
          -> TestPred (z clipped at creation, y raw) -> [Extrap] -> [Pres] -> ClipY -> Product
          -> SampleEps (nothing drawn when exactly one contest has an effect) -> SampleDelta (one uniform)
          -> Store (four error matrices, two predictions, ran_bootstrap)

   What is abstract: numbers.  What is kept: which steps run in which order, what is drawn with which shape, at
   which stage the two clips happen relative to the blending / correction steps and the product, what a second call
   on the same object does.  The contest columns follow the code: states (and, for a district election, the districts
   of states with more than one district that have more than ten units) over ALL units handed to the model -
   reporting, outstanding and unexpected ones (named deviation `ColumnsCountUnexpected`, the root of finding F12). *)
EXTENDS Naturals, Sequences, FiniteSets, TLC

CONSTANT DistrictMin   \* a district gets its own column when it has MORE than this many units (10 in the code)

VARIABLES rq,       \* the request: sizes, contest of every unit, flags (chosen in Init / read from a trace)
          pc,       \* program counter
          events,   \* ordered steps and draws: [ev |-> "step"|"draw", m |-> name, shape |-> <<..>>]
          yStage,   \* what has happened to the bootstrapped margins of the outstanding units so far
          zStage,
          prod,     \* stages of y and z when their product was formed ("none" / "none" before)
          stored,   \* fields on the model object: name -> shape
          ran,      \* ran_bootstrap
          calls     \* number of get_unit_predictions calls made on this object

bvars == <<rq, pc, events, yStage, zStage, prod, stored, ran, calls>>

(* ---- derived from the request ------------------------------------------------------------------------- *)
SeqSet(s) == {s[i] : i \in DOMAIN s}
AllUnits(r) == r.train \o r.test \o r.unexp
CountIn(s, P(_)) == Cardinality({i \in DOMAIN s : P(s[i])})
StatesOf(s) == {s[i][1] : i \in DOMAIN s}
PairsOf(s) == SeqSet(s)
\* the unit frames the column count is taken over: the code concatenates all three frames (ColumnsCountUnexpected);
\* the demonstration switch counts the expected units only
ColumnUnits(r, withUnexpected) == IF withUnexpected THEN AllUnits(r) ELSE r.train \o r.test
MultiDistrictStates(s) == {st \in StatesOf(s) : Cardinality({p \in PairsOf(s) : p[1] = st}) > 1}
DistrictColumns(s) == {p \in PairsOf(s) : p[1] \in MultiDistrictStates(s) /\ CountIn(s, LAMBDA u : u = p) > DistrictMin}
Columns(r, wx) ==
  LET s == ColumnUnits(r, wx) IN
  IF r.district THEN {<<st, "">> : st \in StatesOf(s)} \cup DistrictColumns(s)
  ELSE {<<st, "">> : st \in StatesOf(s)}
NC(r, wx) == Cardinality(Columns(r, wx))
NContests(r) == IF r.district THEN Cardinality(PairsOf(AllUnits(r))) ELSE Cardinality(StatesOf(AllUnits(r)))
InColumn(u, c) == IF c[2] = "" THEN u[1] = c[1] ELSE u = c
TrainCount(r, c) == CountIn(r.train, LAMBDA u : InColumn(u, c))
EffectColumns(r) == {c \in Columns(r, TRUE) : TrainCount(r, c) >= 2}
NTrain(r) == Len(r.train)
NTest(r) == Len(r.test)

Step(m) == [ev |-> "step", m |-> m, shape |-> <<>>]
Draw(m, sh) == [ev |-> "draw", m |-> m, shape |-> sh]
Draws(es) == SelectSeq(es, LAMBDA e : e.ev = "draw")
Steps(es) == SelectSeq(es, LAMBDA e : e.ev = "step")

(* The stream as a closed form of the sizes alone (what `StreamIsFunctionOfSizes` compares the actions with). *)
StreamOf(nTrain, nTest, nc, B, lambdaGiven, singleEffect) ==
  (IF lambdaGiven THEN <<>> ELSE <<Draw("shuffle", <<nTrain>>), Draw("shuffle", <<nTrain>>)>>)
  \o <<Draw("mvn", <<nc, B>>), Draw("mvn", <<nc, B>>), Draw("choice", <<nTrain, nTrain, B>>)>>
  \o (IF singleEffect THEN <<>> ELSE <<Draw("mvn", <<2 * nc, B>>)>>)
  \o <<Draw("uniform", <<nTest, B, 2>>)>>

(* ---- actions ------------------------------------------------------------------------------------------- *)
InitRest ==
  /\ pc = "idle" /\ events = <<>> /\ yStage = "none" /\ zStage = "none" /\ prod = [y |-> "none", z |-> "none"]
  /\ stored = <<>> /\ ran = FALSE /\ calls = 0

Go(next) == pc' = next
Emit(es) == events' = events \o es
Same(vs) == UNCHANGED vs

\* get_unit_predictions: runs the pipeline only if it has not run on this object
Call(maxCalls) ==
  /\ pc = "idle" /\ calls < maxCalls /\ calls' = calls + 1
  /\ IF ran THEN Go("idle") /\ Same(<<events>>) ELSE Go("bounds") /\ Emit(<<Step("run")>>)
  /\ Same(<<rq, yStage, zStage, prod, stored, ran>>)

Bounds ==
  /\ pc = "bounds" /\ Go("lambda") /\ Emit(<<Step("bounds"), Step("bounds")>>)
  /\ Same(<<rq, yStage, zStage, prod, stored, ran, calls>>)

Lambda ==
  /\ pc = "lambda" /\ Go("errors")
  /\ Emit(IF rq.lambdaGiven THEN <<>>
          ELSE <<Step("cv"), Draw("shuffle", <<NTrain(rq)>>), Step("cv"), Draw("shuffle", <<NTrain(rq)>>)>>)
  /\ Same(<<rq, yStage, zStage, prod, stored, ran, calls>>)

Errors ==
  /\ pc = "errors" /\ Go("strata") /\ Emit(<<Step("errors"), Step("errors")>>)
  /\ Same(<<rq, yStage, zStage, prod, stored, ran, calls>>)

Strata ==
  /\ pc = "strata" /\ Go("boot") /\ Emit(<<Step("strata"), Step("dist"), Step("dist")>>)
  /\ Same(<<rq, yStage, zStage, prod, stored, ran, calls>>)

Boot ==
  /\ pc = "boot" /\ Go("testpred")
  /\ LET nc == NC(rq, TRUE) IN
     Emit(<<Step("boot"), Step("boot_eps"), Draw("mvn", <<nc, rq.B>>), Draw("mvn", <<nc, rq.B>>),
            Step("pit"), Step("pit"), Step("boot_delta"), Draw("choice", <<NTrain(rq), NTrain(rq), rq.B>>)>>)
  /\ Same(<<rq, yStage, zStage, prod, stored, ran, calls>>)

\* the bootstrapped turnout factor is clipped where it is created, the margin is not
\* (design switch `rq.clipFirst`, demonstration only: the margin clipped here instead of after the blending / correction)
TestPred ==
  /\ pc = "testpred" /\ Go("extrap") /\ yStage' = (IF rq.clipFirst THEN "clipped" ELSE "raw") /\ zStage' = "clipped"
  /\ Same(<<rq, events, prod, stored, ran, calls>>)

Extrap ==
  /\ pc = "extrap" /\ Go("pres")
  /\ IF rq.versioned THEN yStage' = "blended" /\ Emit(<<Step("extrap")>>) ELSE Same(<<yStage, events>>)
  /\ Same(<<rq, zStage, prod, stored, ran, calls>>)

Pres ==
  /\ pc = "pres" /\ Go("clip")
  /\ yStage' = IF rq.pres THEN "corrected" ELSE yStage
  /\ Same(<<rq, events, zStage, prod, stored, ran, calls>>)

ClipY ==
  /\ pc = "clip" /\ Go("product") /\ yStage' = (IF rq.clipFirst THEN yStage ELSE "clipped")
  /\ Same(<<rq, events, zStage, prod, stored, ran, calls>>)

Product ==
  /\ pc = "product" /\ Go("sample") /\ prod' = [y |-> yStage, z |-> zStage]
  /\ Same(<<rq, events, yStage, zStage, stored, ran, calls>>)

Sample ==
  /\ pc = "sample" /\ Go("store")
  /\ Emit(<<Step("sample"), Step("sample_eps")>>
          \o (IF rq.epsNonzero = 1 THEN <<>> ELSE <<Draw("mvn", <<2 * NC(rq, TRUE), rq.B>>)>>)
          \o <<Step("sample_delta"), Draw("uniform", <<NTest(rq), rq.B, 2>>)>>)
  /\ Same(<<rq, yStage, zStage, prod, stored, ran, calls>>)

Matrix == <<NTest(rq), rq.B>>
Column == <<NTest(rq), 1>>
Store ==
  /\ pc = "store" /\ Go("idle") /\ ran' = TRUE
  /\ stored' = [f \in {"errors_B_1", "errors_B_2", "errors_B_3", "errors_B_4", "weighted_yz_test_pred", "weighted_z_test_pred"}
                  |-> IF f \in {"weighted_yz_test_pred", "weighted_z_test_pred"} THEN Column ELSE Matrix]
  /\ Same(<<rq, events, yStage, zStage, prod, calls>>)

Pipeline == Bounds \/ Lambda \/ Errors \/ Strata \/ Boot \/ TestPred \/ Extrap \/ Pres \/ ClipY \/ Product \/ Sample \/ Store
Done(maxCalls) == pc = "idle" /\ calls = maxCalls

(* ---- properties of the design -------------------------------------------------------------------------- *)
\* both factors of every product that is stored were clipped to the unit's admissible range last
ClipLast == prod.y # "none" => prod.y = "clipped" /\ prod.z = "clipped"
\* the pipeline runs at most once per model object, whatever is asked afterwards
RunOnce == Len(SelectSeq(events, LAMBDA e : e.ev = "step" /\ e.m = "run")) <= 1
\* the stream of draws is a function of (training units, outstanding units, contest columns, B, lambda given,
\* exactly one contest effect) and of nothing else
StreamIsFunctionOfSizes ==
  ran => Draws(events) = StreamOf(NTrain(rq), NTest(rq), NC(rq, TRUE), rq.B, rq.lambdaGiven, rq.epsNonzero = 1)
\* demonstration (finding F12): the stream would be independent of unexpected units if the columns were counted over
\* the expected units only - it is not
StreamIgnoresUnexpected ==
  ran => Draws(events) = StreamOf(NTrain(rq), NTest(rq), NC(rq, FALSE), rq.B, rq.lambdaGiven, rq.epsNonzero = 1)
StoredShapes == ran => \A f \in DOMAIN stored : stored[f][1] = NTest(rq)
=============================================================================
