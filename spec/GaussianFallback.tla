-------------------------- MODULE GaussianFallback --------------------------
(***************************************************************************)
(* Which calibration statistics an aggregate group receives under the      *)
(* gaussian estimator (property C15).                                      *)
(*                                                                         *)
(* Transcribes, one action per code step,                                  *)
(*   GaussianModel._get_n_units_per_group   (operator Counts)              *)
(*   GaussianModel.fit (recursive)          (Enter / AfterSmall /          *)
(*                                           AfterLarge on an explicit     *)
(*                                           call stack)                   *)
(*   GaussianModel._fit                     (operator FitGroups)           *)
(*   GaussianElectionModel.get_aggregate_prediction_intervals:             *)
(*     inner merge on the full key          (MergeFull)                    *)
(*     the matching loop, finest level up   (LoopStep, i = 1..L)           *)
(*     last_election.merge(...) + the positional floor  (Final)            *)
(*                                                                         *)
(* Abstract data.  A calibration (conformalization) unit and an            *)
(* outstanding (nonreporting) unit are only known by the *leaf* they live  *)
(* in: a leaf is a full key <<state, sub>> (or <<state, district, county>> *)
(* for the three-column lists of district offices).  The scenario gives    *)
(* per leaf the number of calibration units `cal` and whether it has       *)
(* outstanding units `out`.  The requested aggregate list is the first L   *)
(* key columns.  A missing key part (NaN) is 0; real key parts are >= 1.   *)
(* A *pool* is the set of leaves whose calibration units a statistic is    *)
(* computed from (every pool the code can form is a union of leaves).      *)
(*                                                                         *)
(* What is outside TLA+ (DESIGN 6): the weighted median, the bootstrapped  *)
(* sigma, the normal quantile and the square root.  The specification      *)
(* decides WHICH pool serves a group; harness/gaussian.py checks the       *)
(* closed-form bound from that pool's logged statistics.                   *)
(***************************************************************************)
EXTENDS Integers, Sequences, FiniteSets, FiniteSetsExt, SequencesExt, TLC

VARIABLES sc,       \* scenario: [L |-> number of key columns requested, leaves |-> Seq([key, cal, out])]
          pc,       \* "fit" | "merge" | "loop" | "final" | "done" | "error"
          stack,    \* call stack of GaussianModel.fit frames
          ret,      \* value returned by the call that finished last: Seq([key, pool])
          calls,    \* log of fit calls in call order: Seq([lvl, n, T, counts])
          models,   \* gaussian_model as returned by the top-level fit: Seq([key, pool])
          modeled,  \* modeled_bounds: Seq([key, mkey, pool]) in row order
          loopi,    \* loop variable i of the matching loop
          final     \* rows of last_election.merge(modeled_bounds, inner) in row order

\* "code": the comparison as written in the repository.  "le": a deliberately wrong design (<= instead of <) used only by
\* the demonstration config MC_GaussianFallback_demo.cfg to show that the invariants are able to fail.
CONSTANT Variant

vars == <<sc, pc, stack, ret, calls, models, modeled, loopi, final>>

NULL == 0

Leaves    == {sc.leaves[i] : i \in DOMAIN sc.leaves}
L         == sc.L
CalLeaves == {l.key : l \in {x \in Leaves : x.cal > 0}}
OutLeaves == {l.key : l \in {x \in Leaves : x.out}}
CalOf(k)  == (CHOOSE l \in Leaves : l.key = k).cal
NCal(S)   == FoldSet(LAMBDA k, acc : acc + CalOf(k), 0, S)       \* calibration units in a set of leaves
NCalAll   == NCal(CalLeaves)

Pre(k, key) == SubSeq(key, 1, k)                                  \* first k key columns
Pad(p)      == p \o [j \in 1..(L - Len(p)) |-> NULL]               \* pd.concat fills the missing key columns with NaN
Min2(a, b)  == IF a < b THEN a ELSE b

\* order of key tuples as pandas sorts them (groupby / sort_values): lexicographic
RECURSIVE KeyLessAt(_, _, _)
KeyLessAt(a, b, j) ==
  IF j > Len(a) \/ j > Len(b) THEN FALSE
  ELSE IF a[j] = b[j] THEN KeyLessAt(a, b, j + 1)
  ELSE a[j] < b[j]
SortKeys(S) == SetToSortSeq(S, LAMBDA a, b : KeyLessAt(a, b, 1))

Groups(k, S) == {Pre(k, key) : key \in S}                          \* df.groupby(first k columns) of rows living in leaves S
Under(p, S)  == {key \in S : Pre(Len(p), key) = p}

---------------------------------------------------------------------------
(* GaussianModel *)

\* MODEL_THRESHOLD = min(10, n_conformalization_data)
Threshold(n) == Min2(10, n)
Small(c, T)  == IF Variant = "le" THEN c <= T ELSE c < T

\* _get_n_units_per_group: groups of the nonreporting units outer-joined with the calibration counts, NA -> 0
\* (for the empty aggregate list: the single pseudo group <<>> holding everything)
Counts(k, cset, nset) ==
  [g \in Groups(k, nset) \cup Groups(k, cset) |-> NCal(Under(g, cset))]

\* _fit: one row per group of the calibration data, in groupby order; the statistics come from exactly that group
FitGroups(k, cset) ==
  LET gs == SortKeys(Groups(k, cset))
  IN  [j \in 1..Len(gs) |-> [key |-> Pad(gs[j]), pool |-> Under(gs[j], cset)]]

Frame(kind, lvl, cset, nset) ==
  [kind |-> kind, lvl |-> lvl, cset |-> cset, nset |-> nset, phase |-> "enter", T |-> 0, counts |-> <<>>, small |-> <<>>]

Top == stack[Len(stack)]
Pop == SubSeq(stack, 1, Len(stack) - 1)
SetTop(f) == [stack EXCEPT ![Len(stack)] = f]

CountsLog(cn) == {[key |-> g, n |-> cn[g]] : g \in DOMAIN cn}

\* entry of fit(...): empty data -> empty model; some group below the threshold -> recurse one level up first;
\* otherwise fit every group
Enter ==
  /\ pc = "fit" /\ Len(stack) > 0 /\ Top.phase = "enter"
  /\ LET f  == Top
         n  == NCal(f.cset)
         cn == Counts(f.lvl, f.cset, f.nset)
         T  == Threshold(n)
     IN  IF n = 0
         THEN /\ ret' = <<>>                                    \* _empty_gaussian_model: no rows
              /\ stack' = Pop
              /\ calls' = Append(calls, [lvl |-> f.lvl, n |-> 0, T |-> 0, counts |-> {}])
         ELSE /\ calls' = Append(calls, [lvl |-> f.lvl, n |-> n, T |-> T, counts |-> CountsLog(cn)])
              /\ IF f.lvl > 0 /\ \E g \in DOMAIN cn : Small(cn[g], T)  \* np.min(counts["n"]) < MODEL_THRESHOLD
                 THEN \* aggregate[:-1]; with the empty list the comparison is n < min(10, n), never true
                      /\ stack' = Append(SetTop([f EXCEPT !.phase = "small", !.T = T, !.counts = cn]),
                                         Frame("small", f.lvl - 1, f.cset, f.nset))
                      /\ ret' = ret
                 ELSE /\ ret' = FitGroups(f.lvl, f.cset)
                      /\ stack' = Pop
  /\ UNCHANGED <<sc, pc, models, modeled, loopi, final>>

\* the recursive call for the small groups has returned: select the large groups and fit them at this level
AfterSmall ==
  /\ pc = "fit" /\ Len(stack) > 0 /\ Top.phase = "small"
  /\ LET f     == Top
         large == {g \in DOMAIN f.counts : ~Small(f.counts[g], f.T)}        \* counts.query("n >= @MODEL_THRESHOLD")
         cset2 == {c \in f.cset : Pre(f.lvl, c) \in large}                \* .merge(conformalization_data, inner)
         nset2 == {c \in f.nset : Pre(f.lvl, c) \in Groups(f.lvl, cset2)} \* semi_join(nonreporting, conf_large)
     IN  stack' = Append(SetTop([f EXCEPT !.phase = "large", !.small = ret]), Frame("large", f.lvl, cset2, nset2))
  /\ UNCHANGED <<sc, pc, ret, calls, models, modeled, loopi, final>>

\* pd.concat([small, large])
AfterLarge ==
  /\ pc = "fit" /\ Len(stack) > 0 /\ Top.phase = "large"
  /\ ret' = Top.small \o ret
  /\ stack' = Pop
  /\ UNCHANGED <<sc, pc, calls, models, modeled, loopi, final>>

FitReturns ==
  /\ pc = "fit" /\ Len(stack) = 0
  /\ models' = ret
  /\ pc' = "merge"
  /\ UNCHANGED <<sc, stack, ret, calls, modeled, loopi, final>>

---------------------------------------------------------------------------
(* GaussianElectionModel.get_aggregate_prediction_intervals *)

\* bounds: one row per group of the nonreporting units, groupby order
BoundsRows == SortKeys(Groups(L, OutLeaves))

Row(b, m) == [key |-> b, mkey |-> m.key, pool |-> m.pool]

\* left.merge(right, how="inner"): order of the left rows, per left row its matches in the order of the right rows
Join(left, right, M(_, _)) ==
  FlattenSeq([j \in 1..Len(left) |->
                LET ms == SelectSeq(right, LAMBDA m : M(left[j], m))
                IN  [q \in 1..Len(ms) |-> Row(left[j], ms[q])]])

\* bounds.merge(gaussian_model, how="inner", on=aggregate)
MergeFull ==
  /\ pc = "merge"
  /\ modeled' = Join(BoundsRows, models, LAMBDA b, m : m.key = b)
  /\ loopi' = 1
  /\ pc' = "loop"
  /\ UNCHANGED <<sc, stack, ret, calls, models, final>>

\* bounds.merge(modeled_bounds, how="left", on=aggregate, indicator=True).query("_merge != 'both'").index
\* The index is positional in the *merged* frame and is then used with bounds.iloc: exact only while modeled_bounds
\* has no duplicate key (deliberately transcribed, see NoDuplicateRows).
LeftOnlyPositions ==
  LET merged == FlattenSeq([j \in 1..Len(BoundsRows) |->
                   LET hits == SelectSeq(modeled, LAMBDA r : r.key = BoundsRows[j])
                   IN  IF Len(hits) = 0 THEN <<FALSE>> ELSE [q \in 1..Len(hits) |-> TRUE]])
  IN  SelectSeq([p \in 1..Len(merged) |-> IF merged[p] THEN 0 ELSE p], LAMBDA p : p > 0)

LoopStep ==
  /\ pc = "loop"
  /\ LET i       == loopi
         remM    == SelectSeq(models, LAMBDA m : \A j \in (L - i + 1)..L : m.key[j] = NULL)   \* null in the last i columns
         pos     == LeftOnlyPositions
         nextLen == L - i                                                                  \* len(next_aggregate)
     IN  IF \E q \in DOMAIN pos : pos[q] > Len(BoundsRows)
         THEN pc' = "error" /\ UNCHANGED <<modeled, loopi>>                                 \* IndexError of .iloc
         ELSE LET remB == [q \in 1..Len(pos) |-> BoundsRows[pos[q]]]
                  new  == IF nextLen = 0
                          THEN Join(remB, remM, LAMBDA b, m : TRUE)                         \* how="cross"
                          ELSE Join(remB, remM, LAMBDA b, m : Pre(nextLen, m.key) = Pre(nextLen, b))
              IN  IF nextLen = 0 /\ Len(remM) > 1
                  THEN pc' = "error" /\ UNCHANGED <<modeled, loopi>>                        \* assert remaining_models.shape[0] <= 1
                  ELSE /\ modeled' = modeled \o new
                       /\ loopi' = i + 1
                       /\ pc' = IF i = L THEN "final" ELSE "loop"
  /\ UNCHANGED <<sc, stack, ret, calls, models, final>>

\* last_election.merge(modeled_bounds, how="inner", on=aggregate); the floor aggregate_nonreporting_votes is then
\* applied by position (both are groupby frames of the nonreporting units)
Final ==
  /\ pc = "final"
  /\ final' = Join(BoundsRows, modeled, LAMBDA b, r : r.key = b)
  /\ pc' = "done"
  /\ UNCHANGED <<sc, stack, ret, calls, models, modeled, loopi>>

Next == Enter \/ AfterSmall \/ AfterLarge \/ FitReturns \/ MergeFull \/ LoopStep \/ Final

InitRest ==
  /\ pc = "fit"
  /\ stack = <<Frame("top", L, CalLeaves, OutLeaves)>>
  /\ ret = <<>> /\ calls = <<>> /\ models = <<>> /\ modeled = <<>> /\ loopi = 0 /\ final = <<>>

\* the domain of the property: the client's minimum-units gate leaves at least 3 calibration units; the bootstrapped
\* sigma needs 2; there is something outstanding
InDomain == NCalAll >= 2 /\ OutLeaves # {}

---------------------------------------------------------------------------
(* The property, stated declaratively against the scenario *)

Done      == pc = "done"
OutGroups == Groups(L, OutLeaves)
CalAt(p)  == NCal(Under(p, CalLeaves))                             \* calibration units a (prefix) group holds
T0        == Threshold(NCalAll)                                    \* min(10, all calibration units)

\* own group if it is big enough, else the nearest enclosing group that is (its state), else everything.
\* The empty prefix always qualifies: NCalAll >= min(10, NCalAll).
ServingLevel(g) == Max({k \in 0..Len(g) : CalAt(Pre(k, g)) >= T0})
ExpectedPool(g) == Under(Pre(ServingLevel(g), g), CalLeaves)
ExpectedMKey(g) == Pad(Pre(ServingLevel(g), g))

RowsOf(g) == SelectSeq(modeled, LAMBDA r : r.key = g)
Finite(pool) == NCal(pool) >= 2                                    \* a sample standard deviation exists

\* every group with outstanding units receives exactly one model, and it is finite
ExactlyOne ==
  Done => /\ \A g \in OutGroups : Len(RowsOf(g)) = 1 /\ Finite(RowsOf(g)[1].pool)
          /\ \A j \in DOMAIN modeled : modeled[j].key \in OutGroups

\* ... computed from the calibration units of the right pool
RightPool ==
  Done => \A j \in DOMAIN modeled : /\ modeled[j].pool = ExpectedPool(modeled[j].key)
                                    /\ modeled[j].mkey = ExpectedMKey(modeled[j].key)

\* ... never a statistic of another group at the same level (nor of a group that does not enclose it)
NonNull(mk) == Cardinality({j \in DOMAIN mk : mk[j] # NULL})
NoSibling ==
  Done => \A j \in DOMAIN modeled :
            LET r  == modeled[j]
                kk == NonNull(r.mkey)
            IN  /\ r.mkey = Pad(Pre(kk, r.key))                       \* the model's key is a NaN-padded prefix of the group's key
                /\ \A c \in r.pool : Pre(kk, c) = Pre(kk, r.key)      \* and only units below that prefix contribute

\* the rows the floor is applied to are the rows it was computed for (positional np.maximum)
FloorAligned ==
  Done => /\ Len(final) = Len(BoundsRows)
          /\ \A j \in DOMAIN final : j <= Len(BoundsRows) => final[j].key = BoundsRows[j]

\* lemmas about the code's machinery
NoError == pc # "error"
NoDuplicateRows ==                                                  \* makes LeftOnlyPositions an anti-join
  \A a, b \in DOMAIN modeled : a # b => modeled[a].key # modeled[b].key
LargeCallFits ==                                                    \* the call for the large groups never recurses
  \A j \in DOMAIN stack : stack[j].kind = "large" => stack[j].phase = "enter"
ModelKeysDistinct ==
  pc \in {"merge", "loop", "final", "done"} => \A a, b \in DOMAIN models : a # b => models[a].key # models[b].key
\* the threshold of every recursive call on the full data is the threshold of the property
ThresholdIsGlobal ==
  \A j \in DOMAIN calls : (calls[j].n = NCalAll) => calls[j].T = T0

=============================================================================
