--------------------------- MODULE FeaturizerSpec ---------------------------
(***************************************************************************)
(* The design matrices of one use of elexmodel's Featurizer (property C16). *)
(*                                                                         *)
(* A caller concatenates reporting rows, nonreporting rows (and, for the   *)
(* bootstrap, unexpected rows), calls                                      *)
(*     x_all = prepare_data(frame, center, scale=False, intercept)         *)
(* and then slices x_all *positionally*:                                   *)
(*     filter_to_active_features(x_all[:n_train])        -> fitting matrix *)
(*     generate_holdout_data(x_all[n_train:n_train+n_test]) -> prediction  *)
(*                                                                         *)
(* One action per code step of Featurizer.py:                              *)
(*   Copies     prepare_data L105-116  per-state feature copies (only for  *)
(*              states that have a row with reporting = 1)                 *)
(*   Center     L119-120  features -= mean over ALL rows of the frame      *)
(*   Intercept  L124-133  intercept = 1 (0 for rows of separate states)    *)
(*   Pool       _expand_fixed_effects L54-56  unselected levels -> "other" *)
(*   Expand     L58-62 + L144-148  one dummy per level present anywhere,   *)
(*              effects in the given order, levels in sorted order         *)
(*   Active     L150-155  dummies with a 1 on a fitting row                *)
(*              (reporting and unit_category = "expected")                 *)
(*   Drop       L160-181  first active dummy of each effect is absorbed by *)
(*              the intercept                                              *)
(*   Complete   L186-192  complete / active feature lists, custom sort     *)
(*              (intercept, baseline_normalized_margin*, rest; stable)     *)
(*   FitSlice   filter_to_active_features on a positional slice            *)
(*   Holdout    generate_holdout_data on a positional slice: a row with an *)
(*              inactive level gets 1/(k+1) on the k active dummies        *)
(*                                                                         *)
(* The scenario `sc` is data: MC_FeaturizerSpec lets TLC choose it from a  *)
(* bounded universe, Trace_FeaturizerSpec reads it from a recorded call of *)
(* the real code.  Column names are structured ids [k, f, l]; the harness  *)
(* turns them into the strings f or f_l.                                   *)
(*                                                                         *)
(* Named deviations of the code that are modelled as such:                 *)
(*  - IntervalFit: get_unit_prediction_interval_bounds decides the dummy   *)
(*    columns on all reporting rows but fits on the training prefix; C16   *)
(*    is stated at the Featurizer API (fitting rows = reporting, expected) *)
(*  - SeparateIntercept: the intercept is zeroed for every row of a state  *)
(*    in states_for_separate_model, reporting or not (the property speaks  *)
(*    of feature copies only)                                              *)
(*  - CopiesNotCentred: per-state copies are made before centring and are  *)
(*    not centred themselves (no caller combines the two options)          *)
(*  - Matching = "startswith" (code as found): a column belongs to effect  *)
(*    fe when its *name* starts with fe ("fe_" in L147, fe in L68).  With  *)
(*    Matching = "identity" (the intended meaning, equal to the code when  *)
(*    no frame column is named <fe>_<suffix>) it is the dummy's effect.    *)
(***************************************************************************)
EXTENDS Integers, Sequences, FiniteSets, FiniteSetsExt, SequencesExt, TLC

CONSTANT Matching          \* "identity" | "startswith"

VARIABLES sc,        \* scenario (never changes)
          pc,        \* next code step
          copies,    \* additional_state_features, in creation order
          base,      \* [row -> [feature -> rational]]  the shared feature columns
          icept,     \* [row -> 0/1]
          plev,      \* [row -> [effect -> level after pooling]]
          allexp,    \* all_expanded_fixed_effects
          allact,    \* all_active_fixed_effects
          actfe,     \* self.active_fixed_effects
          icol,      \* self.intercept_column (the absorbed dummies)
          expfe,     \* self.expanded_fixed_effects
          complete,  \* self.complete_features = columns of x_all
          active,    \* self.active_features
          xall,      \* [row -> [j in DOMAIN complete -> rational]]
          mats       \* one record per processed slice: [kind, rows, cols, M]

vars == <<sc, pc, copies, base, icept, plev, allexp, allact, actfe, icol, expfe, complete, active, xall, mats>>

NA    == "~"        \* a missing level (NaN)
Other == "other"
Rng(s) == {s[k] : k \in DOMAIN s}
IntSeq(lo, hi) == [i \in 1..(hi - lo + 1) |-> lo + i - 1]

---------------------------------------------------------------------------
(* exact rationals <<num, den>>, den > 0, kept in lowest terms *)
RECURSIVE GCD(_, _)
GCD(a, b) == IF b = 0 THEN a ELSE GCD(b, a % b)
Abs(a) == IF a < 0 THEN -a ELSE a
Norm(q) == IF q[1] = 0 THEN <<0, 1>>
           ELSE LET g == GCD(Abs(q[1]), q[2]) IN <<q[1] \div g, q[2] \div g>>
Q(n) == <<n, 1>>
Zero == <<0, 1>>
One  == <<1, 1>>
RAdd(a, b) == Norm(<<a[1] * b[2] + b[1] * a[2], a[2] * b[2]>>)
RSub(a, b) == Norm(<<a[1] * b[2] - b[1] * a[2], a[2] * b[2]>>)
RDivInt(a, n) == Norm(<<a[1], a[2] * n>>)
REq(a, b) == a[1] * b[2] = b[1] * a[2]

---------------------------------------------------------------------------
(* the frame handed to prepare_data *)
N      == Len(sc.rows)
Rows   == 1..N
Row(r) == sc.rows[r]
IsFit(r)     == Row(r).rep /\ Row(r).exp            \* df.reporting & (df.unit_category == "expected")
IsHoldout(r) == ~Row(r).rep /\ Row(r).exp
FitRows      == {r \in Rows : IsFit(r)}
Fes   == Rng(sc.fes)
Feats == Rng(sc.feats)

(* column ids *)
ICol          == [k |-> "int",   f |-> "intercept", l |-> ""]
Feat(f)      == [k |-> "feat",  f |-> f,  l |-> ""]
SFeat(f, s)  == [k |-> "sfeat", f |-> f,  l |-> s]
Dummy(fe, l) == [k |-> "dummy", f |-> fe, l |-> l]
ExtraCols    == [e \in DOMAIN sc.extra |-> [k |-> "extra", f |-> sc.extra[e].f, l |-> sc.extra[e].l]]

\* order of level strings as pandas sorts them: position in sc.order
Rank(s) == CHOOSE k \in DOMAIN sc.order : sc.order[k] = s

\* which effect a column is taken to belong to
Belongs(c, fe) == IF Matching = "startswith" THEN c.f = fe /\ c.l # "" ELSE c.k = "dummy" /\ c.f = fe
CatsOf(s, fe)  == SelectSeq(s, LAMBDA c : Belongs(c, fe))         \* _get_categories_for_fe

Pooled(l, fe) == IF sc.sel[fe].all THEN l
                 ELSE IF l \in Rng(sc.sel[fe].keep) THEN l ELSE Other   \* NaN is "not selected" as well

---------------------------------------------------------------------------
(* cell values *)
SVal(r, c) == IF Row(r).st = c.l THEN Row(r).x[c.f] ELSE Zero
ExtraVal(r, c) == LET e == CHOOSE e \in DOMAIN sc.extra : sc.extra[e].f = c.f /\ sc.extra[e].l = c.l
                  IN  sc.extra[e].v[r]
DVal(r, c) == IF c.k = "dummy" THEN (IF plev[r][c.f] = c.l THEN 1 ELSE 0) ELSE ExtraVal(r, c)
Cell(r, c) == CASE c.k = "int"   -> Q(icept[r])
                [] c.k = "feat"  -> base[r][c.f]
                [] c.k = "sfeat" -> SVal(r, c)
                [] OTHER         -> Q(DVal(r, c))

---------------------------------------------------------------------------
(* actions *)

RepStates    == {Row(r).st : r \in {q \in Rows : Row(q).rep}}      \* np.isclose(df.reporting, 1)
CopiedStates == SelectSeq(sc.sep, LAMBDA s : s \in RepStates)

Copies ==
  /\ pc = "copies"
  /\ copies' = FlattenSeq([i \in DOMAIN CopiedStates |->
                             [j \in DOMAIN sc.feats |-> SFeat(sc.feats[j], CopiedStates[i])]])
  /\ base' = [r \in Rows |-> [f \in Feats |-> IF Row(r).st \in Rng(CopiedStates) THEN Zero ELSE Row(r).x[f]]]
  /\ pc' = "center"
  /\ UNCHANGED <<sc, icept, plev, allexp, allact, actfe, icol, expfe, complete, active, xall, mats>>

ColSum(f) == FoldSet(LAMBDA r, acc : RAdd(acc, base[r][f]), Zero, Rows)
Center ==
  /\ pc = "center"
  /\ base' = IF sc.center
             THEN LET mean == [f \in Feats |-> RDivInt(ColSum(f), N)]
                  IN  [r \in Rows |-> [f \in Feats |-> RSub(base[r][f], mean[f])]]
             ELSE base
  /\ pc' = "intercept"
  /\ UNCHANGED <<sc, copies, icept, plev, allexp, allact, actfe, icol, expfe, complete, active, xall, mats>>

Intercept ==
  /\ pc = "intercept"
  \* SeparateIntercept: zero for every state of the list, whether or not it has reporting rows
  /\ icept' = [r \in Rows |-> IF sc.intercept /\ Row(r).st \notin Rng(sc.sep) THEN 1 ELSE 0]
  /\ pc' = IF sc.fes = <<>> THEN "complete" ELSE "pool"
  /\ UNCHANGED <<sc, copies, base, plev, allexp, allact, actfe, icol, expfe, complete, active, xall, mats>>

Pool ==
  /\ pc = "pool"
  /\ plev' = [r \in Rows |-> [fe \in Fes |-> Pooled(Row(r).lev[fe], fe)]]
  /\ pc' = "expand"
  /\ UNCHANGED <<sc, copies, base, icept, allexp, allact, actfe, icol, expfe, complete, active, xall, mats>>

LevelsPresent(fe) == {plev[r][fe] : r \in Rows} \ {NA}            \* get_dummies ignores NaN
DummiesOf(fe) == LET ls == SetToSortSeq(LevelsPresent(fe), LAMBDA a, b : Rank(a) < Rank(b))
                 IN  [i \in DOMAIN ls |-> Dummy(fe, ls[i])]
\* a frame column (not an effect column) whose name starts with "<fe>_": only Matching = "startswith" sees it;
\* such columns precede the dummies in the frame
NamePrefixed(c) == \E i \in DOMAIN sc.fes : c.f = sc.fes[i] /\ c.l # ""
Expand ==
  /\ pc = "expand"
  /\ allexp' = (IF Matching = "startswith" THEN SelectSeq(ExtraCols, NamePrefixed) ELSE <<>>)
               \o FlattenSeq([i \in DOMAIN sc.fes |-> DummiesOf(sc.fes[i])])
  /\ pc' = "active"
  /\ UNCHANGED <<sc, copies, base, icept, plev, allact, actfe, icol, expfe, complete, active, xall, mats>>

Active ==
  /\ pc = "active"
  /\ allact' = SelectSeq(allexp, LAMBDA c : \E r \in FitRows : DVal(r, c) > 0)   \* column sum over fitting rows > 0
  /\ pc' = "drop"
  /\ UNCHANGED <<sc, copies, base, icept, plev, allexp, actfe, icol, expfe, complete, active, xall, mats>>

Drop ==
  /\ pc = "drop"
  /\ IF sc.intercept
     THEN IF \E i \in DOMAIN sc.fes : CatsOf(allact, sc.fes[i]) = <<>>
          THEN \* fe_fixed_effect_filter[0] raises IndexError: an effect without a level on the fitting rows
               /\ pc' = "raised"
               /\ UNCHANGED <<actfe, icol, expfe>>
          ELSE LET ic == [i \in DOMAIN sc.fes |-> Head(CatsOf(allact, sc.fes[i]))]
               IN  /\ actfe' = FlattenSeq([i \in DOMAIN sc.fes |-> Tail(CatsOf(allact, sc.fes[i]))])
                   /\ icol'  = ic
                   /\ expfe' = SelectSeq(allexp, LAMBDA c : c \notin Rng(ic))
                   /\ pc' = "complete"
     ELSE /\ actfe' = allact
          /\ icol'  = <<>>
          /\ expfe' = allexp
          /\ pc' = "complete"
  /\ UNCHANGED <<sc, copies, base, icept, plev, allexp, allact, complete, active, xall, mats>>

\* _sort_features: intercept*, baseline_normalized_margin*, the rest; Python's sort is stable
SortKey(c) == IF c.f = "intercept" THEN 0 ELSE IF c.f = "baseline_normalized_margin" THEN 1 ELSE 2
StableSort(s) == SelectSeq(s, LAMBDA c : SortKey(c) = 0) \o SelectSeq(s, LAMBDA c : SortKey(c) = 1)
                 \o SelectSeq(s, LAMBDA c : SortKey(c) = 2)
FeatCols == [j \in DOMAIN sc.feats |-> Feat(sc.feats[j])]
Lead     == (IF sc.intercept THEN <<ICol>> ELSE <<>>) \o FeatCols \o copies

Complete ==
  /\ pc = "complete"
  /\ LET cf == StableSort(Lead \o expfe)
     IN  /\ complete' = cf
         /\ xall' = [r \in Rows |-> [j \in DOMAIN cf |-> Cell(r, cf[j])]]
  /\ active' = StableSort(Lead \o actfe)
  /\ pc' = "slice"
  /\ UNCHANGED <<sc, copies, base, icept, plev, allexp, allact, actfe, icol, expfe, mats>>

\* generate_holdout_data
Inactive(fe)       == CatsOf(SelectSeq(expfe, LAMBDA c : c \notin Rng(actfe)), fe)
HasInactive(r, fe) == \E c \in Rng(Inactive(fe)) : DVal(r, c) > 0
HoldCell(r, c) ==
  IF c \in Rng(actfe) /\ \E fe \in Fes : Belongs(c, fe) /\ HasInactive(r, fe)
  THEN LET fe == CHOOSE fe \in Fes : Belongs(c, fe) /\ HasInactive(r, fe)
       IN  <<1, Len(CatsOf(actfe, fe)) + 1>>
  ELSE Cell(r, c)

NextSlice == sc.slices[Len(mats) + 1]
FitSlice ==
  /\ pc = "slice" /\ Len(mats) < Len(sc.slices) /\ NextSlice.kind = "fit"
  /\ mats' = Append(mats, [kind |-> "fit", rows |-> NextSlice.rows, cols |-> active,
                           M |-> [i \in DOMAIN NextSlice.rows |->
                                    [j \in DOMAIN active |-> Cell(NextSlice.rows[i], active[j])]]])
  /\ UNCHANGED <<sc, pc, copies, base, icept, plev, allexp, allact, actfe, icol, expfe, complete, active, xall>>
Holdout ==
  /\ pc = "slice" /\ Len(mats) < Len(sc.slices) /\ NextSlice.kind = "holdout"
  /\ mats' = Append(mats, [kind |-> "holdout", rows |-> NextSlice.rows, cols |-> active,
                           M |-> [i \in DOMAIN NextSlice.rows |->
                                    [j \in DOMAIN active |-> HoldCell(NextSlice.rows[i], active[j])]]])
  /\ UNCHANGED <<sc, pc, copies, base, icept, plev, allexp, allact, actfe, icol, expfe, complete, active, xall>>
Finish ==
  /\ pc = "slice" /\ Len(mats) = Len(sc.slices)
  /\ pc' = "done"
  /\ UNCHANGED <<sc, copies, base, icept, plev, allexp, allact, actfe, icol, expfe, complete, active, xall, mats>>

InitRest ==
  /\ pc = "copies"
  /\ copies = <<>> /\ base = <<>> /\ icept = <<>> /\ plev = <<>>
  /\ allexp = <<>> /\ allact = <<>> /\ actfe = <<>> /\ icol = <<>> /\ expfe = <<>>
  /\ complete = <<>> /\ active = <<>> /\ xall = <<>> /\ mats = <<>>

Next == Copies \/ Center \/ Intercept \/ Pool \/ Expand \/ Active \/ Drop \/ Complete \/ FitSlice \/ Holdout \/ Finish

---------------------------------------------------------------------------
(* The property, clause by clause, stated against the scenario and the produced matrices. *)

Done == pc = "done"
NoRaise == pc # "raised"

FitLevels(fe)  == {Pooled(Row(r).lev[fe], fe) : r \in FitRows} \ {NA}   \* levels observed on the fitting rows
DummyColsOf(cs, fe) == {j \in DOMAIN cs : cs[j].k = "dummy" /\ cs[j].f = fe}
NoDup(s) == \A i, j \in DOMAIN s : i # j => s[i] # s[j]
\* position of column c in x_all
PosIn(s, c) == CHOOSE j \in DOMAIN s : s[j] = c

\* fit and prediction matrices: same columns, same order, intercept first, margin terms next; all taken from x_all
SameColumns ==
  Done => /\ \A a, b \in DOMAIN mats : mats[a].cols = mats[b].cols
          /\ \A a \in DOMAIN mats :
               LET cs == mats[a].cols IN
               /\ NoDup(cs)
               /\ Rng(cs) \subseteq Rng(complete)
               /\ \A i, j \in DOMAIN cs : i < j => PosIn(complete, cs[i]) < PosIn(complete, cs[j])
               /\ sc.intercept => (Len(cs) >= 1 /\ cs[1] = ICol)
               /\ \A i, j \in DOMAIN cs : i < j => SortKey(cs[i]) <= SortKey(cs[j])
               /\ Rng(Lead) \subseteq Rng(cs)
               /\ \A i \in DOMAIN mats[a].M : Len(mats[a].M[i]) = Len(cs)
          /\ NoDup(complete)
          /\ \A i, j \in DOMAIN complete : i < j => SortKey(complete[i]) <= SortKey(complete[j])

\* every fitted dummy column takes both values on the fitting rows
NonConstant ==
  Done => \A c \in Rng(active) : c.k = "dummy" =>
            LET j == PosIn(complete, c) IN
            /\ \E r \in FitRows : xall[r][j] = One
            /\ \E r \in FitRows : xall[r][j] = Zero

\* exactly one level observed on the fitting rows is absorbed by the intercept; no column for an unobserved level
OneAbsorbed ==
  (Done /\ sc.intercept) => \A fe \in Fes :
     LET ls == {active[j].l : j \in DummyColsOf(active, fe)} IN
     /\ ls \subseteq FitLevels(fe)
     /\ Cardinality(FitLevels(fe) \ ls) = 1
     /\ Cardinality(DummyColsOf(active, fe)) = Cardinality(ls)

HoldoutCells(P(_, _, _)) ==      \* P(matrix record, row index in the slice, effect)
  \A a \in DOMAIN mats : mats[a].kind = "holdout" => \A i \in DOMAIN mats[a].rows : \A fe \in Fes : P(mats[a], i, fe)

\* a predicted row whose level was seen in fitting: indicator of that level (all zero for the absorbed level)
SeenLevel ==
  (Done /\ sc.intercept) => HoldoutCells(LAMBDA m, i, fe :
     LET l == Pooled(Row(m.rows[i]).lev[fe], fe) IN
     l \in FitLevels(fe) =>
        \A j \in DummyColsOf(m.cols, fe) : m.M[i][j] = (IF m.cols[j].l = l THEN One ELSE Zero))

\* a predicted row whose level was not seen in fitting: 1/(k+1) on each of the k fitted levels
UnseenLevel ==
  (Done /\ sc.intercept) => HoldoutCells(LAMBDA m, i, fe :
     LET l == Pooled(Row(m.rows[i]).lev[fe], fe)
         k == Cardinality(DummyColsOf(m.cols, fe)) IN
     (l \notin FitLevels(fe) /\ l # NA) =>
        \A j \in DummyColsOf(m.cols, fe) : REq(m.M[i][j], <<1, k + 1>>))

\* the shared feature columns: centred over all rows of the frame when asked, untouched otherwise
CopiedSet == Rng(sc.sep) \cap {Row(r).st : r \in {q \in Rows : Row(q).rep}}
Shared(r, f) == IF Row(r).st \in CopiedSet THEN Zero ELSE Row(r).x[f]
Centered ==
  Done => \A j \in DOMAIN complete : complete[j].k = "feat" =>
     LET f == complete[j].f IN
     IF sc.center
     THEN /\ FoldSet(LAMBDA r, acc : RAdd(acc, xall[r][j]), Zero, Rows) = Zero
          /\ \A r \in Rows : REq(RSub(xall[r][j], xall[1][j]), RSub(Shared(r, f), Shared(1, f)))
     ELSE \A r \in Rows : REq(xall[r][j], Shared(r, f))

\* levels the user did not select share one level "other"
OtherPooled ==
  Done => \A fe \in Fes : ~sc.sel[fe].all =>
     LET keep == Rng(sc.sel[fe].keep)
         unsel(r) == Row(r).lev[fe] \notin keep IN
     /\ \A c \in Rng(complete) \cup Rng(icol) : (c.k = "dummy" /\ c.f = fe) => c.l \in keep \cup {Other}
     /\ \A j \in DummyColsOf(complete, fe) :
          /\ \A r, q \in Rows : (unsel(r) /\ unsel(q)) => xall[r][j] = xall[q][j]
          /\ complete[j].l = Other => \A r \in Rows : xall[r][j] = (IF unsel(r) THEN One ELSE Zero)
          /\ complete[j].l # Other => \A r \in Rows : xall[r][j] = (IF Row(r).lev[fe] = complete[j].l THEN One ELSE Zero)

\* per-state feature copies exist exactly for the listed states that have reporting rows
StateCopiesOnlyReporting ==
  Done => /\ \A c \in Rng(complete) : c.k = "sfeat" =>
                (c.l \in Rng(sc.sep) /\ \E r \in Rows : Row(r).rep /\ Row(r).st = c.l)
          /\ \A s \in Rng(sc.sep) : \A f \in Feats :
                (\E r \in Rows : Row(r).rep /\ Row(r).st = s) => (SFeat(f, s) \in Rng(complete) /\ SFeat(f, s) \in Rng(active))
          /\ \A j \in DOMAIN complete : complete[j].k = "sfeat" =>
                \A r \in Rows : REq(xall[r][j], IF Row(r).st = complete[j].l THEN Row(r).x[complete[j].f] ELSE Zero)

---------------------------------------------------------------------------
(* How the three callers slice x_all (ConformalElectionModel L82-97, L142-198; BootstrapElectionModel L1053-1066):
   the frame is reporting rows, then nonreporting rows, then (bootstrap) unexpected rows, and the slices are
   exactly these blocks.  A predicate of the scenario: trivially true of MC scenarios, checked on recorded calls. *)
RoleRank(r) == IF IsFit(r) THEN 0 ELSE IF IsHoldout(r) THEN 1 ELSE 2
NFit == Cardinality(FitRows)
NHold == Cardinality({r \in Rows : IsHoldout(r)})
RolesOrdered == \A r, q \in Rows : r < q => RoleRank(r) <= RoleRank(q)
SlicesOfCaller ==
  LET sl == sc.slices IN
  CASE sc.caller \in {"pred", "bootstrap"} ->
         /\ Len(sl) = 2
         /\ sl[1].kind = "fit"     /\ sl[1].rows = IntSeq(1, NFit)
         /\ sl[2].kind = "holdout" /\ sl[2].rows = IntSeq(NFit + 1, NFit + NHold)
    [] sc.caller = "interval" ->   \* IntervalFit: training prefix, conformalization rest, nonreporting rows
         /\ Len(sl) = 3
         /\ sl[1].kind = "fit" /\ Len(sl[1].rows) >= 1 /\ Len(sl[1].rows) <= NFit
         /\ sl[1].rows = IntSeq(1, Len(sl[1].rows))
         /\ sl[2].kind = "holdout" /\ sl[2].rows = IntSeq(Len(sl[1].rows) + 1, NFit)
         /\ sl[3].kind = "holdout" /\ sl[3].rows = IntSeq(NFit + 1, N)
         /\ N = NFit + NHold
    [] OTHER -> sl = <<>>        \* "prepare": outlier model and bootstrap strata use x_all as a whole
SliceDiscipline == RolesOrdered /\ SlicesOfCaller /\ NFit >= 1
=============================================================================
