------------------------ MODULE MC_EvaluationMetrics ------------------------
EXTENDS EvaluationMetrics, Json
CONSTANTS N, Vals
RowSpace == [g : {"AA", "BB"}, t : Vals, p : Vals, lo : Vals, hi : Vals]
Init == /\ rows \in [1..N -> {r \in RowSpace : r.lo <= r.hi}]
        /\ EInitRest
Spec == Init /\ [][Evaluate]_evars
ExportDone == (epc = "done") => PrintT(<<"SCEN", ToJson([rows |-> rows, report |-> report])>>)
=============================================================================
