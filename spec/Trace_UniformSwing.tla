------------------------- MODULE Trace_UniformSwing -------------------------
(* Validation of recorded real covariate-free runs against UniformSwing (code -> spec).
   IOEnv.TRACE_FILE is a JSON array; each element records one real run:
     rep  : [b, c] baseline and counted votes of every modelled reporting unit (as the model saw them)
     non  : [b, partial] of every nonreporting unit
     pred : the prediction the real code returned for each nonreporting unit
   The code-shaped pipeline of UniformSwing is executed on (rep, non); in the terminal state the observed
   predictions must be among the specification's candidates.  Runs whose weighted median is not unique end in
   "excluded" and are not judged (the property does not speak about them). *)
EXTENDS UniformSwing, Json, IOUtils

VARIABLES tid
Traces == JsonDeserialize(IOEnv.TRACE_FILE)
NT == Len(Traces)
Obs == Traces[tid]

ScOf(t) == [rep |-> t.rep, non |-> t.non]
Fresh == [last |-> <<>>, lastNon |-> <<>>, res |-> <<>>, m |-> <<0, 1>>, unit |-> 0, preds |-> <<>>]

TInit == tid = 1 /\ sc = ScOf(Traces[1]) /\ pc = "estimandize" /\ st = Fresh
TNext ==
  \/ (Next /\ UNCHANGED tid)
  \/ /\ pc \in {"done", "excluded"} /\ tid < NT
     /\ tid' = tid + 1
     /\ sc' = ScOf(Traces[tid + 1])
     /\ pc' = "estimandize"
     /\ st' = Fresh
TSpec == TInit /\ [][TNext]_<<vars, tid>>

Finished == (pc \in {"done", "excluded"} /\ tid = NT) => TLCSet(1, TRUE)
PostOK == TLCGet(1) = TRUE

Mark(name) == PrintT(<<"FAIL", ToJson([tid |-> tid, clause |-> name])>>)
Chk(name, cond) == cond \/ (Mark(name) /\ FALSE)

TMedianIsWeightedMedian == Chk("median_is_weighted_median", MedianIsWeightedMedian)
TCommonFactor   == Chk("common_factor", CommonFactor)
TFloorAtPartial == Chk("floor_at_partial", FloorAtPartial)
ObsPreds ==
  pc = "done" =>
    /\ Chk("one_prediction_per_nonreporting_unit", Len(Obs.pred) = NNon)
    /\ \A j \in NonIdx :
         j <= Len(Obs.pred) =>
           Chk("prediction_is_uniform_swing:unit=" \o ToString(j) \o ",observed=" \o ToString(Obs.pred[j]),
               Obs.pred[j] \in st.preds[j])
\* "baseline-weighted": the weights handed to the median regression are proportional to the last-election results
\* (recorded as a flag by the run-time wrapper; records with hamlets = TRUE carry the flag of the same election re-run
\* with very unequal unit sizes, where a floor or cap on the relative weights would show)
ObsWeights == pc \in {"done", "excluded"} => Chk("regression_weights_are_the_baselines", Obs.wprop)
Excluded == pc = "excluded" => PrintT(<<"EXCL", ToJson([tid |-> tid])>>)
=============================================================================
