--------------------------- MODULE MC_PartialBounds ---------------------------
EXTENDS PartialBounds, Json
MarginVals == {<<-1, 1>>, <<-1, 2>>, <<0, 1>>, <<1, 3>>, <<1, 1>>}
TurnoutVals == {<<0, 1>>, <<1, 4>>, <<3, 4>>, <<1, 1>>, <<7, 5>>}
Scenarios ==
  {[kind |-> "margin", pev |-> p, v |-> v, e |-> <<1, 2>>, lb |-> b[1], ub |-> b[2]] :
      p \in 0..104, v \in MarginVals, b \in {<< <<-1, 1>>, <<1, 1>> >>, << <<-1, 2>>, <<3, 4>> >>}}
  \cup
  {[kind |-> "turnout", pev |-> p, v |-> v, e |-> e, lb |-> b[1], ub |-> b[2]] :
      p \in 0..104, v \in TurnoutVals, e \in {<<1, 2>>, <<1, 10>>, <<1, 4>>, <<3, 5>>}, b \in {<< <<1, 2>>, <<3, 2>> >>, << <<1, 4>>, <<2, 1>> >>}}
\* the estimator clips the observed margin into the naive range before it is used: scenarios outside it are excluded
InRange(s) == s.kind = "margin" => RLe(s.lb, s.v) /\ RLe(s.v, s.ub)
Init == sc \in {s \in Scenarios : InRange(s)} /\ BInitRest
Spec == Init /\ [][Compute]_bvars
ExportDone == BDone => PrintT(<<"SCEN", ToJson([sc |-> sc, out |-> out])>>)
=============================================================================
