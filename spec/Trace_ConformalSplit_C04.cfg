SPECIFICATION TSpec
CONSTANTS
  GuardTrain = TRUE
INVARIANT RankOK
INVARIANT CorrHeldOut
INVARIANT CorrIsScore
INVARIANT TWeightedCoverage
INVARIANT TSmallestCorrection
INVARIANT CorrBoundsOK
CONSTRAINT Finished
POSTCONDITION PostOK
CHECK_DEADLOCK FALSE
