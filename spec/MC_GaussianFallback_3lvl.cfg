SPECIFICATION Spec
CONSTANTS
  LeafKeys <- LK_1x2x2
  CalVals <- CV_Thin
  Ls <- L_123
  Export = FALSE
  Canonical = FALSE
  Variant = "code"
INVARIANT ExactlyOne
INVARIANT RightPool
INVARIANT NoSibling
INVARIANT FloorAligned
INVARIANT NoError
INVARIANT NoDuplicateRows
INVARIANT LargeCallFits
INVARIANT ModelKeysDistinct
INVARIANT ThresholdIsGlobal
CHECK_DEADLOCK FALSE
