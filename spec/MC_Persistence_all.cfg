SPECIFICATION Spec
CONSTANTS
  F7 = FALSE
  Export = FALSE
  ShapeMode = "all"

INVARIANT OnlyWhatAsked
INVARIANT SaveThenFail
INVARIANT Order
INVARIANT KeyShape
INVARIANT Progress
CHECK_DEADLOCK FALSE
