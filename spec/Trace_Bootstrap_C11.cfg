SPECIFICATION TSpec
CONSTANTS
  ExactKnown = TRUE
INVARIANT RanksOK
INVARIANT BoundsOK
INVARIANT KnownOK
INVARIANT ClientOK
CONSTRAINT Finished
POSTCONDITION PostOK
CHECK_DEADLOCK FALSE
