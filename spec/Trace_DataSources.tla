-------------------------- MODULE Trace_DataSources --------------------------
(* code -> spec.  One trace per scratch working directory: a sequence of events
     publish_config / publish_data (the remote fake gets a new object), clean (working directory emptied),
     rebuild (the caller builds a fresh config dictionary), run (one real ModelClient.get_estimates call with its
     arguments, what the run was observed to hold - wrappers on ConfigHandler.get_states and on the construction of the
     combined data handler - and the working directory / the caller's dictionary afterwards).
   The environment events and the Begin of every run are taken from the trace; the statements of the run are the
   specification's own actions (silent steps); the observations are compared when the run reaches its end. *)
EXTENDS DataSources, Json, IOUtils

VARIABLES tid, l
Traces == JsonDeserialize(IOEnv.TRACE_FILE)
NT == Len(Traces)
T == Traces[tid]
NE == Len(T.events)
SetOf(sq) == {sq[k] : k \in DOMAIN sq}
DatOf(j) == IF j.kind = "none" THEN NoneV ELSE Dat(j.ver, SetOf(j.states), j.processed)
CfgOf(j) == IF j.kind = "none" THEN NoneV ELSE Cfg(j.ver, SetOf(j.states), j.extra)

CleanAlways ==
  /\ Idle /\ localcfg' = NoneV /\ localdata' = NoneV
  /\ UNCHANGED <<s3cfg, s3data, caller, req, cfg, data, cfgFrom, dataFrom, pc, runs>>

Event ==
  /\ Idle /\ l <= NE
  /\ l' = l + 1 /\ UNCHANGED tid
  /\ LET e == T.events[l] IN
       CASE e.op = "publish_config" -> PublishConfig(e.ver, SetOf(e.states))
         [] e.op = "publish_data"   -> PublishData(e.ver, SetOf(e.states))
         [] e.op = "clean"          -> CleanAlways
         [] e.op = "rebuild"        -> CallerRebuilds(e.ver, SetOf(e.states))
         [] e.op = "run"            -> Begin([cfgArg |-> e.cfgArg, dataArg |-> DatOf(e.dataArg), saveCfg |-> e.saveCfg, saveData |-> e.saveData])
Silent == ~Idle /\ RunStep /\ UNCHANGED <<tid, l>>
NextTrace ==
  /\ Idle /\ l > NE /\ tid < NT
  /\ tid' = tid + 1 /\ l' = 1
  /\ s3cfg' = NoneV /\ s3data' = NoneV /\ localcfg' = NoneV /\ localdata' = NoneV
  /\ caller' = Cfg(1, States, 0)
  /\ req' = [cfgArg |-> "none", dataArg |-> NoneV, saveCfg |-> FALSE, saveData |-> FALSE]
  /\ cfg' = NoneV /\ data' = NoneV /\ cfgFrom' = "none" /\ dataFrom' = "none" /\ pc' = "idle" /\ runs' = 0
TInit == DInit /\ tid = 1 /\ l = 1
TNext == Event \/ Silent \/ NextTrace
TSpec == TInit /\ [][TNext]_<<dvars, tid, l>>

Finished == (tid = NT /\ Idle /\ l > NE) => TLCSet(1, TRUE)
PostOK == TLCGet(1) = TRUE
Mark(name) == PrintT(<<"FAIL", ToJson([tid |-> tid, clause |-> name, event |-> l - 1])>>)
Chk(name, cond) == cond \/ (Mark(name) /\ FALSE)

Adv(name, cond) == cond \/ PrintT(<<"ADVISORY", ToJson([tid |-> tid, clause |-> name])>>)
SameCfg(a, b) == a.kind = b.kind /\ (a.kind = "cfg" => (a.ver = b.ver /\ a.states = b.states))
AtEnd == pc \in {"combine", "failed"}
E == T.events[l - 1]
RunObserved ==
  AtEnd =>
    /\ Chk("outcome", E.outcome = (IF pc = "failed" THEN "failed" ELSE "ok"))
    /\ (pc = "combine" /\ E.outcome = "ok") =>
          /\ Chk("config_used", E.obs.cfgVer = cfg.ver /\ SetOf(E.obs.cfgStates) = cfg.states)
          /\ Chk("data_used", E.obs.dataVer = data.ver /\ SetOf(E.obs.dataStates) = data.states /\ E.obs.dataProcessed = data.processed)
    /\ Chk("local_config_after", SameCfg(CfgOf(E.after.localcfg), localcfg))
    /\ Chk("local_data_after", DatOf(E.after.localdata) = localdata)
    \* the in-place growth of the feature list is what the code does today, not something a user relies on: a
    \* repaired get_features must not raise an alarm
    /\ Adv("caller_dictionary_no_longer_grows_as_modelled", E.after.callerExtra = caller.extra)
    /\ Adv("saved_feature_list_differs_from_model", CfgOf(E.after.localcfg) = localcfg)
\* the model's properties on the recorded runs
TDataWithin == AtEnd /\ pc = "combine" => Chk("rows_within_configured_states", SetOf(E.obs.dataStates) \subseteq SetOf(E.obs.cfgStates))
=============================================================================
