------------------------ MODULE Trace_NationalSummary ------------------------
(* C08, code -> spec.  Three kinds of recorded evidence, one record per trace:
   "inject"  a scenario (clamped predictions, bootstrap draws, lists, mode) injected on a real model object and the
             triple the real get_national_summary_estimates returned: it must be one of the specification's
             candidate triples (ties in argsort make more than one admissible), and the C08 invariants must hold;
   "client"  a real bootstrap client run followed by a summary call: the C08 clauses on the returned numbers,
             against the state table the same run returned;
   "history" the same election summarised after different orders / supersets of requested aggregates: every
             summary equals the one of the canonical request. *)
EXTENDS NationalSummary, Json, IOUtils

VARIABLES tid
Traces == JsonDeserialize(IOEnv.TRACE_FILE)
NT == Len(Traces)
T == Traces[tid]

Load(k) == IF Traces[k].kind = "inject" THEN Traces[k].ns
           ELSE [p |-> [c \in {"-"} |-> 0], b1 |-> <<>>, b2 |-> <<>>, w |-> <<>>, lhs |-> {}, rhs |-> {}, stop |-> {},
                 corr |-> TRUE, base |-> 0, history |-> <<>>, nweights |-> 0]
\* JSON arrays -> sets
Fix(n) == [n EXCEPT !.lhs = {n.lhs[i] : i \in DOMAIN n.lhs}, !.rhs = {n.rhs[i] : i \in DOMAIN n.rhs},
                    !.stop = {n.stop[i] : i \in DOMAIN n.stop}]

TInit == tid = 1 /\ ns = (IF Traces[1].kind = "inject" THEN Fix(Load(1)) ELSE Load(1)) /\ NInitRest
TNext == /\ tid < NT /\ tid' = tid + 1
         /\ ns' = (IF Traces[tid + 1].kind = "inject" THEN Fix(Load(tid + 1)) ELSE Load(tid + 1))
         /\ UNCHANGED <<npc, held, topSeen, result>>
TSpec == TInit /\ [][TNext]_<<nvars, tid>>
Finished == (tid = NT) => TLCSet(1, TRUE)
PostOK == TLCGet(1) = TRUE

Mark(name) == PrintT(<<"FAIL", ToJson([tid |-> tid, clause |-> name])>>)
Chk(name, cond) == cond \/ (Mark(name) /\ FALSE)
Adv(name, cond) == cond \/ PrintT(<<"ADVISORY", ToJson([tid |-> tid, clause |-> name])>>)

ObsTriple == [pred |-> T.obs.pred, lower |-> T.obs.lower, upper |-> T.obs.upper]
InjectOK ==
  T.kind = "inject" =>
    IF ns.nweights # Cardinality(Contests)
    THEN Chk("wrong_size_rejected", T.obs.kind = "error")
    ELSE /\ Chk("summary_completed", T.obs.kind = "ok")
         /\ T.obs.kind = "ok" =>
              \* the exact triple of the specification's model of the algorithm: advisory (the property states the
              \* clauses below, not the algorithm)
              /\ Adv("triple_differs_from_modelled_algorithm", ObsTriple \in Candidates)
              /\ Chk("called_contests_certain",
                     /\ ObsTriple.pred - ObsTriple.lower <= SumC(LAMBDA c : ns.w[c] * Ind(~Called(c) \/ c \in ns.stop))
                     /\ ObsTriple.upper - ObsTriple.pred <= SumC(LAMBDA c : ns.w[c] * Ind(~Called(c) \/ c \in ns.stop)))
              /\ Chk("ordered", ObsTriple.lower <= ObsTriple.pred /\ ObsTriple.pred <= ObsTriple.upper)
              /\ Chk("bounded", ns.base <= ObsTriple.lower /\ ObsTriple.upper <= ns.base + TotalWeight)
              /\ Chk("pred_is_winners", ObsTriple.pred = ns.base + SumC(LAMBDA c : ns.w[c] * Ind(PM(c) > 0)))
              \* the summary is a function of the contests and of the lists in force: the same scenario on a model object
              \* that served an earlier round of contest-level calls with other lists gives the same triple (`called` and
              \* `stop` are assigned by every top-level interval step of NationalSummary.tla; seeded change C08_J)
              /\ Chk("summary_independent_of_an_earlier_round_of_calls",
                     T.earlier.kind = "ok" /\ T.earlier.pred = T.obs.pred /\ T.earlier.lower = T.obs.lower /\ T.earlier.upper = T.obs.upper)

\* the sigmoid threshold (agg_model_hard_threshold = FALSE): the summary is a real number (hundredths); the property
\* states the ordering for every mode, the integer clauses only for the hard threshold
SigmoidOK ==
  T.kind = "sigmoid" =>
    /\ Chk("sigmoid_summary_completed", T.obs.kind = "ok")
    /\ T.obs.kind = "ok" => Chk("sigmoid_ordered", T.obs.lower <= T.obs.pred /\ T.obs.pred <= T.obs.upper)

\* client runs: T.c = [names, w, pred (thousandths, as reported in the state table), lhs, rhs, stop, base, triples]
CN == DOMAIN T.c.pred
SumN(f(_)) == FoldSet(LAMBDA c, acc : acc + f(c), 0, CN)
InSeq(x, s) == \E i \in DOMAIN s : s[i] = x
ClientOK ==
  T.kind = "client" =>
    \A a \in DOMAIN T.c.triples :
      LET t == T.c.triples[a]
          tot == SumN(LAMBDA c : T.c.w[c])
          open == SumN(LAMBDA c : T.c.w[c] * Ind(~(InSeq(c, T.c.lhs) \/ InSeq(c, T.c.rhs)) \/ InSeq(c, T.c.stop)))
      IN /\ Chk("client_ordered", t.lower <= t.pred /\ t.pred <= t.upper)
         /\ Chk("client_bounded", T.c.base <= t.lower /\ t.upper <= T.c.base + tot)
         /\ Chk("client_pred_is_winners", t.pred = T.c.base + SumN(LAMBDA c : T.c.w[c] * Ind(T.c.pred[c] > 0)))
         /\ Chk("client_called_certain", t.pred - t.lower <= open /\ t.upper - t.pred <= open)

HistoryOK ==
  T.kind = "history" =>
    \A i \in DOMAIN T.runs :
      /\ Chk("summary_fails_after_other_aggregates", T.runs[i].kind = "ok")
      /\ Chk("summary_depends_on_requested_aggregates", T.runs[i].tok = T.runs[1].tok)
      /\ Chk("wrong_size_dictionary_accepted", T.runs[i].wrongsize = "error")
=============================================================================
