SPECIFICATION Spec
CONSTANTS
  NONE <- None
  F17 = TRUE
  U = {"turnout", "dem", "gop", "margin", "party_vote_share_dem"}
  MaxLen = 2
  FullPtrs = FALSE
  NVals = 2
  RSets = "some"
INVARIANT Idempotent
CHECK_DEADLOCK FALSE
