--------------------------- MODULE MC_HistoricalRun ---------------------------
EXTENDS HistoricalRun
HistChoices == {<<>>, <<"h1">>, <<"h1", "h2">>}
EstChoices == {<<"turnout">>, <<"turnout", "dem">>, <<"dem", "turnout">>, <<"dem">>}
AggChoices == {<<>>, <<"postal_code">>, <<"county_fips", "postal_code">>, <<"postal_code", "unit">>}
SaveChoices == {[given |-> FALSE, opts |-> {}]} \cup {[given |-> TRUE, opts |-> o] : o \in SUBSET {"results", "data"}}
ResOf == [c \in {"turnout", "dem"} |-> IF c = "turnout" THEN 9 ELSE 4]
UnitChoices == {[h \in {"h1", "h2"} |-> [u \in {"a", "b", "c"} |-> [pev |-> p[u], res |-> ResOf]]] : p \in [{"a", "b", "c"} -> {0, 50, 100}]}
Init ==
  /\ rq \in [hist : HistChoices, estimands : EstChoices, aggs : AggChoices, env : {"local", "remote"}, save : SaveChoices,
             gate : {"pass", "fail"}, units : UnitChoices, thr : {100}]
  /\ HInitRest
Spec == Init /\ [][HNext]_hvars
=============================================================================
