SPECIFICATION Spec
CONSTANTS
  RepSizes = {5}
  Export = FALSE
CONSTRAINT ExportDone
CONSTRAINT ExportExcluded
INVARIANT MedianIsMinimiser
INVARIANT MedianIsWeightedMedian
INVARIANT CommonFactor
INVARIANT FloorAtPartial
INVARIANT ExcludedIffNotUnique
CHECK_DEADLOCK FALSE
