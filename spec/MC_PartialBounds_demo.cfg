SPECIFICATION Spec
INVARIANT MarginNarrowsUpTo100
CHECK_DEADLOCK FALSE
