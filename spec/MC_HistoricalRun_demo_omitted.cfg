SPECIFICATION Spec
INVARIANT OmittedOptionWritesNothing
CHECK_DEADLOCK FALSE
