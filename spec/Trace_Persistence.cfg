SPECIFICATION TSpec
CONSTANTS
  F7 = FALSE
INVARIANT RequestOK
INVARIANT ObsKeyShape
INVARIANT ObsOnlyWhatAsked
INVARIANT ObsSaveThenFail
INVARIANT ObsOrder
INVARIANT Explained
INVARIANT AtEnd
CONSTRAINT Finished
POSTCONDITION PostOK
CHECK_DEADLOCK FALSE
