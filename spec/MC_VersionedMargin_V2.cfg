SPECIFICATION Spec
CONSTANTS
  MaxV = 2
  MaxTurnout = 3
  PevChoices <- Pev_quick
  AllowZeroFinal = TRUE
  Export = FALSE
  IntTruncation = FALSE
  MaxDist = 5
INVARIANT AllMissing
CHECK_DEADLOCK FALSE
