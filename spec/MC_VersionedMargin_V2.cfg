SPECIFICATION Spec
CONSTANTS
  MaxV = 2
  MaxTurnout = 3
  PevChoices <- Pev_quick
  Export = FALSE
  IntTruncation = FALSE
  MonotoneOnRescaled = TRUE
  MaxDist = 5
INVARIANT AllMissing
CHECK_DEADLOCK FALSE
