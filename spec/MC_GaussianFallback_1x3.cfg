SPECIFICATION Spec
CONSTANTS
  LeafKeys <- LK_1x3
  CalVals <- CV_Full
  Ls <- L_12
  Export = FALSE
  Canonical = FALSE
  Variant = "code"
INVARIANT ExactlyOne
INVARIANT RightPool
INVARIANT NoSibling
INVARIANT FloorAligned
INVARIANT NoError
INVARIANT NoDuplicateRows
INVARIANT LargeCallFits
INVARIANT ModelKeysDistinct
INVARIANT ThresholdIsGlobal
CHECK_DEADLOCK FALSE
