--------------------------- MODULE ConformalSplit ---------------------------
(***************************************************************************)
(* Arithmetic of the conformal estimators (DESIGN 5/C14, 5/C04).           *)
(*                                                                         *)
(* Four parts share the variables <<pc, sc, st>> (sc = scenario = inputs,  *)
(* never changes; st = what the code has computed so far):                 *)
(*                                                                         *)
(*  Gate   client.get_estimates: loop over the requested interval levels   *)
(*         keeping the largest model minimum, the not-enough-units gate,   *)
(*         the duplicate check;                                            *)
(*  Split  NonparametricElectionModel._compute_conf_frac (GaussianElection *)
(*         Model: 0.7), ConformalElectionModel.get_unit_prediction_        *)
(*         interval_bounds: train_rows = max(1, floor(n * frac)), the rest *)
(*         calibrates, quantile level alpha * (1 + 1 / n_cal);             *)
(*  Corr   NonparametricElectionModel.get_unit_prediction_intervals and    *)
(*         _compute_population_correction on one calibration set;          *)
(*  Rank   the finite rank statement behind the coverage claim.            *)
(*                                                                         *)
(* Numbers (DESIGN 3.1).  alpha is an integer number of permille in Gate/  *)
(* Split/Rank and a dyadic rational <<num, den>> in Corr; every real value *)
(* is an exact rational handled by cross-multiplication.  Every place      *)
(* where the code rounds a double is a named *candidate set*: the exact    *)
(* result, plus its neighbour when (and only when) the exact real value    *)
(* sits on the tie of that rounding.  The actions choose nondeterministic- *)
(* ally from the candidate sets; every invariant holds for every choice.   *)
(***************************************************************************)
EXTENDS Integers, Sequences, FiniteSets, TLC

CONSTANTS GuardTrain   \* TRUE : train_rows = max(1, floor(n * frac))   (the tree as it is)
                       \* FALSE: train_rows = floor(n * frac)           (the code as found, finding F6)

VARIABLES pc, sc, st
vars == <<pc, sc, st>>

Max2(a, b) == IF a >= b THEN a ELSE b
Min2(a, b) == IF a <= b THEN a ELSE b
Abs(a)     == IF a >= 0 THEN a ELSE 0 - a
CeilDiv(a, b) == 0 - ((0 - a) \div b)               \* b > 0; \div is floor division
IsPow2(n) == n \in {1, 2, 4, 8, 16, 32, 64, 128, 256, 512, 1024, 2048, 4096}
Rng(s) == {s[k] : k \in DOMAIN s}
MaxOfSet(S) == CHOOSE m \in S : \A x \in S : x <= m
MinOfSet(S) == CHOOSE m \in S : \A x \in S : m <= x

RECURSIVE SumSeq(_, _)
SumSeq(s, k) == IF k = 0 THEN 0 ELSE s[k] + SumSeq(s, k - 1)      \* s[1] + ... + s[k]

---------------------------------------------------------------------------
(*                       G A T E   and   S P L I T                         *)
(* sc = [est, alphas : Seq(permille), n, dup]                              *)

\* ---- NonparametricElectionModel.get_minimum_reporting_units: math.ceil(-1 * (alpha + 1) / (alpha - 1))
MinExact(p) == CeilDiv(1000 + p, 1000 - p)
MinOnTie(p) == (1000 + p) % (1000 - p) = 0          \* (1+alpha)/(1-alpha) is an integer: the double may land above it
\* deliberate deviation (pinned by the repository's tests): get_minimum_reporting_units(0.9) = 20, not 19
CeilCandidates(p) == IF MinOnTie(p) THEN {MinExact(p), MinExact(p) + 1} ELSE {MinExact(p)}

MinCandidates(est, p) ==
  CASE est = "nonparametric" -> CeilCandidates(p)
    [] est = "gaussian"      -> {7}                 \* 10 * 0.7
    [] est = "bootstrap"     -> {10}

\* ---- NonparametricElectionModel._compute_conf_frac: round(min(1 + (alpha + 1) / (n * (alpha - 1)), 0.9), 2),
\*      in hundredths.  Exact value x = 1 - (1000+p) / (n (1000-p));  100 x = FracN / FracD.
FracD(p, n) == n * (1000 - p)
FracN(p, n) == 100 * (n * (1000 - p) - (1000 + p))
FracCapped(p, n) == n * (1000 - p) >= 10 * (1000 + p)              \* x >= 0.9
FracRoundUp(p, n) == (2 * FracN(p, n) + FracD(p, n)) \div (2 * FracD(p, n))     \* floor(100 x + 1/2)
FracOnTie(p, n)   == (2 * FracN(p, n) + FracD(p, n)) % (2 * FracD(p, n)) = 0     \* 100 x is a half-integer
Round2Candidates(p, n) ==
  IF FracCapped(p, n) THEN {90}
  ELSE IF FracOnTie(p, n) THEN {FracRoundUp(p, n) - 1, FracRoundUp(p, n)}
  ELSE {FracRoundUp(p, n)}

FracCandidates(est, p, n) == IF est = "gaussian" THEN {70} ELSE Round2Candidates(p, n)

\* ---- math.floor(n_train * conf_frac) with conf_frac the double nearest to f/100: the product of an integer and
\*      that double can fall just below an exact integer (e.g. floor(100 * 0.29) = 28)
FloatFloorCandidates(n, f) ==
  LET v == (n * f) \div 100
  IN  IF f # 0 /\ (n * f) % 100 = 0 THEN {v - 1, v} ELSE {v}

TrainRows(raw) == IF GuardTrain THEN Max2(1, raw) ELSE raw

\* ---- the quantile level alpha * (1 + 1 / n_cal) as a rational; and the rank it selects among n_cal equal weights
QLevelAtMostOne(p, cal) == p * (cal + 1) <= 1000 * cal
QLevelBelowOne(p, cal)  == p * (cal + 1) <  1000 * cal
\* smallest k with k / n_cal > alpha (1 + 1/n_cal)   <=>   1000 k > p (n_cal + 1)
RankStrict(p, cal) == (p * (cal + 1)) \div 1000 + 1
RankOnTie(p, cal)  == (p * (cal + 1)) % 1000 = 0      \* k/n_cal = level exactly for k = RankStrict - 1
\* deliberate deviation: on an exact tie the cumulative double share may compare either way
RankCandidates(p, cal) == IF RankOnTie(p, cal) THEN {RankStrict(p, cal) - 1, RankStrict(p, cal)} ELSE {RankStrict(p, cal)}

NAlphas == Len(sc.alphas)
Conformal == sc.est \in {"nonparametric", "gaussian"}

\* client.get_estimates: `for alpha in prediction_intervals: if minimum > max: max = minimum`, starting at 0
RECURSIVE NeedLoop(_, _)
NeedLoop(mins, k) == IF k = 0 THEN 0
                     ELSE LET acc == NeedLoop(mins, k - 1) IN IF mins[k] > acc THEN mins[k] ELSE acc

\* all ways of picking one element from each set of the sequence C[1..k]
RECURSIVE Choices(_, _)
Choices(C, k) == IF k = 0 THEN {<<>>} ELSE {Append(s, x) : s \in Choices(C, k - 1), x \in C[k]}

\* `if n_reporting_expected_units < minimum_reporting_units_max: raise ModelNotEnoughSubunitsException`, then
\* `if len(duplicate_units) > 0: raise ModelClientException`, then the estimator runs
GateOutcome(need) ==
  IF sc.n < need THEN "not_enough"
  ELSE IF sc.dup THEN "client_error"
  ELSE IF Conformal THEN "split"
  ELSE "done"

Gate ==
  /\ pc = "gate"
  /\ \E mins \in Choices([i \in 1..NAlphas |-> MinCandidates(sc.est, sc.alphas[i])], NAlphas) :
       LET need == NeedLoop(mins, NAlphas) IN
       /\ st' = [mins |-> mins, need |-> need, splits |-> <<>>]
       /\ pc' = GateOutcome(need)
  /\ UNCHANGED sc

\* (fraction in hundredths, floor(n * fraction)) as the code can compute them for level p
SplitChoices(p) ==
  UNION {{<<f, raw>> : raw \in FloatFloorCandidates(sc.n, f)} : f \in FracCandidates(sc.est, p, sc.n)}

Split ==
  /\ pc = "split"
  /\ \E ch \in Choices([i \in 1..NAlphas |-> SplitChoices(sc.alphas[i])], NAlphas) :
       st' = [st EXCEPT !.splits =
                [i \in 1..NAlphas |->
                   [f100 |-> ch[i][1], train |-> TrainRows(ch[i][2]), cal |-> sc.n - TrainRows(ch[i][2])]]]
  /\ pc' = "done"
  /\ UNCHANGED sc

\* is the observed split record s = [f100, train, cal] for level p one the Split action can produce?
SplitAdmissible(p, s) ==
  /\ s.f100 \in FracCandidates(sc.est, p, sc.n)
  /\ \E raw \in FloatFloorCandidates(sc.n, s.f100) : s.train = TrainRows(raw) /\ s.cal = sc.n - s.train

GateNext == Gate \/ Split
GateInitRest == pc = "gate" /\ st = [mins |-> <<>>, need |-> 0, splits |-> <<>>]

\* ---- the property (C14), declaratively
GateDecided == pc \in {"not_enough", "client_error", "split", "done"}
LargestMinimum == MaxOfSet(Rng(st.mins) \cup {0})

\* each per-level minimum is the ceiling of (1+alpha)/(1-alpha) (one more is admitted only on the float tie)
MinimumIsCeil ==
  (GateDecided /\ sc.est = "nonparametric") =>
    \A i \in 1..NAlphas :
      LET p == sc.alphas[i] m == st.mins[i] IN
      /\ m * (1000 - p) >= 1000 + p
      /\ \/ (m - 1) * (1000 - p) < 1000 + p
         \/ (MinOnTie(p) /\ (m - 1) * (1000 - p) = 1000 + p)

\* the dedicated error is raised if and only if n is below the largest minimum of any requested level
GateExact == GateDecided => ((pc = "not_enough") <=> (sc.n < LargestMinimum))
DuplicatesRejected == GateDecided => ((pc = "client_error") <=> (sc.n >= LargestMinimum /\ sc.dup))
Completes == (GateDecided /\ sc.n >= LargestMinimum /\ ~sc.dup) => pc \in {"split", "done"}

SplitDone == pc = "done" /\ Conformal
TrainAtLeastOne == SplitDone => \A i \in 1..NAlphas : st.splits[i].train >= 1
CalAtLeastOne   == SplitDone => \A i \in 1..NAlphas : st.splits[i].cal >= 1
SplitPartitions == SplitDone => \A i \in 1..NAlphas : st.splits[i].train + st.splits[i].cal = sc.n
FractionInRange == SplitDone => \A i \in 1..NAlphas : st.splits[i].f100 \in 0..90
\* np.quantile rejects a level above 1; at level exactly 1 no calibration unit's cumulative share exceeds it (NaN)
QuantileLevelAtMostOne ==
  (SplitDone /\ sc.est = "nonparametric") => \A i \in 1..NAlphas : QLevelAtMostOne(sc.alphas[i], st.splits[i].cal)
QuantileLevelBelowOne ==
  (SplitDone /\ sc.est = "nonparametric") => \A i \in 1..NAlphas : QLevelBelowOne(sc.alphas[i], st.splits[i].cal)
\* hence the rank the population-weighted correction selects exists among the calibration units (links C14 to C04b)
RankExists ==
  (SplitDone /\ sc.est = "nonparametric") =>
     \A i \in 1..NAlphas : \A k \in RankCandidates(sc.alphas[i], st.splits[i].cal) : k \in 1..st.splits[i].cal

---------------------------------------------------------------------------
(*                          C O R R E C T I O N                            *)
(* sc = [cal : Seq([lo, up, w]), alpha : <<num, den>>, robust, su,         *)
(*       nr : Seq([lb, ub, last, partial])]                                *)
(* lo/up = conformalization lower_bounds/upper_bounds (f(X) - r, r - f(X)),*)
(* lb/ub = unadjusted bounds of the nonreporting units, all in units of    *)
(* 1/su of a relative change; w = last_election_results of the unit.       *)

NCal == Len(sc.cal)
CalIdx == 1..NCal
WTot == SumSeq([i \in CalIdx |-> sc.cal[i].w], NCal)
\* correction_quantile = alpha * (1 + 1 / n_cal)  =  QNum / QDen
QNum == sc.alpha[1] * (NCal + 1)
QDen == sc.alpha[2] * NCal

\* ---- scores = np.maximum(conformalization.lower_bounds, conformalization.upper_bounds)
Conformity ==
  /\ pc = "scores"
  /\ st' = [st EXCEPT !.scores = [i \in CalIdx |-> Max2(sc.cal[i].lo, sc.cal[i].up)]]
  /\ pc' = "sort"
  /\ UNCHANGED sc
Score(i) == st.scores[i]

\* ---- _compute_population_correction: weights / total, sort_values("scores"), cumsum
\* any order of equal scores gives the same result; take (score, row)
Before(i, j) == Score(i) < Score(j) \/ (Score(i) = Score(j) /\ i < j)
SortCum ==
  /\ pc = "sort"
  /\ LET pos == [i \in CalIdx |-> Cardinality({j \in CalIdx : Before(j, i)}) + 1]   \* place of row i in the sorted frame
     IN  st' = [st EXCEPT !.srt = [k \in CalIdx |-> CHOOSE i \in CalIdx : pos[i] = k]]
  /\ pc' = "cumsum"
  /\ UNCHANGED sc
\* the cumulative weights along the sorted frame, times WTot (the code divides every weight by the total first)
CumSum ==
  /\ pc = "cumsum"
  /\ LET c[k \in 0..NCal] == IF k = 0 THEN 0 ELSE c[k - 1] + sc.cal[st.srt[k]].w
     IN  st' = [st EXCEPT !.cum = [k \in CalIdx |-> c[k]]]
  /\ pc' = "correct"
  /\ UNCHANGED sc

\* shares and level are computed exactly in doubles iff the weights normalise exactly and 1/n_cal is exact
FloatExactTie == IsPow2(WTot) /\ IsPow2(NCal)
CumOnTie == \E k \in CalIdx : st.cum[k] * QDen = QNum * WTot
\* query("percent > @correction_quantile") then min over scores: the first sorted row whose cumulative share
\* exceeds q.  Deliberate deviation (DESIGN 4): with an inexact normalisation the scan can stop *at* an exact tie.
PopCandidates ==
  LET firstAbove == MinOfSet({k \in CalIdx : st.cum[k] * QDen >  QNum * WTot})
      firstAtOrAbove == MinOfSet({k \in CalIdx : st.cum[k] * QDen >= QNum * WTot})
  IN  IF CumOnTie /\ ~FloatExactTie
      THEN {Score(st.srt[firstAbove]), Score(st.srt[firstAtOrAbove])}
      ELSE {Score(st.srt[firstAbove])}

\* np.quantile(scores, q) (linear interpolation) as a rational <<num, den>> in score units
UnweightedQuantile ==
  LET hN == QNum * (NCal - 1)                                \* h = hN / QDen, position in 0..NCal-1
      lo == hN \div QDen
      a  == Score(st.srt[lo + 1])
      b  == IF lo + 2 <= NCal THEN Score(st.srt[lo + 2]) ELSE a
  IN  <<a * QDen + (hN - lo * QDen) * (b - a), QDen>>

RatLE(x, y) == x[1] * y[2] <= y[1] * x[2]                    \* positive denominators
RatMax(x, y) == IF RatLE(x, y) THEN y ELSE x

Correct ==
  /\ pc = "correct"
  /\ \E pop \in PopCandidates :
       LET unw == UnweightedQuantile IN
       st' = [st EXCEPT !.pop = pop, !.unw = unw,
                \* robust: the larger of the two corrections; otherwise the population-weighted one
                !.c = IF sc.robust THEN RatMax(unw, <<pop, 1>>) ELSE <<pop, 1>>]
  /\ pc' = "apply"
  /\ UNCHANGED sc

\* rounding of the rational N/D (D > 0) to an integer.  Off a tie there is one answer.  On an exact half the code's
\* np.round is half-to-even, which is what a double computation yields when it is exact; when the computation is
\* inexact (the correction is not a dyadic number computed exactly) either neighbour is admitted.
RoundCandidates(N, D, exact) ==
  LET up == (2 * N + D) \div (2 * D) IN
  IF (2 * N + D) % (2 * D) # 0 THEN {up}
  ELSE IF exact THEN {IF up % 2 = 0 THEN up ELSE up - 1}
  ELSE {up - 1, up}

\* the correction is computed exactly in doubles iff it is a score (non-robust) or n_cal is a power of two
CorrectionExact == ~sc.robust \/ IsPow2(NCal)

\* (bound +- c) * last + last, floored at the partial count, rounded; bound in 1/su units, c = cN/cD in 1/su units
FinalCandidates(adjN, adjD, u) ==
  LET N == adjN * u.last + u.last * sc.su * adjD       \* value = N / (su * adjD)
      D == sc.su * adjD
  IN  IF N <= u.partial * D THEN {u.partial} ELSE RoundCandidates(N, D, CorrectionExact)

Apply ==
  /\ pc = "apply"
  /\ LET cN == st.c[1] cD == st.c[2] IN
     st' = [st EXCEPT
              !.lowerAdj = [j \in DOMAIN sc.nr |-> <<sc.nr[j].lb * cD - cN, cD>>],     \* lower - correction
              !.upperAdj = [j \in DOMAIN sc.nr |-> <<sc.nr[j].ub * cD + cN, cD>>],     \* upper + correction
              !.lower = [j \in DOMAIN sc.nr |-> FinalCandidates(sc.nr[j].lb * cD - cN, cD, sc.nr[j])],
              !.upper = [j \in DOMAIN sc.nr |-> FinalCandidates(sc.nr[j].ub * cD + cN, cD, sc.nr[j])]]
  /\ pc' = "done"
  /\ UNCHANGED sc

CorrNext == Conformity \/ SortCum \/ CumSum \/ Correct \/ Apply
CorrFresh == [scores |-> <<>>, srt |-> <<>>, cum |-> <<>>, pop |-> 0, unw |-> <<0, 1>>, c |-> <<0, 1>>,
              lower |-> <<>>, upper |-> <<>>, lowerAdj |-> <<>>, upperAdj |-> <<>>]
CorrInitRest == pc = "scores" /\ st = CorrFresh

\* ---- the property (C04, calibration clause), declaratively: about intervals, not about the code's max()
Corrected == pc \in {"apply", "done"}
\* the true value of calibration unit i lies inside its interval widened by c = cN/cD on both sides
InsideWidened(i, cN, cD) == sc.cal[i].lo * cD <= cN /\ sc.cal[i].up * cD <= cN
CoveredWeight(cN, cD) == SumSeq([i \in CalIdx |-> IF InsideWidened(i, cN, cD) THEN sc.cal[i].w ELSE 0], NCal)
CoveredCount(cN, cD)  == Cardinality({i \in CalIdx : InsideWidened(i, cN, cD)})

\* the baseline-weighted share of calibration units inside their widened interval exceeds alpha (1 + 1/n_cal)
\* (equality is admitted only on the inexact-tie deviation)
WeightedCoverage ==
  Corrected =>
    LET cov == CoveredWeight(st.c[1], st.c[2]) IN
    \/ cov * QDen > QNum * WTot
    \/ (cov * QDen = QNum * WTot /\ ~FloatExactTie)
\* the population-weighted correction is the smallest widening with that property
SmallestCorrection ==
  Corrected =>
    \A i \in CalIdx : Score(i) < st.pop =>
       LET cov == CoveredWeight(Score(i), 1) IN
       \/ cov * QDen < QNum * WTot
       \/ cov * QDen = QNum * WTot
\* robust: at least both corrections - the population-weighted one and the unweighted (linearly interpolated,
\* as np.quantile defines it) alpha (1 + 1/n_cal) quantile of the scores - and exactly one of them
RobustDominates ==
  (Corrected /\ sc.robust) =>
    /\ RatLE(<<st.pop, 1>>, st.c) /\ RatLE(st.unw, st.c)
    /\ (st.c = st.unw \/ st.c = <<st.pop, 1>>)
\* the interpolated quantile lies between the order statistics around position q (n_cal - 1)
UnweightedBracketed ==
  Corrected =>
    /\ Cardinality({i \in CalIdx : Score(i) * st.unw[2] <= st.unw[1]}) * QDen >= QNum * (NCal - 1)
    /\ Cardinality({i \in CalIdx : Score(i) * st.unw[2] >= st.unw[1]}) * QDen >= (QDen - QNum) * (NCal - 1)
NonRobustIsPopulation == (Corrected /\ ~sc.robust) => st.c = <<st.pop, 1>>
\* one correction, applied to both sides of every unit's interval
Symmetric ==
  pc = "done" =>
    \A j \in DOMAIN sc.nr :
      /\ st.lowerAdj[j][2] = st.c[2] /\ st.upperAdj[j][2] = st.c[2]
      /\ sc.nr[j].lb * st.c[2] - st.lowerAdj[j][1] = st.c[1]
      /\ st.upperAdj[j][1] - sc.nr[j].ub * st.c[2] = st.c[1]
\* the widened interval contains the unwidened one iff the correction is not negative
Monotone ==
  pc = "done" =>
    \A j \in DOMAIN sc.nr :
      (st.c[1] >= 0) <=> (/\ st.lowerAdj[j][1] <= sc.nr[j].lb * st.c[2]
                          /\ st.upperAdj[j][1] >= sc.nr[j].ub * st.c[2])
BoundsFloored ==
  pc = "done" =>
    \A j \in DOMAIN sc.nr : \A v \in st.lower[j] \cup st.upper[j] : v >= sc.nr[j].partial
\* every final bound is within 1/2 of the un-normalised corrected bound (or is the partial count)
BoundsFromCorrection ==
  pc = "done" =>
    \A j \in DOMAIN sc.nr :
      LET u == sc.nr[j] D == sc.su * st.c[2]
          Near(v, adjN) == LET N == adjN * u.last + u.last * D IN
                           IF N <= u.partial * D THEN v = u.partial ELSE 2 * Abs(v * D - N) <= D
      IN  /\ \A v \in st.lower[j] : Near(v, st.lowerAdj[j][1])
          /\ \A v \in st.upper[j] : Near(v, st.upperAdj[j][1])

---------------------------------------------------------------------------
(*                               R A N K                                   *)
(* sc = [p, ncal]: equal baseline sizes, n_cal calibration scores and one  *)
(* outstanding unit, all distinct, exchangeable: the outstanding unit's    *)
(* rank r among the n_cal + 1 scores is uniform on 1..n_cal+1.             *)

RankStep ==
  /\ pc = "rank"
  /\ \E k \in RankCandidates(sc.p, sc.ncal) : st' = [k |-> k]
  /\ pc' = "done"
  /\ UNCHANGED sc
RankInitRest == pc = "rank" /\ st = [k |-> 0]

\* the correction is the k-th smallest calibration score; the outstanding unit (rank r overall) is inside its
\* widened interval iff its score is at most that.  With the n_cal + 1 scores = 1..n_cal+1 and the outstanding
\* one = r, the calibration scores are the others:
OtherScores(r) == (1..(sc.ncal + 1)) \ {r}
KthSmallest(S, k) == CHOOSE v \in S : Cardinality({u \in S : u <= v}) = k
CoveredExplicit(r, k) == r <= KthSmallest(OtherScores(r), k)
CoveredClosed(r, k) == r <= k
\* the lemma that lets the large grid use the closed form (checked with explicit sets in the small configuration)
RankLemma == pc = "done" => \A r \in 1..(sc.ncal + 1) : CoveredExplicit(r, st.k) <=> CoveredClosed(r, st.k)
\* P(outstanding unit covered) = #covered ranks / (n_cal + 1) >= alpha
CoverageAtLeastAlphaExplicit ==
  pc = "done" => Cardinality({r \in 1..(sc.ncal + 1) : CoveredExplicit(r, st.k)}) * 1000 >= sc.p * (sc.ncal + 1)
CoverageAtLeastAlpha ==
  pc = "done" => Cardinality({r \in 1..(sc.ncal + 1) : CoveredClosed(r, st.k)}) * 1000 >= sc.p * (sc.ncal + 1)
\* and not wastefully more: one rank fewer would fall below alpha (off the tie)
CoverageTight ==
  pc = "done" => (st.k - 1) * 1000 <= sc.p * (sc.ncal + 1)
RankInCalibrationSet == pc = "done" => st.k \in 1..sc.ncal
=============================================================================
