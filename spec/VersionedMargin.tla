--------------------------- MODULE VersionedMargin ---------------------------
(***************************************************************************)
(* Imputation of a unit's normalised margin at every whole percent of     *)
(* expected vote from the history of its result versions (property C17).  *)
(*                                                                         *)
(* Mirrors  VersionedDataHandler.compute_versioned_margin_estimate         *)
(* (elexmodel/handlers/data/VersionedData.py), inner function              *)
(* compute_estimated_margin, one action per code step:                     *)
(*   Rescale       perc_expected_vote_corr = turnout / turnout[-1]         *)
(*                 (all 0 when the last turnout is 0)                       *)
(*   CheckMonotone np.all(np.diff(turnout) >= 0), else 101 missing rows    *)
(*                 with error type "non-monotone percent expected vote"    *)
(*   Scale         percent_expected_vote = corr * percent_expected_vote[-1]*)
(*   Batch         batch margin of the votes between version i and i+1,    *)
(*                 0/0 -> 0, x/0 -> infinity, last one 0                    *)
(*   CheckBatch    |batch| <= 1 everywhere, else 101 missing rows with     *)
(*                 error type "batch_margin"                                *)
(*   Interpolate   for p = 0..int(max percent): index of the last version  *)
(*                 with percent <= p (searchsorted side=right, -1 = before *)
(*                 the first observation), est_margin, nearest_observed    *)
(*   Correction    est_correction = final margin - est_margin              *)
(*                                                                         *)
(* Numbers are exact rationals <<num, den>> (den > 0, lowest terms);       *)
(* <<1, 0>> stands for an infinite batch margin.                           *)
(*                                                                         *)
(* Deliberate deviations of the code, modelled and named:                  *)
(*   ZeroPercentRow   at p = 0 the code's division guard yields margin 0   *)
(*                    (no votes), not the first observed margin.           *)
(*   LatestPercent    "the unit's latest percent" is the RE-SCALED one: a  *)
(*                    unit whose final turnout is 0 yields only percent 0. *)
(* Defects of the code as first found - both since repaired in /repo -     *)
(* can be switched back on by constants (finding demonstrations; OFF in    *)
(* every model that decides the property or is compared with the code):    *)
(*   IntTruncation       (V1) with integer-typed count columns the         *)
(*                    quotient turnout / turnout[-1] was written into an   *)
(*                    integer array (out=zeros_like(turnout),              *)
(*                    casting="unsafe"): every re-scaled percent collapsed *)
(*                    to 0 or the last percent.  Repaired: float output.   *)
(*   MonotoneOnRescaled  (V2) the monotonicity test was made on the        *)
(*                    re-scaled quotients; when the turnout falls to 0 in  *)
(*                    the last version the where= guard leaves them all 0  *)
(*                    and the test passed.  Repaired: the test is made on  *)
(*                    the turnout itself.                                   *)
(***************************************************************************)
EXTENDS Integers, Sequences, FiniteSets, TLC

CONSTANTS IntTruncation,       \* BOOLEAN - the code as first found on integer-typed count columns (V1, repaired)
          MonotoneOnRescaled,  \* BOOLEAN - the code as first found: monotonicity tested on the quotients (V2, repaired)
          MaxDist              \* BootstrapElectionModel.max_dist_to_observed (default 5)

VARIABLES sc,      \* [hist : Seq([t, d, g]), pev : <<num, den>>]  versions oldest first; pev = percent of the LAST one
          pc,      \* next code step
          corr,    \* perc_expected_vote_corr
          pct,     \* re-scaled percent_expected_vote per version
          batch,   \* batch margins
          kind,    \* error_type of the returned rows: "pending" | "none" | the two error strings
          nrows,   \* number of returned rows
          rows     \* kind = "none": Seq over p = 0..nrows-1 of [p, est, nearest, corr];  error kinds: <<>> = all missing

vars == <<sc, pc, corr, pct, batch, kind, nrows, rows>>

NONMONO == "non-monotone percent expected vote"
BADBATCH == "batch_margin"

---------------------------------------------------------------------------
(* exact rationals *)
Abs(x) == IF x < 0 THEN -x ELSE x
RECURSIVE Gcd(_, _)
Gcd(a, b) == IF b = 0 THEN a ELSE Gcd(b, a % b)
R(n, d) == LET s == IF d < 0 THEN -1 ELSE 1
               g == Gcd(Abs(n), Abs(d))
           IN  <<(s * n) \div g, (s * d) \div g>>
Zero == <<0, 1>>
One == <<1, 1>>
RInt(n) == <<n, 1>>
RAdd(a, b) == R(a[1] * b[2] + b[1] * a[2], a[2] * b[2])
RSub(a, b) == R(a[1] * b[2] - b[1] * a[2], a[2] * b[2])
RMul(a, b) == R(a[1] * b[1], a[2] * b[2])
RDiv(a, b) == R(a[1] * b[2], a[2] * b[1])
RLe(a, b) == a[1] * b[2] <= b[1] * a[2]
RLt(a, b) == a[1] * b[2] < b[1] * a[2]
RAbs(a) == <<Abs(a[1]), a[2]>>
RFloor(a) == a[1] \div a[2]
INF == <<1, 0>>

---------------------------------------------------------------------------
(* the history *)
H == sc.hist
N == Len(H)
TLast == H[N].t
W(i) == H[i].d + H[i].g                                  \* results_weights = two-party votes
M(i) == IF W(i) = 0 THEN Zero ELSE R(H[i].d - H[i].g, W(i))   \* results_normalized_margin (0/0 -> 0)

\* normalised margin of the batch of votes counted between version i and version i+1
BatchMargin(i) ==
  IF i = N THEN Zero                                      \* diff(..., append=last): 0/0 -> nan -> 0
  ELSE LET num == (H[i + 1].d - H[i].d) - (H[i + 1].g - H[i].g)
           den == W(i + 1) - W(i)
       IN IF den = 0 THEN (IF num = 0 THEN Zero ELSE INF) ELSE R(num, den)
BatchBad(b) == b[2] = 0 \/ RLt(One, RAbs(b))

---------------------------------------------------------------------------
(* actions *)

Rescale ==
  /\ pc = "rescale"
  /\ corr' = [i \in 1..N |->
                IF TLast = 0 THEN Zero
                ELSE IF IntTruncation THEN RInt(H[i].t \div TLast)
                ELSE R(H[i].t, TLast)]
  /\ pc' = "mono"
  /\ UNCHANGED <<sc, pct, batch, kind, nrows, rows>>

CheckMonotone ==
  /\ pc = "mono"
  /\ IF (IF MonotoneOnRescaled
         THEN \A i \in 1..(N - 1) : RLe(corr[i], corr[i + 1])
         ELSE \A i \in 1..(N - 1) : H[i].t <= H[i + 1].t)
     THEN pc' = "scale" /\ UNCHANGED <<kind, nrows>>
     ELSE pc' = "done" /\ kind' = NONMONO /\ nrows' = 101
  /\ UNCHANGED <<sc, corr, pct, batch, rows>>

Scale ==
  /\ pc = "scale"
  /\ pct' = [i \in 1..N |-> RMul(corr[i], sc.pev)]
  /\ pc' = "batch"
  /\ UNCHANGED <<sc, corr, batch, kind, nrows, rows>>

Batch ==
  /\ pc = "batch"
  /\ batch' = [i \in 1..N |-> BatchMargin(i)]
  /\ pc' = "batchcheck"
  /\ UNCHANGED <<sc, corr, pct, kind, nrows, rows>>

CheckBatch ==
  /\ pc = "batchcheck"
  /\ IF \E i \in 1..N : BatchBad(batch[i])
     THEN pc' = "done" /\ kind' = BADBATCH /\ nrows' = 101
     ELSE pc' = "interp" /\ UNCHANGED <<kind, nrows>>
  /\ UNCHANGED <<sc, corr, pct, batch, rows>>

MaxPct == CHOOSE x \in {pct[i] : i \in 1..N} : \A i \in 1..N : RLe(pct[i], x)
\* np.searchsorted(percent_vote, p, side="right") - 1, one-based: number of versions with percent <= p (0 = none)
ObsIdx(p) == Cardinality({i \in 1..N : RLe(pct[i], RInt(p))})
EstAt(p) ==
  LET i == ObsIdx(p) IN
  IF p = 0 THEN Zero                                                        \* ZeroPercentRow
  ELSE IF i = 0 THEN RDiv(RMul(M(1), RInt(p)), RInt(p))                     \* before the first observation
  ELSE RDiv(RAdd(RMul(M(i), pct[i]), RMul(batch[i], RSub(RInt(p), pct[i]))), RInt(p))
NearestAt(p) == LET i == ObsIdx(p) IN pct[IF i + 1 > N THEN N ELSE i + 1]

Interpolate ==
  /\ pc = "interp"
  /\ nrows' = RFloor(MaxPct) + 1
  /\ rows' = [k \in 1..(RFloor(MaxPct) + 1) |->
                [p |-> k - 1, est |-> EstAt(k - 1), nearest |-> NearestAt(k - 1), corr |-> Zero]]
  /\ pc' = "correct"
  /\ UNCHANGED <<sc, corr, pct, batch, kind>>

Correction ==
  /\ pc = "correct"
  /\ rows' = [k \in 1..Len(rows) |-> [rows[k] EXCEPT !.corr = RSub(M(N), rows[k].est)]]
  /\ kind' = "none"
  /\ pc' = "done"
  /\ UNCHANGED <<sc, corr, pct, batch, nrows>>

InitRest ==
  /\ pc = "rescale" /\ corr = <<>> /\ pct = <<>> /\ batch = <<>>
  /\ kind = "pending" /\ nrows = 0 /\ rows = <<>>

Next == Rescale \/ CheckMonotone \/ Scale \/ Batch \/ CheckBatch \/ Interpolate \/ Correction

---------------------------------------------------------------------------
(* the property, clause by clause - stated against the history itself, not against the code's variables *)

Done == pc = "done"

\* the re-scaled percent of version i: its share of the final turnout, times the latest percent
TruePct(i) == IF TLast = 0 THEN Zero ELSE R(H[i].t * sc.pev[1], TLast * sc.pev[2])

MonotoneTurnout == \A i \in 1..(N - 1) : H[i].t <= H[i + 1].t
BatchesPossible == \A i \in 1..(N - 1) : ~BatchBad(BatchMargin(i))
Regular == MonotoneTurnout /\ BatchesPossible

\* the last version observed at or before percent p (0: p lies before the first observation)
LastObserved(p) ==
  LET S == {i \in 1..N : RLe(TruePct(i), RInt(p))}
  IN IF S = {} THEN 0 ELSE CHOOSE i \in S : \A j \in S : j <= i

Between(lo, x, hi) == RLe(lo, x) /\ RLe(x, hi)

\* a regular history yields estimates (error type "none")
RegularYieldsRows == (Done /\ Regular) => kind = "none"

\* at every whole percent the estimate is a convex combination of the last observed margin and the margin of the
\* next batch, with the weight of the observation = observed percent / p
Convex ==
  (Done /\ Regular /\ kind = "none") =>
    \A k \in 2..Len(rows) :
      LET p == rows[k].p
          i == LastObserved(p)
      IN i > 0 =>
           LET lam == RDiv(TruePct(i), RInt(p)) IN
           /\ Between(Zero, lam, One)
           /\ rows[k].est = RAdd(RMul(lam, M(i)), RMul(RSub(One, lam), BatchMargin(i)))

Bounded ==
  (Done /\ Regular /\ kind = "none") => \A k \in 1..Len(rows) : Between(<<-1, 1>>, rows[k].est, One)

\* before the first observation the estimate is the first observed margin (p = 0: ZeroPercentRow, margin 0)
BeforeFirst ==
  (Done /\ Regular /\ kind = "none") =>
    /\ rows[1].est = Zero
    /\ \A k \in 2..Len(rows) : LastObserved(rows[k].p) = 0 => rows[k].est = M(1)

\* one row for every percent from 0 to the unit's latest (re-scaled) percent
EveryPercent ==
  (Done /\ Regular /\ kind = "none") =>
    /\ nrows = RFloor(TruePct(N)) + 1
    /\ Len(rows) = nrows
    /\ \A k \in 1..Len(rows) : rows[k].p = k - 1

\* the implied correction is the final margin minus the imputed one
CorrectionDef ==
  (Done /\ kind = "none") => \A k \in 1..Len(rows) : rows[k].corr = RSub(M(N), rows[k].est)

\* the observation the extrapolation measures its distance to: the next one above p, else the last one
NearestDef ==
  (Done /\ Regular /\ kind = "none") =>
    \A k \in 1..Len(rows) :
      LET p == rows[k].p
          A == {i \in 1..N : RLt(RInt(p), TruePct(i))}
      IN rows[k].nearest = IF A = {} THEN TruePct(N)
                           ELSE TruePct(CHOOSE i \in A : \A j \in A : RLe(TruePct(i), TruePct(j)))

\* an irregular history yields only missing corrections, with the error type that names the irregularity
AllMissing ==
  (Done /\ ~Regular) =>
    /\ kind = (IF ~MonotoneTurnout THEN NONMONO ELSE BADBATCH)
    /\ nrows = 101
    /\ rows = <<>>

\* the filter of BootstrapElectionModel._extrapolate_unit_margin (est_correction.notnull() and
\* dist_to_observed < max_dist_to_observed): the rows of this unit that may enter an extrapolated prediction
RDist(r) == RAbs(RSub(RInt(r.p), r.nearest))
Usable == IF kind = "none" THEN {k \in 1..Len(rows) : RLt(RDist(rows[k]), RInt(MaxDist))} ELSE {}
NeverUsed == (Done /\ ~Regular) => Usable = {}

TypeOK ==
  /\ pc \in {"rescale", "mono", "scale", "batch", "batchcheck", "interp", "correct", "done"}
  /\ kind \in {"pending", "none", NONMONO, BADBATCH}
=============================================================================
