--------------------------- MODULE MC_CliDispatch ---------------------------
EXTENDS CliDispatch, Json
Init ==
  /\ opt \in [historical : BOOLEAN, national : BOOLEAN, aggs : {<<>>, <<"postal_code">>, <<"county_fips", "postal_code">>},
              fe : {"absent", "json", "name"}, save : {<<>>, <<"results">>, <<"data", "results">>}, pis : {"absent", "one"},
              ests : {<<>>, <<"dem">>, <<"turnout", "dem">>}, unexpected : {0, 2}, reporting : {100, 50},
              params : {"absent", "literal"}, lhs : {<<>>, <<"AA">>}]
  /\ CInitRest
Spec == Init /\ [][CNext]_cvars
ExportDone == CDone => PrintT(<<"SCEN", ToJson([opt |-> opt, calls |-> calls, outcome |-> outcome])>>)
=============================================================================
