---------------------------- MODULE MC_Estimands ----------------------------
EXTENDS Estimands, Json
CONSTANTS U,          \* estimand names
          MaxLen,     \* 1 or 2 estimands per call
          FullPtrs,   \* TRUE: every pointer (None, own name, "gop") also in two-estimand calls
          NVals,      \* number of value triples used
          RSets       \* "all": every subset of results columns; "some": 8 of them
None == "<none>"
VT == << <<5, 3, 1>>, <<0, 0, 0>>, <<0, 3, 1>>, <<4, 2, 2>> >>
Ptrs(e) == {None, e, "gop"}
One(e, p) == [e |-> e, ptr |-> p]
EstSeqs ==
  {<<One(e, p)>> : <<e, p>> \in {<<e, p>> \in U \X (U \cup {None, "gop"}) : p \in Ptrs(e)}}
  \cup (IF MaxLen < 2 THEN {} ELSE
        {<<One(a[1], a[2]), One(b[1], b[2])>> :
           <<a, b>> \in {<<a, b>> \in (U \X (U \cup {None, "gop"})) \X (U \X (U \cup {None, "gop"})) :
                          /\ a[1] # b[1] /\ a[2] \in Ptrs(a[1]) /\ b[2] \in Ptrs(b[1])
                          /\ (FullPtrs \/ (a[2] # "gop" /\ b[2] # "gop") \/ a[1] = "gop" \/ b[1] = "gop")}})
BCols == {"turnout", "dem", "gop", "margin"}
RCols == {"turnout", "dem", "gop", "margin", "weights"}
RChoices == IF RSets = "all" THEN SUBSET RCols
            ELSE {S \cup W : S \in SUBSET {"turnout", "dem", "gop"}, W \in {{}, {"margin", "weights"}}} 
ValOf(col, t, marker) == IF col = "turnout" THEN IntV(t[1]) ELSE IF col = "dem" THEN IntV(t[2]) ELSE IF col = "gop" THEN IntV(t[3])
                         ELSE IF col = "margin" THEN IntV(marker) ELSE IntV(marker + 2)
Frame(bs, rs, v) ==
  LET names == {"baseline_" \o c : c \in bs} \cup {"results_" \o c : c \in rs}
      tb == VT[v]
      tr == VT[(v % Len(VT)) + 1]
  IN  [n \in names |-> IF \E c \in bs : n = "baseline_" \o c
                       THEN ValOf(CHOOSE c \in bs : n = "baseline_" \o c, tb, 7)
                       ELSE ValOf(CHOOSE c \in rs : n = "results_" \o c, tr, 11)]
Params ==
  {p \in [entry : {"baselines", "results"}, historical : BOOLEAN, includeRes : BOOLEAN, ests : EstSeqs] :
     p.entry = "results" => (~p.includeRes /\ \A k \in DOMAIN p.ests : p.ests[k].ptr = None)}
Init ==
  /\ par \in Params
  /\ \E bs \in SUBSET BCols, rs \in RChoices, v \in 1..NVals :
        /\ (par.entry = "results" => bs = {})
        /\ ((par.entry = "baselines" /\ ~par.includeRes) => rs = {})
        /\ inp = Frame(bs, rs, v)
  /\ EInitRest
Spec == Init /\ [][ENext]_evars
Terminal == pc \in {"done", "error"}
ExportDone == Terminal => PrintT(<<"SCEN", ToJson([par |-> par, inp |-> inp, outcome |-> pc, cols |-> m.cols, ret |-> m.ret])>>)
=============================================================================
