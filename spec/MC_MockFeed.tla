------------------------------ MODULE MC_MockFeed ------------------------------
EXTENDS MockFeed
CONSTANTS IdSets
Perms(S) == {s \in [1..Cardinality(S) -> S] : \A i, j \in DOMAIN s : i # j => s[i] # s[j]}
Init ==
  /\ \E S \in IdSets : \E ord \in Perms(S) : \E n \in 0..Cardinality(S) + 1, u \in 0..2 : \E enf \in SUBSET S :
        /\ n >= 2 * u /\ n - u <= Cardinality(S) /\ n - u >= 1
        /\ feed = [order |-> ord, res |-> [x \in S |-> 7], n |-> n, u |-> u, enforce |-> enf]
  /\ MInitRest
Spec == Init /\ [][FullyReported]_mvars
IS_Plain == {{"a", "b", "c"}, {"a", "b", "c", "d"}}
IS_Prefix == {{"1", "10", "2"}}
=============================================================================
