SPECIFICATION Spec
INVARIANT NeverTypeError
CHECK_DEADLOCK FALSE
