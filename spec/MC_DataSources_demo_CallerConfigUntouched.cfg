SPECIFICATION Spec
CONSTANTS
  States = {"AA", "BB"}
  MaxVer = 2
  MaxRuns = 3
  MaxOps = 4
INVARIANT CallerConfigUntouched
CHECK_DEADLOCK FALSE
