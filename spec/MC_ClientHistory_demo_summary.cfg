SPECIFICATION Spec
CONSTANTS
  Estimators <- AllEstimators
  ArgIds <- TwoArgs
  DefaultArgIds <- DefaultA
  HashSeeds <- Hash0
  MaxCalls = 5
  MaxProcs = 1
  Export = FALSE
  SigmaSeeded = TRUE
  SplitSeeded = TRUE
  BootSeeded = TRUE
  FreshModelPerCall = TRUE
  DefaultsUntouched = TRUE
  OrderedIteration = TRUE
  SummaryStateless = FALSE
  WeightsRebuilt = TRUE
  FeedCopied = TRUE
  OutlierColumnsOwn = TRUE
INVARIANT Functional
CHECK_DEADLOCK FALSE
