------------------------- MODULE MC_VersionedMargin -------------------------
(* Bounded universe for VersionedMargin: every history of 1..MaxV versions whose versions are any triple
   (turnout, dem, gop) with dem + gop <= turnout <= MaxTurnout - repeated versions, zero-vote versions, downward
   revisions of turnout and of single candidates included - and every latest percent in PevChoices (the recorded
   percents of earlier versions are irrelevant: the code re-scales them from the turnout; the materialiser fills them
   with junk to show that).  With Export = TRUE every terminal state is printed as JSON for replay into the real
   compute_versioned_margin_estimate / _extrapolate_unit_margin.

   The *_V1_* and *_V2 configurations switch the two defects of the code as first found back on
   (IntTruncation / MonotoneOnRescaled) and TLC reproduces the counterexamples of Convex / AllMissing. *)
EXTENDS VersionedMargin, Json

CONSTANTS MaxV, MaxTurnout, PevChoices, Export

Triples == {v \in [t : 0..MaxTurnout, d : 0..MaxTurnout, g : 0..MaxTurnout] : v.d + v.g <= v.t}

Init ==
  /\ \E n \in 1..MaxV : \E h \in [1..n -> Triples] : \E pv \in PevChoices :
       /\ sc = [hist |-> h, pev |-> <<pv, 1>>]
  /\ InitRest

Spec == Init /\ [][Next]_vars

Pev_quick == {0, 3, 4, 8}
Pev_small == {3, 8}
Pev_thorough == {0, 1, 3, 5, 8}

ExportDone ==
  (Export /\ pc = "done") =>
     PrintT(<<"SCEN", ToJson([ sc |-> sc,
                               expect |-> [ kind |-> kind, nrows |-> nrows, rows |-> rows,
                                            usable |-> [k \in 1..Len(rows) |-> k \in Usable],
                                            regular |-> Regular,
                                            \* what the property demands for this history (declarative)
                                            want_kind |-> IF Regular THEN "none"
                                                          ELSE IF ~MonotoneTurnout THEN NONMONO ELSE BADBATCH ] ])>>)
=============================================================================
