SPECIFICATION Spec
CONSTANTS
  MaxN = 4
  MaxT = 3
  PageLimit = 3
  Steps <- Steps123
  ZoneSeq <- Zones3
  Export = TRUE
CONSTRAINT ExportDone
INVARIANT ExactWindow
INVARIANT Sampled
INVARIANT SkipFailures
INVARIANT NoData
CHECK_DEADLOCK FALSE
