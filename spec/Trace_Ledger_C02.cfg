SPECIFICATION TSpec
INVARIANT TLevelsAgree
INVARIANT ObsRowOrder
INVARIANT ObsPred
INVARIANT ObsBootstrap
INVARIANT ObsGroups
CONSTRAINT Finished
POSTCONDITION PostOK
CHECK_DEADLOCK FALSE
