SPECIFICATION Spec
CONSTANTS
  Matching = "identity"
  MinRows = 1
  MaxRows = 3
  MaxOutside = 1
  L1 = {"a", "k", "z"}
  L2 = {"p", "q"}
  FESeqs <- FE_q
  FeatSeqs <- FT_x
  SepSeqs <- SEP_none
  StateSet = {"S1"}
  CenterSet = {FALSE}
  NoInterceptToo = FALSE
  Callers = {"pred"}
  SelMode = "few"
  WithNA = TRUE
  NAInExpected = FALSE
  ExtraSet <- EX_none
  Export = TRUE
  SampleMod = 2
INVARIANT NoRaise
INVARIANT DisciplineHolds
INVARIANT SameColumns
INVARIANT NonConstant
INVARIANT OneAbsorbed
INVARIANT SeenLevel
INVARIANT UnseenLevel
INVARIANT Centered
INVARIANT OtherPooled
INVARIANT StateCopiesOnlyReporting
CONSTRAINT ExportDone
CHECK_DEADLOCK FALSE
