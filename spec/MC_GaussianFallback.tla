------------------------ MODULE MC_GaussianFallback ------------------------
(* Bounded scenario universe for GaussianFallback: TLC enumerates every assignment of a calibration count (from
   CalVals, the values around the threshold 10 and around 0) and of "has outstanding units" to every leaf of LeafKeys,
   and every requested list length L in Ls; runs the code-shaped fit recursion and matching loop; checks the
   declarative clauses of C15 in the terminal state and the machinery lemmas in every state.  With Export = TRUE every
   terminal state is printed as JSON (scenario + expected calls / models / assignment) for replay into the real
   GaussianElectionModel.get_aggregate_prediction_intervals. *)
EXTENDS GaussianFallback, Json

CONSTANTS LeafKeys, CalVals, Ls, Export, Canonical

\* leaf universes (cfg files cannot contain tuples)
LK_1x2   == {<<1, 1>>, <<1, 2>>}
LK_1x3   == {<<1, 1>>, <<1, 2>>, <<1, 3>>}
LK_2x2   == {<<1, 1>>, <<1, 2>>, <<2, 1>>, <<2, 2>>}
LK_2x3   == {<<1, 1>>, <<1, 2>>, <<1, 3>>, <<2, 1>>, <<2, 2>>, <<2, 3>>}
LK_2x21  == {<<1, 1>>, <<1, 2>>, <<2, 1>>}
\* district offices: <<state, district, county>>
LK_1x2x2 == {<<1, 1, 1>>, <<1, 1, 2>>, <<1, 2, 1>>, <<1, 2, 2>>}
LK_2x2x2 == {<<1, 1, 1>>, <<1, 1, 2>>, <<1, 2, 1>>, <<2, 1, 1>>, <<2, 1, 2>>}

CV_Full  == {0, 1, 2, 9, 10, 11}
CV_Thin  == {0, 2, 9, 10}
CV_Tiny  == {0, 3, 10}
L_12     == {1, 2}
L_123    == {1, 2, 3}

\* Symmetry reduction (Canonical = TRUE, only used for the largest universe): the specification never looks at the
\* value of a state id, only at equality and at the sort order of rows, and every invariant is invariant under renaming
\* the states; of two scenarios that differ only by swapping state 1 and state 2 it is enough to explore the one whose
\* state-1 vector of (count, outstanding) codes is lexicographically not smaller.
StateVec(cal, out, s) ==
  LET ks == SortKeys({k \in LeafKeys : k[1] = s})
  IN  [j \in 1..Len(ks) |-> 2 * cal[ks[j]] + (IF out[ks[j]] THEN 1 ELSE 0)]
CanonOK(cal, out) ==
  Canonical => ~KeyLessAt(StateVec(cal, out, 1), StateVec(cal, out, 2), 1)

Init ==
  /\ \E cal \in [LeafKeys -> CalVals], out \in [LeafKeys -> BOOLEAN], l \in Ls :
       LET present == {k \in LeafKeys : cal[k] > 0 \/ out[k]}
           ks      == SortKeys(present)
       IN  /\ CanonOK(cal, out)
           /\ sc = [L |-> l, leaves |-> [j \in 1..Len(ks) |-> [key |-> ks[j], cal |-> cal[ks[j]], out |-> out[ks[j]]]]]
  /\ InDomain
  /\ InitRest

Spec == Init /\ [][Next]_vars

\* ---- export of terminal states for replay into the implementation
RowJson(r) == [key |-> r.key, mkey |-> r.mkey, pool |-> r.pool]
Expect ==
  [ T       |-> T0,
    calls   |-> calls,
    models  |-> [j \in DOMAIN models |-> [key |-> models[j].key, pool |-> models[j].pool]],
    modeled |-> [j \in DOMAIN modeled |-> RowJson(modeled[j])],
    rows    |-> BoundsRows,
    final   |-> [j \in DOMAIN final |-> final[j].key] ]
ExportDone == (Export /\ pc = "done") => PrintT(<<"SCEN", ToJson([sc |-> sc, expect |-> Expect])>>)

\* ---- witnesses against vacuity (negated: TLC reports a "violation" = the witness exists; used by the self-test and
\*      by the demonstration configs only)
W_SomeGroupServedByAll   == Done => \A j \in DOMAIN modeled : NonNull(modeled[j].mkey) # 0 \/ L = 0
W_SomeGroupServedByState == Done => \A j \in DOMAIN modeled : ~(L >= 2 /\ NonNull(modeled[j].mkey) = 1)
W_SomeGroupOnlyOutstanding == Done => \A g \in OutGroups : CalAt(g) > 0
W_SomeGroupExactlyAtThreshold == Done => \A g \in OutGroups : CalAt(g) # T0
W_FewCalibrationUnits    == Done => NCalAll >= 10
=============================================================================
