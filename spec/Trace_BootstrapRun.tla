------------------------- MODULE Trace_BootstrapRun -------------------------
(* code -> spec.  One record per model object of the bootstrap estimator that ran its pipeline inside a real
   `ModelClient.get_estimates` call: the contest of every unit of the three frames it was handed, its settings, how many
   contests received an effect, every step it entered and every draw it made from its generator (in order, with the
   requested shape), what it stored, whether the two factors of every stored product lie inside the unit's clipping
   bounds, whether a process-wide generator was touched.  The actions of BootstrapRun are replayed for the recorded
   request; at the end the observations are compared with the model (mechanism: advisory) and the model's properties
   are evaluated on what the code did (violations). *)
EXTENDS BootstrapRun, Json, IOUtils

VARIABLES tid
Traces == JsonDeserialize(IOEnv.TRACE_FILE)
NT == Len(Traces)
T == Traces[tid]
RqOf(t) == [B |-> t.B, lambdaGiven |-> t.lambda_given, district |-> t.district, versioned |-> t.versioned, pres |-> t.pres,
            train |-> t.train, test |-> t.test, unexp |-> t.unexp, epsNonzero |-> t.eps_count, clipFirst |-> FALSE]
Reset == pc' = "idle" /\ events' = <<>> /\ yStage' = "none" /\ zStage' = "none" /\ prod' = [y |-> "none", z |-> "none"]
         /\ stored' = <<>> /\ ran' = FALSE /\ calls' = 0
TInit == tid = 1 /\ rq = RqOf(Traces[1]) /\ InitRest
HDone == Done(T.n_calls)
NextTrace == HDone /\ tid < NT /\ tid' = tid + 1 /\ rq' = RqOf(Traces[tid + 1]) /\ Reset
TNext == ((Call(T.n_calls) \/ Pipeline) /\ UNCHANGED tid) \/ NextTrace
TSpec == TInit /\ [][TNext]_<<bvars, tid>>
Finished == (tid = NT /\ HDone) => TLCSet(1, TRUE)
PostOK == TLCGet(1) = TRUE
Mark(name) == PrintT(<<"FAIL", ToJson([tid |-> tid, clause |-> name])>>)
Chk(name, cond) == cond \/ (Mark(name) /\ FALSE)
Adv(name, cond) == cond \/ PrintT(<<"ADVISORY", ToJson([tid |-> tid, clause |-> name])>>)

Ev(e) == [ev |-> e.ev, m |-> e.m, shape |-> e.shape]
Obs == [k \in DOMAIN T.events |-> Ev(T.events[k])]
AtEnd ==
  HDone =>
    \* mechanism: the order of the steps and the exact stream are the modelled algorithm, not something a user relies on
    /\ Adv("steps_differ_from_modelled_pipeline", Steps(Obs) = Steps(events))
    /\ Adv("draws_differ_from_modelled_stream", Draws(Obs) = Draws(events))
    /\ Adv("contest_columns_differ_from_model", T.n_columns = NC(rq, TRUE) /\ T.n_contests = NContests(rq))
    \* properties of the model, evaluated on what the code did
    /\ Chk("process_wide_generators_untouched", ~T.global_rng_used)
    /\ Chk("pipeline_ran_once_on_the_object", T.runs_on_object = 1 /\ T.ran)
    /\ Chk("stored_matrices_have_one_row_per_outstanding_unit_and_one_column_per_draw",
           \A f \in DOMAIN stored : T.shapes[f] = stored[f])
    /\ Chk("contest_effect_only_with_two_training_units", T.eps_count <= Cardinality(EffectColumns(rq)))
    /\ Chk("stored_factors_inside_the_clipping_bounds", \A f \in DOMAIN T.facts : T.facts[f])
    /\ Chk("model_clip_last", ClipLast)
=============================================================================
