-------------------------- MODULE MC_InputValidation --------------------------
EXTENDS InputValidation, Json
Est == {"nonparametric", "gaussian", "bootstrap"}
CSet == {Checks[i] : i \in 1..Len(Checks)}
Init ==
  /\ \E ok \in [CSet -> BOOLEAN], e \in Est, po \in Est, ue \in BOOLEAN :
        \* an unknown estimator name has no parameters of its own
        /\ req = [ok |-> ok, estimator |-> e, paramOf |-> po, unknownEstimand |-> ue]
  /\ VInitRest
Spec == Init /\ [][Step]_vvars
ExportDone == (vpc = "done") => PrintT(<<"SCEN", ToJson([req |-> req, verdict |-> verdict])>>)
=============================================================================
