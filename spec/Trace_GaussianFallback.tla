----------------------- MODULE Trace_GaussianFallback -----------------------
(* Validation of recorded real runs against GaussianFallback (code -> spec).
   The trace file (IOEnv.TRACE_FILE) is a JSON array; each element records ONE real call of
   GaussianElectionModel.get_aggregate_prediction_intervals inside a gaussian estimate run of the public client:
     sc  : the abstract scenario read off the call's inputs - requested list length L and, per aggregate group,
           the number of calibration (conformalization) units and whether it has outstanding (nonreporting) units;
           key strings mapped to 1..n per column in sorted order
     obs : what the code did - the GaussianModel.fit calls in call order (level, rows, counts per group), the
           gaussian model frame the top-level fit returned (key with 0 for NaN, pool = the groups whose calibration
           units the row's statistics were computed from), and modeled_bounds_agg (group key, pool, finite)
   For every trace the code-shaped recursion and matching loop of GaussianFallback are executed on sc, the terminal
   state is compared with obs clause by clause, and the declarative clauses of C15 are evaluated on obs itself. *)
EXTENDS GaussianFallback, Json, IOUtils

VARIABLES tid
Traces == JsonDeserialize(IOEnv.TRACE_FILE)
NT == Len(Traces)
Obs == Traces[tid].obs

Rg(s) == {s[j] : j \in DOMAIN s}

TInit == tid = 1 /\ sc = Traces[1].sc /\ InitRest
TNext ==
  \/ (Next /\ UNCHANGED tid)
  \/ /\ pc = "done" /\ tid < NT
     /\ tid' = tid + 1
     /\ sc' = Traces[tid + 1].sc
     /\ pc' = "fit"
     /\ stack' = <<[kind |-> "top", lvl |-> Traces[tid + 1].sc.L,
                    cset |-> {l.key : l \in {x \in Rg(Traces[tid + 1].sc.leaves) : x.cal > 0}},
                    nset |-> {l.key : l \in {x \in Rg(Traces[tid + 1].sc.leaves) : x.out}},
                    phase |-> "enter", T |-> 0, counts |-> <<>>, small |-> <<>>]>>
     /\ ret' = <<>> /\ calls' = <<>> /\ models' = <<>> /\ modeled' = <<>> /\ loopi' = 0 /\ final' = <<>>
TSpec == TInit /\ [][TNext]_<<vars, tid>>

\* all traces consumed: the last one reached its terminal state
Finished == (pc = "done" /\ tid = NT) => TLCSet(1, TRUE)
PostOK == TLCGet(1) = TRUE

Mark(name) == PrintT(<<"FAIL", ToJson([tid |-> tid, clause |-> name])>>)
Chk(name, cond) == cond \/ (Mark(name) /\ FALSE)

\* the specification's own clauses on the replayed state (the design is sound on this structure)
TExactlyOne   == Chk("spec_exactly_one", ExactlyOne)
TRightPool    == Chk("spec_right_pool", RightPool)
TNoSibling    == Chk("spec_no_sibling", NoSibling)
TFloorAligned == Chk("spec_floor_aligned", FloorAligned)
TNoError      == Chk("spec_no_error", NoError)

---------------------------------------------------------------------------
(* the recorded run against the replayed state *)

\* Count / Threshold / FitRec: the same calls in the same order with the same counts
ObsCalls ==
  Done =>
    /\ Chk("fit_call_count", Len(Obs.calls) = Len(calls))
    /\ \A j \in DOMAIN calls : j <= Len(Obs.calls) =>
         /\ Chk("fit_call_level", Obs.calls[j].lvl = calls[j].lvl)
         /\ Chk("fit_call_rows", Obs.calls[j].n = calls[j].n)
         /\ Chk("fit_call_counts", Rg(Obs.calls[j].counts) = calls[j].counts)

\* the model frame: same keys, each computed from exactly the calibration units of its own group
ObsModelSet == {[key |-> m.key, pool |-> Rg(m.pool)] : m \in Rg(Obs.models)}
ObsModels ==
  Done =>
    /\ \A j \in DOMAIN Obs.models : Chk("model_pool_is_union_of_groups", Obs.models[j].whole)
    /\ Chk("model_rows", Len(Obs.models) = Len(models))
    /\ Chk("model_frame", ObsModelSet = Rg(models))

\* the assignment the code made equals the assignment of the replayed matching loop
ObsRowsOf(g) == SelectSeq(Obs.modeled, LAMBDA r : r.key = g)
ObsAssigned ==
  Done =>
    /\ Chk("modeled_row_count", Len(Obs.modeled) = Len(modeled))
    /\ \A g \in OutGroups :
         /\ Chk("assigned_as_specified",
                {Rg(r.pool) : r \in Rg(ObsRowsOf(g))} = {r.pool : r \in Rg(RowsOf(g))})

---------------------------------------------------------------------------
(* the declarative clauses of C15 evaluated on the recorded run itself *)

ObsExactlyOne ==
  Done =>
    /\ \A g \in OutGroups :
         /\ Chk("exactly_one_model", Len(ObsRowsOf(g)) = 1)
         /\ \A j \in DOMAIN ObsRowsOf(g) : Chk("model_finite", ObsRowsOf(g)[j].finite)
    /\ \A j \in DOMAIN Obs.modeled : Chk("modeled_group_has_outstanding_units", Obs.modeled[j].key \in OutGroups)

ObsRightPool ==
  Done => \A j \in DOMAIN Obs.modeled :
            LET r == Obs.modeled[j] IN
            r.key \in OutGroups =>
              /\ Chk("pool_is_union_of_groups", r.whole)
              /\ Chk("right_pool", Rg(r.pool) = ExpectedPool(r.key))

ObsNoSibling ==
  Done => \A j \in DOMAIN Obs.modeled :
            LET r == Obs.modeled[j]
                k == ServingLevel(r.key)
            IN  r.key \in OutGroups =>
                  Chk("no_sibling_statistics", \A c \in Rg(r.pool) : Pre(k, c) = Pre(k, r.key))
=============================================================================
