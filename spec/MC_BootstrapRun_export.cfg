SPECIFICATION Spec
CONSTANT DistrictMin = 1
CONSTANT MaxCalls = 2
CONSTANT ClipFirst = FALSE
CONSTANT TrainMax = 3
CONSTANT TestMax = 2
CONSTANT Export = TRUE
INVARIANT ClipLast
INVARIANT RunOnce
INVARIANT StreamIsFunctionOfSizes
INVARIANT StoredShapes
CHECK_DEADLOCK FALSE
CONSTRAINT ExportDone
