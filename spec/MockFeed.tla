------------------------------- MODULE MockFeed -------------------------------
(***************************************************************************)
(* Supplementary model (no listed property): the simulated live feed       *)
(* MockLiveDataHandler (handlers/data/LiveData.py) that the CLI and the    *)
(* test-suite use to turn a finished election into an election night.      *)
(*                                                                         *)
(*   PercentToN      _convert_percent_to_n: frac = round(percent/100, 2),   *)
(*                   n = ceil | floor (frac * N)  (float ties: candidates)  *)
(*   Enforce         shuffle(enforce=...): the enforced units come first,   *)
(*                   both classes keep their relative order                 *)
(*   FullyReported   get_n_fully_reported(n): the first n - u units report  *)
(*                   (percent 100, results kept), the others do not         *)
(*                   (percent 0, results 0, raw results kept); u extra      *)
(*                   "unexpected" rows repeat u DISTINCT reporting rows     *)
(*                   under the ids  <id> \o "0", <id> \o "1", ...           *)
(* Preconditions the code relies on silently: n >= 2u (the u fake rows are  *)
(* drawn from the n - u reporting rows) and 1 <= n - u <= N (with n - u = 0 *)
(* the assignment of the raw-results column to the empty reporting frame    *)
(* re-expands it: the real handler then returns N phantom reporting rows).  *)
(***************************************************************************)
EXTENDS Integers, Sequences, FiniteSets, TLC

VARIABLES feed,   \* scenario: [order : Seq(id), res : [id -> Nat], n, u, enforce : set of ids]
          mpc, out
mvars == <<feed, mpc, out>>

Digits == <<"0", "1", "2", "3", "4", "5", "6", "7", "8", "9">>
NOrig == Len(feed.order)
ExpectedN == feed.n - feed.u

SelectIds(s, P(_)) == SelectSeq(s, P)
Enforced == SelectIds(feed.order, LAMBDA x : x \in feed.enforce) \o SelectIds(feed.order, LAMBDA x : x \notin feed.enforce)

RepRow(x)  == [id |-> x, pev |-> 100, res |-> feed.res[x], raw |-> feed.res[x], fake |-> FALSE]
NonRow(x)  == [id |-> x, pev |-> 0, res |-> 0, raw |-> feed.res[x], fake |-> FALSE]
FakeRow(x, k) == [id |-> x \o Digits[k + 1], pev |-> 100, res |-> feed.res[x], raw |-> feed.res[x], fake |-> TRUE]

\* injective choices of u sources among the reporting rows (the code samples them at random)
Sources == {f \in [0..(feed.u - 1) -> {Enforced[i] : i \in 1..ExpectedN}] : \A a, b \in DOMAIN f : a # b => f[a] # f[b]}

FullyReported ==
  /\ mpc = "report"
  /\ feed.n >= 2 * feed.u /\ ExpectedN <= NOrig /\ ExpectedN >= 1
  /\ \E f \in Sources :
       out' = [k \in 1..ExpectedN |-> RepRow(Enforced[k])]
              \o [k \in 1..feed.u |-> FakeRow(f[k - 1], k - 1)]
              \o [k \in 1..(NOrig - ExpectedN) |-> NonRow(Enforced[ExpectedN + k])]
  /\ mpc' = "done"
  /\ UNCHANGED feed
MInitRest == mpc = "report" /\ out = <<>>

MDone == mpc = "done"
NFullyReported == MDone => Cardinality({k \in DOMAIN out : out[k].pev = 100}) = feed.n
EveryUnitOnce  == MDone => \A i \in 1..NOrig : Cardinality({k \in DOMAIN out : out[k].id = feed.order[i] /\ ~out[k].fake}) = 1
RowCount       == MDone => Len(out) = NOrig + feed.u
NonreportingHidden == MDone => \A k \in DOMAIN out : out[k].pev = 0 => out[k].res = 0 /\ out[k].raw = feed.res[out[k].id]
EnforcedFirst  == MDone => \A i, j \in 1..NOrig : (Enforced[i] \notin feed.enforce /\ Enforced[j] \in feed.enforce) => j < i
\* a fake id can collide with a real id when one id is another id followed by a digit ("1" and "10")
FakeIdsFresh   == MDone => \A k \in DOMAIN out : out[k].fake => \A i \in 1..NOrig : out[k].id # feed.order[i]

\* percent -> n (hundredths; float ties admit the neighbour)
FracHundredths(percent) == {(percent + 0) }      \* round(percent / 100, 2) * 100 = percent for whole percents
CeilN(percent, N)  == LET p == percent * N IN IF p % 100 = 0 THEN {p \div 100, p \div 100 + 1} ELSE {p \div 100 + 1}
FloorN(percent, N) == LET p == percent * N IN IF p % 100 = 0 THEN {p \div 100, p \div 100 - 1} ELSE {p \div 100}
=============================================================================
