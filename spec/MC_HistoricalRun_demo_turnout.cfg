SPECIFICATION Spec
INVARIANT AllHiddenResultsBlank
CHECK_DEADLOCK FALSE
