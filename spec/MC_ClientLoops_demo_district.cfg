SPECIFICATION Spec
CONSTANTS
  EstimatorSet <- Conformal2
  DistrictKinds <- DistrictOffice
  EstimandSet <- TwoCounts
  AlphaSet <- Alphas2
  AggSet <- Aggs3
  MaxEsts = 2
  MaxAlphas = 1
  MaxAggs = 2
  Export = FALSE
  LoopOrder = "estimand_outer"
  CacheSlots = "per_alpha"
  CacheRead = "requested"
  PredRead = "own"
  UnitCategoryInMergeKeys = TRUE
  DistrictInMergeKeys = FALSE
  ReportingInMergeKeys = TRUE
INVARIANT StableKeys
CHECK_DEADLOCK FALSE
