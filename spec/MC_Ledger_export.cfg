SPECIFICATION Spec
CONSTANTS
  NUnits = 2
  States = {"S1", "S2"}
  Counties = {"c1"}
  Classes = {"k1"}
  Districts = {"d1"}
  Policies = {"drop", "zero"}
  Offices = {FALSE, TRUE}
  LevelLists <- LL_All
  BlockLists <- BL_All
  AllowMismatch = FALSE
  Export = TRUE
  WithOutputs = FALSE
CONSTRAINT ExportDone
INVARIANT EveryUnitOnce
INVARIANT UnitVotesConserved
INVARIANT Conservation
CHECK_DEADLOCK FALSE
