----------------------------- MODULE S3Versions -----------------------------
(***************************************************************************)
(* Retrieval of the stored versions of one results file (property C19).   *)
(*                                                                         *)
(* Mirrors  elexmodel/handlers/s3.py  S3VersionUtil.list_versions / get / *)
(* make_request / wait_for_versions  and the "no data" path of             *)
(* VersionedDataHandler.get_versioned_results.                             *)
(*                                                                         *)
(* The storage SERVICE holds the versions newest first (non-increasing    *)
(* modification time) and answers a list request that carries a marker    *)
(* with ANY prefix of the remainder, of a length it chooses itself         *)
(* (ListPage(k, _): k is the service's choice), the truncation flag and   *)
(* the next marker.                                                        *)
(*                                                                         *)
(* The CLIENT is shaped like the code, one action per code step:          *)
(*   ListPage    one recursion level of list_versions: request, keep the  *)
(*               page on the recursion stack, decide whether to recurse   *)
(*               (ContinueRule = the `if` of list_versions L108-112)      *)
(*   Unwind      return of one recursion level: page ++ deeper result,    *)
(*               then the start / end filters (applied at EVERY level)    *)
(*   GetNone     get(): nothing listed -> None                             *)
(*   Queue       get(): versions[::sample], one download request each,    *)
(*               all issued before any result is awaited                   *)
(*   Complete    wait_for_versions: futures awaited in queue order; a     *)
(*               failed one is logged and skipped; a successful one is    *)
(*               parsed and every row stamped with ITS version's time in  *)
(*               the requested zone                                        *)
(*   Concat      pd.concat of the stamped frames                           *)
(*   Handler     get_versioned_results: None is passed on                  *)
(*                                                                         *)
(* Deliberate deviation of the code, modelled and named:                   *)
(*   AllFailedRaises  when every download fails pd.concat([]) raises; the *)
(*               property only speaks about ">= 1 succeeds", so the result *)
(*               kind "raised" is never compared with the implementation.  *)
(* Outside the model (DESIGN 4): a page that holds only delete markers.   *)
(*                                                                         *)
(* The scenario `sc` is data: chosen by TLC in MC_S3Versions, read from a  *)
(* recorded real run in Trace_S3Versions.                                  *)
(***************************************************************************)
EXTENDS Integers, Sequences, FiniteSets, SequencesExt, TLC

VARIABLES sc,         \* [versions : Seq([id, t]) newest first, start, end, step, zone]; never changes
          pc,         \* next code step
          marker,     \* service side: number of versions already handed out (= position of the next marker)
          stack,      \* recursion stack of list_versions: the pages received so far
          acc,        \* value returned by the recursion levels unwound so far
          listed,     \* value returned by the outermost list_versions
          requested,  \* ids of the versions for which a download was requested, in request order
          outcomes,   \* outcome (TRUE = ok) of the downloads awaited so far, in queue order
          rows,       \* stamped frames collected so far: Seq([id, t, zone])
          result,     \* [kind : "pending" | "none" | "rows" | "raised", rows]
          hresult,    \* what get_versioned_results hands to the client: "pending" | "none" | "frame" | "raised"
          calls       \* history of the list requests: Seq([marker, n, truncated, continued])

vars == <<sc, pc, marker, stack, acc, listed, requested, outcomes, rows, result, hresult, calls>>

NONE == -1                      \* start_date / end_date is None

V == sc.versions
NV == Len(V)
Min2(a, b) == IF a <= b THEN a ELSE b

---------------------------------------------------------------------------
(* the window *)
InWindow(v) == /\ (sc.start = NONE \/ v.t >= sc.start)
               /\ (sc.end = NONE \/ v.t <= sc.end)
\* list_versions L118-121: the start filter, then the end filter
FilterStart(s) == IF sc.start = NONE THEN s ELSE SelectSeq(s, LAMBDA v : v.t >= sc.start)
FilterEnd(s)   == IF sc.end = NONE THEN s ELSE SelectSeq(s, LAMBDA v : v.t <= sc.end)
Filter(s) == FilterEnd(FilterStart(s))

\* list_versions L108-112: recurse iff the listing is truncated, the page is not empty and its last (oldest)
\* version is not yet older than the window start
ContinueRule(page, trunc) ==
  /\ trunc
  /\ Len(page) > 0
  /\ (sc.start = NONE \/ page[Len(page)].t >= sc.start)

\* versions[::sample]
EveryNth(s, k) == [j \in 1..((Len(s) + k - 1) \div k) |-> s[(j - 1) * k + 1]]

Ids(s) == [j \in 1..Len(s) |-> s[j].id]

---------------------------------------------------------------------------
(* service *)
Page(k)  == SubSeq(V, marker + 1, marker + Min2(k, NV - marker))
Trunc(k) == marker + Len(Page(k)) < NV

---------------------------------------------------------------------------
(* actions *)

\* k: the page length chosen by the service; cont: the client's decision to recurse
ListPage(k, cont) ==
  /\ pc = "list"
  /\ calls' = Append(calls, [marker |-> marker, n |-> Len(Page(k)), truncated |-> Trunc(k), continued |-> cont])
  /\ stack' = Append(stack, Page(k))
  /\ IF cont
     THEN marker' = marker + Len(Page(k)) /\ pc' = "list"
     ELSE marker' = marker /\ pc' = "unwind"
  /\ UNCHANGED <<sc, acc, listed, requested, outcomes, rows, result, hresult>>

ClientListPage(k) == ListPage(k, ContinueRule(Page(k), Trunc(k)))

Unwind ==
  /\ pc = "unwind"
  /\ stack # <<>>
  /\ LET ret == Filter(Last(stack) \o acc) IN
       /\ acc' = ret
       /\ stack' = Front(stack)
       /\ IF Len(stack) = 1
          THEN listed' = ret /\ pc' = "listed"
          ELSE listed' = listed /\ pc' = "unwind"
  /\ UNCHANGED <<sc, marker, requested, outcomes, rows, result, hresult, calls>>

GetNone ==
  /\ pc = "listed"
  /\ listed = <<>>
  /\ result' = [kind |-> "none", rows |-> <<>>]
  /\ pc' = "got"
  /\ UNCHANGED <<sc, marker, stack, acc, listed, requested, outcomes, rows, hresult, calls>>

Queued == EveryNth(listed, sc.step)

Queue ==
  /\ pc = "listed"
  /\ listed # <<>>
  /\ requested' = Ids(Queued)
  /\ pc' = "wait"
  /\ UNCHANGED <<sc, marker, stack, acc, listed, outcomes, rows, result, hresult, calls>>

Stamp(v) == [id |-> v.id, t |-> v.t, zone |-> sc.zone]

Complete(ok) ==
  /\ pc = "wait"
  /\ Len(outcomes) < Len(Queued)
  /\ outcomes' = Append(outcomes, ok)
  /\ rows' = IF ok THEN Append(rows, Stamp(Queued[Len(outcomes) + 1])) ELSE rows
  /\ pc' = IF Len(outcomes) + 1 = Len(Queued) THEN "concat" ELSE "wait"
  /\ UNCHANGED <<sc, marker, stack, acc, listed, requested, result, hresult, calls>>

Concat ==
  /\ pc = "concat"
  /\ result' = IF rows = <<>>
               THEN [kind |-> "raised", rows |-> <<>>]      \* AllFailedRaises
               ELSE [kind |-> "rows", rows |-> rows]
  /\ pc' = "got"
  /\ UNCHANGED <<sc, marker, stack, acc, listed, requested, outcomes, rows, hresult, calls>>

Handler ==
  /\ pc = "got"
  /\ hresult' = CASE result.kind = "none" -> "none"
                  [] result.kind = "rows" -> "frame"
                  [] OTHER -> "raised"
  /\ pc' = "done"
  /\ UNCHANGED <<sc, marker, stack, acc, listed, requested, outcomes, rows, result, calls>>

InitRest ==
  /\ pc = "list" /\ marker = 0 /\ stack = <<>> /\ acc = <<>> /\ listed = <<>>
  /\ requested = <<>> /\ outcomes = <<>> /\ rows = <<>>
  /\ result = [kind |-> "pending", rows |-> <<>>] /\ hresult = "pending" /\ calls = <<>>

---------------------------------------------------------------------------
(* the property, clause by clause (declarative, against the scenario) *)

Listing == pc \notin {"list", "unwind"}          \* the outermost list_versions has returned
Done == pc = "done"

\* exactly the versions inside [start, end], in the service's order, each once - for every paging
Window == SelectSeq(V, InWindow)
ExactWindow == Listing => listed = Window

\* the early stop never loses a version: whatever was not requested from the service lies before the window start
StopIsSafe ==
  Listing => \A i \in 1..NV : (i > calls[Len(calls)].marker + calls[Len(calls)].n) => ~InWindow(V[i])

\* downloads are requested for every step-th listed version (the 1st, the (1+step)-th, ...), in that order
Sampled ==
  (pc \in {"wait", "concat", "got", "done"} /\ listed # <<>>) =>
     requested = Ids(SelectSeq([j \in 1..Len(listed) |-> [id |-> listed[j].id, pos |-> j]],
                               LAMBDA e : (e.pos - 1) % sc.step = 0))

\* every row carries the modification time of its own version, in the requested zone
TimeOf(id) == LET i == CHOOSE i \in 1..NV : V[i].id = id IN V[i].t
OwnStamp == \A j \in 1..Len(rows) : rows[j].t = TimeOf(rows[j].id) /\ rows[j].zone = sc.zone

\* a failed download is skipped, the others are unaffected (same versions, same order), if at least one succeeds
SkipFailures ==
  (Done /\ requested # <<>> /\ \E j \in 1..Len(outcomes) : outcomes[j]) =>
     /\ result.kind = "rows"
     /\ Ids(result.rows) = Ids(SelectSeq([j \in 1..Len(requested) |-> [id |-> requested[j], pos |-> j]],
                                         LAMBDA e : outcomes[e.pos]))

\* with no version in the window the caller receives "no data", not an error - and only then
NoData ==
  Done => /\ (Window = <<>>) <=> (result.kind = "none")
          /\ (Window = <<>>) <=> (hresult = "none")
          /\ (Window = <<>>) => (requested = <<>>)

TypeOK ==
  /\ pc \in {"list", "unwind", "listed", "wait", "concat", "got", "done"}
  /\ marker \in 0..NV
  /\ Len(outcomes) <= Len(requested)
=============================================================================
