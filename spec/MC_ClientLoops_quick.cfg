SPECIFICATION Spec
CONSTANTS
  EstimatorSet <- ThreeEstimators
  DistrictKinds <- BothKinds
  EstimandSet <- TwoCounts
  AlphaSet <- Alphas3
  AggSet <- Aggs4
  MaxEsts = 2
  MaxAlphas = 2
  MaxAggs = 3
  Export = FALSE
  LoopOrder = "estimand_outer"
  CacheSlots = "per_alpha"
  CacheRead = "requested"
  PredRead = "own"
  UnitCategoryInMergeKeys = TRUE
  DistrictInMergeKeys = TRUE
  ReportingInMergeKeys = TRUE
INVARIANT ReadsOwn
INVARIANT NoStaleColumn
INVARIANT CellFunctional
INVARIANT StableKeys
CHECK_DEADLOCK FALSE
