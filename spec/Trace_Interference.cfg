SPECIFICATION TSpec
INVARIANT PairOK
INVARIANT HistoricalOK
CONSTRAINT Finished
POSTCONDITION PostOK
CHECK_DEADLOCK FALSE
