SPECIFICATION TSpec
CONSTANTS
  Estimators <- AllEstimators
  ArgIds <- TwoArgs
  DefaultArgIds <- DefaultA
  HashSeeds <- AnyHash
  SigmaSeeded = TRUE
  SplitSeeded = TRUE
  BootSeeded = TRUE
  FreshModelPerCall = TRUE
  DefaultsUntouched = TRUE
  OrderedIteration = TRUE
  SummaryStateless = TRUE
  WeightsRebuilt = TRUE
  FeedCopied = TRUE
  OutlierColumnsOwn = TRUE
INVARIANT CallOK
INVARIANT AbstractFunctional
CONSTRAINT Finished
POSTCONDITION PostOK
CHECK_DEADLOCK FALSE
