SPECIFICATION Spec
INVARIANT Ordered
INVARIANT MarginWithinNaive
INVARIANT ObservedMarginInside
INVARIANT ExtrapolationInside
INVARIANT MarginNarrows
CONSTRAINT ExportDone
CHECK_DEADLOCK FALSE
