------------------------------ MODULE Persistence ------------------------------
(***************************************************************************)
(* C18.  What one estimate run of ModelClient persists, and in which order.*)
(*                                                                         *)
(* One action per code step of client.get_estimates (in code order) and of *)
(* client.get_national_summary_votes_estimates:                            *)
(*   SaveConfigLocal  ConfigHandler(save = "config" in save_output)        *)
(*                    -> local file config/<election>.json                 *)
(*   SaveDataLocal    PreprocessedDataHandler.save_data if "data" asked    *)
(*                    -> local file data/<election>/<office>/data_<gut>.csv*)
(*   PutLive          CombinedDataHandler.write_data (two keys: the live   *)
(*                    results and the county-only copy) iff APP_ENV is not *)
(*                    "local" and "results" asked -- BEFORE the gate       *)
(*   Gate             minimum-reporting-units check; "fail" ends the run   *)
(*                    with ModelNotEnoughSubunitsException                 *)
(*   AggIntervals     model.get_aggregate_prediction_intervals for one     *)
(*                    (estimand, requested non-unit aggregate, alpha), in  *)
(*                    the client's loop order.  Only the gaussian estimator*)
(*                    writes here: the OUTERMOST call of the recursive     *)
(*                    GaussianModel.fit puts conformalization data and     *)
(*                    bounds (two keys) iff "conformalization" was asked.  *)
(*                    Deliberately NOT env-gated (code and property agree).*)
(*   PutTables        ModelResultsHandler.write_data: one key per returned *)
(*                    table, requested non-unit aggregates in request      *)
(*                    order, unit_data last; iff remote and "results"      *)
(*   PutNatSum        national summary call (bootstrap only, after a run   *)
(*                    that passed the gate): key nat_sum_data iff remote   *)
(*                    and "results"                                        *)
(*                                                                         *)
(* A put is a record [kind, est, agg, alpha, table, ws, under]:            *)
(*   kind   live | live_counties | conformalization | bounds | table |     *)
(*          natsum | evaluation                                            *)
(*   ws     the key contains whitespace                                    *)
(*   under  the key is a path under <root>/<election id>/                  *)
(* F7 = TRUE models the code as found before commit cfb172b (a line        *)
(* continuation inside an f-string put 12 blanks into both gaussian keys). *)
(***************************************************************************)
EXTENDS Integers, Sequences, FiniteSets, TLC

CONSTANTS F7

VARIABLES sc,      \* scenario: [opts, env, estimator, gate, natsum, estimands, aggs, alphas]
          phase,   \* config data live gate model tables natsum final failed
          puts,    \* sequence of put records (remote storage), in order
          files,   \* set of local file kinds written: subset of {"config", "data"}
          ei, ai, li   \* loop indices of the client's estimand / aggregate / alpha loops
pvars == <<sc, phase, puts, files, ei, ai, li>>

Options == {"results", "data", "config", "conformalization"}
NA == "-"

SeqToSet(s) == {s[i] : i \in DOMAIN s}
IsNonUnit(a) == a # "unit"
NonUnit(aggs) == SelectSeq(aggs, IsNonUnit)
TableOf(a) == CASE a = "postal_code" -> "state_data"
                [] a = "county_fips" -> "county_data"
                [] a = "district" -> "district_data"
                [] a = "county_classification" -> "classification_data"
                [] a = "unit" -> "unit_data"
\* the tables get_estimates returns, in the order of final_results
TablesOf(s) == [i \in 1..Len(NonUnit(s.aggs)) |-> TableOf(NonUnit(s.aggs)[i])]
               \o (IF "unit" \in SeqToSet(s.aggs) THEN <<"unit_data">> ELSE <<>>)

Remote(s) == s.env # "local"
SaveResults(s) == "results" \in s.opts /\ Remote(s)
SaveConf(s) == "conformalization" \in s.opts /\ s.estimator = "gaussian"

Put(kind, e, a, l, t) ==
  [kind |-> kind, est |-> e, agg |-> a, alpha |-> l, table |-> t,
   ws |-> (F7 /\ kind \in {"conformalization", "bounds"}), under |-> TRUE]
LivePuts == <<Put("live", NA, NA, NA, NA), Put("live_counties", NA, NA, NA, NA)>>
TablePuts(s) == [i \in 1..Len(TablesOf(s)) |-> Put("table", NA, NA, NA, TablesOf(s)[i])]
NatSumPut == Put("natsum", NA, NA, NA, "nat_sum_data")

---------------------------------------------------------------------------
SaveConfigLocal ==
  /\ phase = "config"
  /\ files' = IF "config" \in sc.opts THEN files \cup {"config"} ELSE files
  /\ phase' = "data"
  /\ UNCHANGED <<sc, puts, ei, ai, li>>

SaveDataLocal ==
  /\ phase = "data"
  /\ files' = IF "data" \in sc.opts THEN files \cup {"data"} ELSE files
  /\ phase' = "live"
  /\ UNCHANGED <<sc, puts, ei, ai, li>>

PutLive ==
  /\ phase = "live"
  /\ puts' = IF SaveResults(sc) THEN puts \o LivePuts ELSE puts
  /\ phase' = "gate"
  /\ UNCHANGED <<sc, files, ei, ai, li>>

Gate ==
  /\ phase = "gate"
  /\ phase' = IF sc.gate = "fail" THEN "failed"
              ELSE IF Len(NonUnit(sc.aggs)) = 0 THEN "tables" ELSE "model"
  /\ UNCHANGED <<sc, puts, files, ei, ai, li>>

\* for estimand ei: ... for aggregate ai: for alpha li: get_aggregate_prediction_intervals
AggIntervals ==
  /\ phase = "model"
  /\ puts' = IF SaveConf(sc)
             THEN puts \o <<Put("conformalization", sc.estimands[ei], NonUnit(sc.aggs)[ai], sc.alphas[li], NA),
                            Put("bounds", sc.estimands[ei], NonUnit(sc.aggs)[ai], sc.alphas[li], NA)>>
             ELSE puts
  /\ IF li < Len(sc.alphas) THEN li' = li + 1 /\ UNCHANGED <<ai, ei, phase>>
     ELSE IF ai < Len(NonUnit(sc.aggs)) THEN li' = 1 /\ ai' = ai + 1 /\ UNCHANGED <<ei, phase>>
     ELSE IF ei < Len(sc.estimands) THEN li' = 1 /\ ai' = 1 /\ ei' = ei + 1 /\ UNCHANGED phase
     ELSE phase' = "tables" /\ UNCHANGED <<ei, ai, li>>
  /\ UNCHANGED <<sc, files>>

PutTables ==
  /\ phase = "tables"
  /\ puts' = IF SaveResults(sc) THEN puts \o TablePuts(sc) ELSE puts
  /\ phase' = IF sc.natsum THEN "natsum" ELSE "final"
  /\ UNCHANGED <<sc, files, ei, ai, li>>

PutNatSum ==
  /\ phase = "natsum"
  /\ puts' = IF SaveResults(sc) THEN Append(puts, NatSumPut) ELSE puts
  /\ phase' = "final"
  /\ UNCHANGED <<sc, files, ei, ai, li>>

PNext == SaveConfigLocal \/ SaveDataLocal \/ PutLive \/ Gate \/ AggIntervals \/ PutTables \/ PutNatSum

PInitRest == phase = "config" /\ puts = <<>> /\ files = {} /\ ei = 1 /\ ai = 1 /\ li = 1

\* scenarios that make sense: the national summary exists only for the bootstrap estimator after a completed run
WellFormed(s) ==
  /\ s.opts \subseteq Options
  /\ s.natsum => (s.estimator = "bootstrap" /\ s.gate = "pass")
  /\ Len(s.estimands) >= 1 /\ Len(s.alphas) >= 1 /\ Len(s.aggs) >= 1

---------------------------------------------------------------------------
(* C18, written over (scenario, put sequence, local files, phase) so that the trace specification can evaluate
   the very same formulas on what the real client did. *)
Kinds(p) == {p[i].kind : i \in DOMAIN p}
LiveKinds == {"live", "live_counties"}
ResultKinds == {"live", "live_counties", "table", "natsum"}
ConfKinds == {"conformalization", "bounds"}
Count(p, k) == Cardinality({i \in DOMAIN p : p[i].kind = k})

OnlyWhatAskedOf(s, p, f, ph) ==
  \* nothing asked -> nothing written anywhere
  /\ s.opts = {} => (p = <<>> /\ f = {})
  \* 'data' / 'config' only create local files, and only their own
  /\ s.opts \subseteq {"data", "config"} => p = <<>>
  /\ f \subseteq (s.opts \cap {"data", "config"})
  /\ ph \in {"final", "failed"} => f = s.opts \cap {"data", "config"}
  \* results: only when asked and only outside the local environment
  /\ \A i \in DOMAIN p : p[i].kind \in ResultKinds => ("results" \in s.opts /\ Remote(s))
  \* conformalization data only when requested
  /\ \A i \in DOMAIN p : p[i].kind \in ConfKinds => "conformalization" \in s.opts
  /\ \A i \in DOMAIN p : p[i].kind \in ResultKinds \cup ConfKinds
  \* a completed run that was asked for results: the live results and exactly one put per returned table
  /\ (ph = "final" /\ SaveResults(s)) =>
        /\ Count(p, "live") = 1 /\ Count(p, "live_counties") = 1
        /\ SelectSeq(p, LAMBDA x : x.kind = "table") = TablePuts(s)
        /\ Count(p, "natsum") = (IF s.natsum THEN 1 ELSE 0)
  \* a completed gaussian run asked for conformalization data: one pair per estimand x aggregate x level
  /\ (ph = "final" /\ SaveConf(s)) =>
        /\ Count(p, "conformalization") = Len(s.estimands) * Len(NonUnit(s.aggs)) * Len(s.alphas)
        /\ Count(p, "bounds") = Count(p, "conformalization")
  /\ ~SaveConf(s) => Kinds(p) \cap ConfKinds = {}

SaveThenFailOf(s, p, ph) ==
  ph = "failed" =>
    /\ SaveResults(s) => p = LivePuts
    /\ ~SaveResults(s) => p = <<>>

OrderOf(p) ==
  \* the live keys precede everything else; the national summary follows the tables
  /\ \A i, j \in DOMAIN p : (i < j /\ p[j].kind \in LiveKinds) => p[i].kind \in LiveKinds
  /\ \A i, j \in DOMAIN p : (i < j /\ p[i].kind = "natsum") => FALSE
  /\ \A i, j \in DOMAIN p : (i < j /\ p[i].kind = "table") => p[j].kind \in {"table", "natsum"}

KeyShapeOf(p) == \A i \in DOMAIN p : ~p[i].ws /\ p[i].under

OnlyWhatAsked == OnlyWhatAskedOf(sc, puts, files, phase)
SaveThenFail == SaveThenFailOf(sc, puts, phase)
Order == OrderOf(puts)
KeyShape == KeyShapeOf(puts)
Terminal == phase \in {"final", "failed"}
\* the run cannot get stuck before one of its two ends
Progress == Terminal \/ ENABLED PNext
=============================================================================
