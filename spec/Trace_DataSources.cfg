SPECIFICATION TSpec
CONSTANTS
  States = {"AA", "BB"}
  MaxVer = 1000
  MaxRuns = 1000
INVARIANT RunObserved
INVARIANT TDataWithin
CONSTRAINT Finished
POSTCONDITION PostOK
CHECK_DEADLOCK FALSE
