SPECIFICATION Spec
CONSTANTS
  F7 = FALSE
  Export = TRUE
  ShapeMode = "all"
CONSTRAINT ExportDone
INVARIANT OnlyWhatAsked
INVARIANT SaveThenFail
INVARIANT Order
INVARIANT KeyShape
INVARIANT Progress
CHECK_DEADLOCK FALSE
