-------------------------- MODULE MC_ClientHistory --------------------------
(* Bounded universe for ClientHistory: every history of at most MaxCalls calls (estimate runs with 2 argument
   tuples x 3 estimators x {same client, fresh client}, national summaries after bootstrap runs) in at most
   MaxProcs interpreter processes with hash seeds from HashSeeds.  With Export = TRUE every history of exactly
   MaxCalls calls in ONE process is printed for replay into the real client, together with the partition of its
   calls the specification expects (calls in the same class must return identical tables). *)
EXTENDS ClientHistory, Json

CONSTANTS MaxCalls, MaxProcs, Export

AllEstimators == {"nonparametric", "gaussian", "bootstrap"}
TwoArgs == {"A", "B"}
DefaultA == {"A"}
Hash01 == {"0", "1"}
Hash0 == {"0"}

NCalls == Cardinality({i \in DOMAIN hist : hist[i].op # "process"})

Init == \E h \in HashSeeds : HInit(h)

Next ==
  \/ /\ NCalls < MaxCalls
     /\ \/ \E e \in Estimators, a \in ArgIds, fresh \in BOOLEAN :
             /\ (hist = <<>> => ~fresh)          \* the first call runs on the initial (fresh) client anyway
             /\ GetEstimates(e, a, fresh)
        \/ \E sa \in ArgIds : NatSummary(sa)
  \/ /\ proc.id < MaxProcs /\ NCalls < MaxCalls /\ hist # <<>> /\ hist[Len(hist)].op # "process"
     /\ \E h \in HashSeeds : NewProcess(h)

Spec == Init /\ [][Next]_hvars

\* ---- export
\* class of call i = index of the first call of the history with the same key (= the same digest in this design)
KeyOf(ev) == IF ev.op = "summary" THEN NatKey(ev.arg, ev.sarg) ELSE EstKey(ev.est, ev.arg)
ClassOf(i) == CHOOSE j \in 1..i : KeyOf(hist[j]) = KeyOf(hist[i]) /\ \A k \in 1..(j - 1) : KeyOf(hist[k]) # KeyOf(hist[i])
ExportDone ==
  (Export /\ NCalls = MaxCalls) =>
     PrintT(<<"SCEN", ToJson([hist |-> hist, classes |-> [i \in DOMAIN hist |-> ClassOf(i)]])>>)
=============================================================================
