SPECIFICATION TSpec
INVARIANT TEveryUnitOnce
INVARIANT TUnitVotesConserved
INVARIANT TConservation
INVARIANT TLevelsSumToFeed
INVARIANT TNoKeyLost
INVARIANT TReportingIsModelled
INVARIANT ObsUnitTable
INVARIANT ObsGroups
CONSTRAINT Finished
POSTCONDITION PostOK
CHECK_DEADLOCK FALSE
