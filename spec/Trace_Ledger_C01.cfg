SPECIFICATION TSpec
INVARIANT EveryUnitOnce
INVARIANT Conservation
INVARIANT ReportingIsModelled
INVARIANT ObsUnitTable
INVARIANT ObsGroups
CONSTRAINT Finished
POSTCONDITION PostOK
CHECK_DEADLOCK FALSE
