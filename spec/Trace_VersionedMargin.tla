------------------------ MODULE Trace_VersionedMargin ------------------------
(* Validation of recorded real imputations against VersionedMargin (code -> spec).
   The trace file (IOEnv.TRACE_FILE) is a JSON array; each element records the rows that the real
   VersionedDataHandler.compute_versioned_margin_estimate returned for ONE unit:
     sc  : the unit's version history (oldest first: turnout t, dem d, gop g) and the percent of its last version
           as a rational [num, den]
     obs : error_type (kind), number of rows, whether every row is missing, and - for kind "none" - per row the
           percent p and est_margin / nearest_observed_vote / est_correction as rationals [num, den]
           (the recorder maps each float to the rational of denominator <= 10^7 within 1e-12 of it; a float that
           is not that close to one is logged in thousand-millionths and matches nothing)
   The code-shaped actions of VersionedMargin are executed on sc; in the terminal state the declarative clauses of
   the property are evaluated and the replayed state is compared with obs, clause by clause. *)
EXTENDS VersionedMargin, Json, IOUtils

VARIABLES tid
Traces == JsonDeserialize(IOEnv.TRACE_FILE)
NT == Len(Traces)
Obs == Traces[tid].obs

TInit == tid = 1 /\ sc = Traces[1].sc /\ InitRest
TNext ==
  \/ (Next /\ UNCHANGED tid)
  \/ /\ pc = "done" /\ tid < NT
     /\ tid' = tid + 1
     /\ sc' = Traces[tid + 1].sc
     /\ pc' = "rescale" /\ corr' = <<>> /\ pct' = <<>> /\ batch' = <<>>
     /\ kind' = "pending" /\ nrows' = 0 /\ rows' = <<>>
TSpec == TInit /\ [][TNext]_<<vars, tid>>

Finished == (pc = "done" /\ tid = NT) => TLCSet(1, TRUE)
PostOK == TLCGet(1) = TRUE

Mark(name) == PrintT(<<"FAIL", ToJson([tid |-> tid, clause |-> name])>>)
Chk(name, cond) == cond \/ (Mark(name) /\ FALSE)

\* ---- the declarative clauses on the replayed state
TRegularYieldsRows == Chk("regular_yields_rows_model", RegularYieldsRows)
TConvex        == Chk("convex_model", Convex)
TBounded       == Chk("bounded_model", Bounded)
TBeforeFirst   == Chk("before_first_model", BeforeFirst)
TEveryPercent  == Chk("every_percent_model", EveryPercent)
TCorrectionDef == Chk("correction_def_model", CorrectionDef)
TNearestDef    == Chk("nearest_def_model", NearestDef)
TAllMissing    == Chk("all_missing_model", AllMissing)
TNeverUsed     == Chk("never_used_model", NeverUsed)

\* ---- the recorded rows are the rows of the specification
ObsKind ==
  Done => Chk(IF Regular THEN "regular_yields_rows" ELSE "irregular_all_missing", Obs.kind = kind)

ObsMissing ==
  (Done /\ kind # "none" /\ Obs.kind = kind) =>
     Chk("irregular_all_missing", Obs.nrows = 101 /\ Obs.missing_all /\ Len(Obs.rows) = 0)

ObsRows ==
  (Done /\ kind = "none" /\ Obs.kind = "none") =>
     /\ Chk("every_percent", Obs.nrows = nrows /\ Len(Obs.rows) = Len(rows))
     /\ \A k \in 1..Len(rows) :
          k <= Len(Obs.rows) =>
            LET o == Obs.rows[k] IN
            /\ Chk("every_percent", o.p = rows[k].p)
            /\ Chk("est_margin", o.est = rows[k].est)
            /\ Chk("correction_def", o.corr = rows[k].corr)
            /\ Chk("nearest_observed", o.nearest = rows[k].nearest)
=============================================================================
