--------------------------- MODULE MC_Eligibility ---------------------------
(* C09: eligibility at exact boundaries.  Scenario units carry NUMBERS (feed turnout/dem/gop, baseline
   turnout/dem/gop, percent expected vote); the flags Ledger works with (rep, zeroBase, tfStrange) and the derived
   quantities (weights, margin, normalised margin, turnout factor) are defined here by exact integer/rational
   arithmetic, following Estimandizer and CombinedDataHandler.  TLC enumerates every combination of boundary
   classes; the terminal states are exported and replayed into the real CombinedDataHandler.get_units. *)
EXTENDS Ledger, Json

CONSTANTS NUnits, Policies, Limits, Thresholds, Margins, FeedT, BaseT, Pevs, Export

\* limits and thresholds are given by index into these tables (cfg files cannot hold tuples)
LimitTable == << [loN |-> 1, loD |-> 2, hiN |-> 2, hiD |-> 1],      \* the defaults 0.5 / 2.0
                 [loN |-> 3, loD |-> 4, hiN |-> 3, hiD |-> 2],      \* custom 0.75 / 1.5
                 [loN |-> 0, loD |-> 1, hiN |-> 100, hiD |-> 1] >>  \* "extreme" limits used by the repo's own tests

Presence == {"both", "baseOnly", "feedOnly"}
Blocks   == {"none", "unit", "state"}

\* numbers of one unit
NumSpace == [pres : Presence, t : FeedT, bt : BaseT, pev : Pevs, blk : Blocks, st : {"S1", "S2"}]

Dem(t) == (3 * t) \div 4
Gop(t) == t \div 4

RWeights(n, isM) == IF isM THEN Dem(n.t) + Gop(n.t) ELSE n.t
BWeights(n, isM) == IF isM THEN Dem(n.bt) + Gop(n.bt) ELSE n.bt

\* turnout factor as a rational <<num, den>>, 0 when the baseline weights are 0 (Estimandizer.add_turnout_factor);
\* a baseline unit that is missing from the feed has no results: factor 0
TF(n, isM) == IF n.pres = "baseOnly" \/ BWeights(n, isM) = 0 THEN <<0, 1>> ELSE <<RWeights(n, isM), BWeights(n, isM)>>
\* strictly inside (lo, hi):  lo < a/b < hi  <=>  loN*b < a*loD  /\  a*hiD < hiN*b   (b > 0)
Inside(tf, lim) == lim.loN * tf[2] < tf[1] * lim.loD /\ tf[1] * lim.hiD < lim.hiN * tf[2]

NMargin(t) == IF Dem(t) + Gop(t) = 0 THEN <<0, 1>> ELSE <<Dem(t) - Gop(t), Dem(t) + Gop(t)>>

MkUnit(i, n, thr, lim, isM) ==
  [ inBase    |-> n.pres # "feedOnly",
    inFeed    |-> n.pres # "baseOnly",
    bstate    |-> IF n.pres = "feedOnly" THEN NA ELSE n.st,
    fstate    |-> n.st,
    county    |-> IF n.pres = "feedOnly" THEN NA ELSE "c1",
    cls       |-> IF n.pres = "feedOnly" THEN NA ELSE "k1",
    district  |-> IF n.pres = "feedOnly" THEN NA ELSE "d1",
    idCounty  |-> "c1", idDistrict |-> "d1",
    rep       |-> n.pev >= thr,
    votes     |-> IF n.pres = "baseOnly" THEN 0 ELSE (IF isM THEN Dem(n.t) - Gop(n.t) ELSE n.t),
    blockUnit |-> n.blk = "unit",
    zeroBase  |-> BWeights(n, isM) = 0,
    tfStrange |-> ~Inside(TF(n, isM), lim),
    nullRes |-> FALSE, outlierT  |-> FALSE, outlierM |-> FALSE,
    kind      |-> "num", pt |-> 0, pm |-> 0, pred |-> 0, lower |-> <<>>, upper |-> <<>>,
    \* the numbers, for the materialiser
    num       |-> n,
    \* derived quantities the real frames must show
    tf        |-> TF(n, isM),
    rweights  |-> IF n.pres = "baseOnly" THEN 0 ELSE RWeights(n, isM),
    bweights  |-> BWeights(n, isM),
    nmargin   |-> IF n.pres = "baseOnly" THEN <<0, 1>> ELSE NMargin(n.t) ]

Init ==
  /\ \E nums \in [1..NUnits -> NumSpace] :
     \E pol \in Policies, li \in Limits, thr \in Thresholds, isM \in Margins :
       sc = [ extraRep |-> 0, optT |-> FALSE, optM |-> FALSE, isMargin |-> isM, policy |-> pol,
              districtOffice |-> FALSE, districtGut |-> FALSE, levels |-> <<"postal_code", "county_fips">>,
              blockStates |-> IF \E i \in 1..NUnits : nums[i].blk = "state" THEN <<"S2">> ELSE <<>>,
              nalpha |-> 0, order |-> <<"S1", "S2", "c1", "d1", "k1">>,
              thr |-> thr, limits |-> LimitTable[li],
              units |-> [i \in 1..NUnits |->
                          MkUnit(i, IF nums[i].blk = "state" THEN [nums[i] EXCEPT !.st = "S2"] ELSE nums[i],
                                 thr, LimitTable[li], isM)] ]
  /\ InitRest

Spec == Init /\ [][Next]_vars

ExpectedJson ==
  [i \in Ids |->
     [ frame |-> IF i \in fR THEN "R" ELSE IF i \in fN THEN "N" ELSE IF i \in fX THEN "X" ELSE "absent",
       cat   |-> IF i \in DOMAIN utable THEN utable[i].cat ELSE "-",
       state |-> IF i \in DOMAIN utable THEN utable[i].state ELSE "-" ]]
ExportDone == (Export /\ pc = "done") => PrintT(<<"SCEN", ToJson([sc |-> sc, expect |-> ExpectedJson])>>)

\* the eligibility rule of the property text, in numbers
NumEligibility ==
  Done => \A i \in Ids :
    LET u == Un(i)  n == u.num
        present == u.inBase /\ (sc.policy = "zero" \/ u.inFeed)
        atThr   == u.inFeed /\ n.pev >= sc.thr
        blocked == u.blockUnit \/ u.bstate \in Rng(sc.blockStates)
    IN  /\ (i \in fR <=> (present /\ atThr /\ ~blocked /\ u.bweights # 0 /\ Inside(u.tf, sc.limits)))
        /\ (i \in fN <=> (present /\ ~atThr /\ ~blocked /\ u.bweights # 0))
        /\ (i \in fX <=> (u.inFeed \/ present) /\ i \notin fR /\ i \notin fN)
        /\ (~u.inFeed /\ sc.policy = "drop" => i \notin DOMAIN utable)
=============================================================================
