SPECIFICATION TSpec
CONSTANTS
  Estimators <- AllEstimators
  ArgIds <- TwoArgs
  DefaultArgIds <- DefaultA
  HashSeeds <- AnyHash
  SigmaSeeded = FALSE
  SplitSeeded = TRUE
  BootSeeded = TRUE
  FreshModelPerCall = TRUE
  DefaultsUntouched = TRUE
  OrderedIteration = TRUE
  SummaryStateless = TRUE
  WeightsRebuilt = TRUE
  FeedCopied = TRUE
  OutlierColumnsOwn = TRUE
INVARIANT CallOK
CONSTRAINT Finished
POSTCONDITION PostOK
CHECK_DEADLOCK FALSE
