-------------------------- MODULE Trace_ClientLoops --------------------------
(* C13, code -> spec.  IOEnv.TRACE_FILE holds one record per REAL get_estimates run of a request chosen by TLC:
     group   estimator | office kind | election: the runs of one group see the same election (complete feed)
     req     the request (estimator, district office?, estimands, interval levels, aggregate levels; in order)
     events  the calls the client made on the model object and the results handler, in order (runtime wrappers),
             for the gaussian estimator with the keys of the alpha -> bounds cache each call wrote / read
     tables  level -> columns of the returned table (parsed into the column records of ClientLoops)
     cells   "group/level/column" -> token of the column's values by row key
   For every record the loop nest of ClientLoops is executed on `req`, one action per recorded call:
     * EventOK: the next recorded call is the call the specification makes next (loop order, arguments), the
       gaussian cache is written under the slot of the call's alpha and read from the slot ClientLoops reads,
       whose last writer is the estimand of the call (ReadsOwn on the real object);
     * the specification's own invariants hold on the way (ReadsOwn, NoStaleColumn, CellFunctional, StableKeys);
     * at the end the returned tables have exactly the columns of the specification's terminal state, their
       key / category columns are the expected ones with nothing suffixed (StableKeys on the real tables);
     * `memo` (carried across the records of the file) binds every cell to the first token seen for it: the same
       cell must have the same token in every request that contains it (CellFunctional on the real tables). *)
EXTENDS ClientLoops, Json, IOUtils

VARIABLES tid, k, memo
Traces == JsonDeserialize(IOEnv.TRACE_FILE)
NT == Len(Traces)
T == Traces[tid]
Events == T.events

tvars == <<lvars, tid, k, memo>>

\* JSON arrays -> the request record of ClientLoops
ReqOf(r) == [estimator |-> r.estimator, district |-> r.district, ests |-> r.ests, alphas |-> r.alphas, aggs |-> r.aggs]

TInit == tid = 1 /\ k = 1 /\ memo = <<>> /\ req = ReqOf(Traces[1].req) /\ LInitRest

NewCells == DOMAIN T.cells
TNext ==
  \/ /\ ~Done /\ LNext /\ k' = k + 1 /\ UNCHANGED <<tid, memo>>
  \/ /\ Done /\ tid < NT
     /\ tid' = tid + 1 /\ k' = 1
     /\ memo' = [x \in DOMAIN memo \cup NewCells |-> IF x \in DOMAIN memo THEN memo[x] ELSE [tok |-> T.cells[x], tid |-> tid]]
     /\ LStart(ReqOf(Traces[tid + 1].req))
TSpec == TInit /\ [][TNext]_tvars

Finished == (tid = NT /\ Done) => TLCSet(1, TRUE)
PostOK == TLCGet(1) = TRUE

Mark(name) == PrintT(<<"FAIL", ToJson([tid |-> tid, clause |-> name, k |-> k])>>)
Chk(name, cond) == cond \/ (Mark(name) /\ FALSE)
Adv(name, cond) == cond \/ PrintT(<<"ADVISORY", ToJson([tid |-> tid, clause |-> name])>>)

Gaussian == req.estimator = "gaussian"
Ev == Events[k]
\* the recorded call that comes next is the call ClientLoops makes next
\* The sequence of calls (loop order, cache discipline) is the MECHANISM that makes C13 hold in this code base; the
\* property itself speaks about the returned cells and key columns only (CellsOK, TablesOK).  A recorded call that the
\* modelled loop nest does not explain is therefore reported as advisory drift, not as a violation.
EventOK ==
  IF Done
  THEN /\ Chk("run_completed", T.status = "ok")
       /\ Adv("calls_after_the_loop_nest", k = Len(Events) + 1)
  ELSE /\ Adv("loop_nest_ended_early", k <= Len(Events))
       /\ k <= Len(Events) =>
            /\ Adv("loop_order", Ev.op = Cur.op /\ Ev.e = Cur.e)
            /\ Adv("loop_alpha", Ev.a = Cur.a)
            /\ (pc \in {"apred", "aint"} => Adv("aggregate_key_list", Ev.gl = AggList(G)))
            /\ (pc = "aadd" => Adv("aggregate_level", Ev.g = G))
            /\ (Gaussian /\ pc = "uint") => Adv("cache_written_under_own_alpha", Ev.cw = <<Slot(A)>>)
            /\ (Gaussian /\ pc = "aint") =>
                 /\ Adv("cache_read_under_own_alpha", Ev.cr = <<ReadSlot(A)>>)
                 /\ Adv("cache_entry_written_for_this_estimand", gcache[ReadSlot(A)] = [e |-> E, a |-> A])
            /\ (~(Gaussian /\ pc \in {"uint", "aint"}) => Adv("unexpected_cache_access", Ev.cw = <<>> /\ Ev.cr = <<>>))

\* the specification's invariants while it explains the run
TReadsOwn == Chk("spec_reads_own", ReadsOwn)
TNoStaleColumn == Chk("spec_no_stale_column", NoStaleColumn)
TCellFunctional == Chk("spec_cell_functional", CellFunctional)
TStableKeys == Chk("spec_stable_keys", StableKeys)

\* the returned tables
ObsCols(l) == T.tables[l]
TablesOK ==
  (Done /\ T.status = "ok") =>
    /\ Chk("tables_returned", DOMAIN T.tables = DOMAIN tables)
    /\ \A l \in DOMAIN tables \cap DOMAIN T.tables :
         /\ Chk("stable_keys", StableKeysOf(l, ObsCols(l)))
         /\ Chk("reported_columns", RangeOf(ObsCols(l)) = RangeOf(tables[l]) /\ Len(ObsCols(l)) = Len(tables[l]))

\* one token per cell, whatever else was requested
CellsOK ==
  (Done /\ T.status = "ok") =>
    \A x \in NewCells : x \in DOMAIN memo => Chk("cell_functional", memo[x].tok = T.cells[x])
=============================================================================
