------------------------- MODULE MC_NationalSummary -------------------------
EXTENDS NationalSummary, Json
CONSTANTS CSet, PVals, DVals, Bases, Histories, Modes, SizeOffsets, Export

PV == {-6, -1, 1, 6}
PV_Small == {-6, 1}
DV == {-4, 4}
H_All == { <<"top">>, <<"top", "county">>, <<"county", "top">>, <<"top", "county", "class">>,
           <<"class", "top", "county">>, <<"county", "class", "top">> }
H_Top == { <<"top">> }
SO_All == {0, 1}
SO_None == {0}

Draws == [1..B -> DVals]
\* distinct weights make the contests distinguishable in every sum
Weights == [c \in CSet |-> CASE c = "AA" -> 3 [] c = "BB" -> 5 [] OTHER -> 7]
DV_One == {4}
Init ==
  /\ \E p \in [CSet -> PVals], b1 \in [CSet -> Draws], b2 \in [CSet -> Draws], w \in {Weights} :
     \E l \in SUBSET CSet, r \in SUBSET CSet, s \in SUBSET CSet :
     \E corr \in Modes, base \in Bases, h \in Histories, so \in SizeOffsets :
       /\ l \cap r = {}
       /\ ns = [p |-> p, b1 |-> b1, b2 |-> b2, w |-> w, lhs |-> l, rhs |-> r, stop |-> s, corr |-> corr,
                base |-> base, history |-> h, hist0 |-> h, nweights |-> Cardinality(CSet) + so]
  /\ NInitRest
Spec == Init /\ [][NNext]_nvars

\* all admissible results of a scenario are exported once, from the state before Summary
ExportDone ==
  (Export /\ npc = "aggregates" /\ ns.history = <<>> /\ held = "top" /\ ns.nweights = Cardinality(Contests)) =>
     PrintT(<<"SCEN", ToJson([ns |-> ns, candidates |-> Candidates])>>)
=============================================================================
