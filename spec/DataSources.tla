----------------------------- MODULE DataSources -----------------------------
(***************************************************************************)
(* Supplementary model (no listed property): where a run's configuration   *)
(* and baseline ("preprocessed") data come from, and what the save options *)
(* leave behind for LATER runs:                                            *)
(*   ConfigHandler.__init__ / get_config / save / get_features,            *)
(*   PreprocessedDataHandler.__init__ / get_data / select_rows_in_states / *)
(*   save_data, and the statements of ModelClient.get_estimates that call  *)
(*   them (client.py, "Getting config" ... "Getting combined data").       *)
(*                                                                         *)
(* State that outlives a run: the remote store (one config object and one  *)
(* data object), the local working directory (config/<id>.json and         *)
(* data/<id>/<office>/data_<type>.csv) and the caller's own config         *)
(* dictionary, which the caller may hand in again.                          *)
(* One action per statement; the environment may publish new versions and  *)
(* clean the working directory between runs.                                *)
(***************************************************************************)
EXTENDS Integers, Sequences, FiniteSets, TLC

CONSTANTS States,      \* e.g. {"AA", "BB"}
          MaxVer,      \* versions 1..MaxVer of remote objects
          MaxRuns      \* bound on runs per behaviour

NoneV == [kind |-> "none"]
\* a configuration: version, the states of the office, how often the name of the implied feature was appended to its
\* feature list (0 for a configuration as published)
Cfg(v, ss, k) == [kind |-> "cfg", ver |-> v, states |-> ss, extra |-> k]
\* baseline data: version, the states that have rows, whether the derived columns (weights, last_election_results_*)
\* are already in it
Dat(v, ss, p) == [kind |-> "data", ver |-> v, states |-> ss, processed |-> p]

VARIABLES
  s3cfg, s3data,         \* remote objects (NoneV when missing)
  localcfg, localdata,   \* files of the working directory (NoneV when missing)
  caller,                \* the caller's own configuration dictionary (an object that get_features can mutate)
  req,                   \* the call in flight: [cfgArg : "none" | "empty" | "own", dataArg : NoneV or Dat, saveCfg, saveData]
  cfg, data,             \* what the run holds
  cfgFrom, dataFrom,     \* "arg" | "local" | "remote"  (history, for the properties)
  pc, runs
dvars == <<s3cfg, s3data, localcfg, localdata, caller, req, cfg, data, cfgFrom, dataFrom, pc, runs>>

Idle == pc = "idle"

------------------------------------------------------------------------------
\* environment
PublishConfig(v, ss) ==
  /\ Idle /\ s3cfg' = Cfg(v, ss, 0)
  /\ UNCHANGED <<s3data, localcfg, localdata, caller, req, cfg, data, cfgFrom, dataFrom, pc, runs>>
PublishData(v, ss) ==
  /\ Idle /\ s3data' = Dat(v, ss, FALSE)
  /\ UNCHANGED <<s3cfg, localcfg, localdata, caller, req, cfg, data, cfgFrom, dataFrom, pc, runs>>
CleanWorkdir ==
  /\ Idle /\ (localcfg # NoneV \/ localdata # NoneV)
  /\ localcfg' = NoneV /\ localdata' = NoneV
  /\ UNCHANGED <<s3cfg, s3data, caller, req, cfg, data, cfgFrom, dataFrom, pc, runs>>
\* the caller builds a fresh dictionary (otherwise the next run re-uses the one it holds)
CallerRebuilds(v, ss) ==
  /\ Idle /\ caller' = Cfg(v, ss, 0)
  /\ UNCHANGED <<s3cfg, s3data, localcfg, localdata, req, cfg, data, cfgFrom, dataFrom, pc, runs>>

------------------------------------------------------------------------------
\* one run of get_estimates, statement by statement
Begin(r) ==
  /\ Idle /\ runs < MaxRuns
  /\ req' = r /\ pc' = "config" /\ runs' = runs + 1
  /\ cfg' = NoneV /\ data' = NoneV /\ cfgFrom' = "none" /\ dataFrom' = "none"
  /\ UNCHANGED <<s3cfg, s3data, localcfg, localdata, caller>>

\* ConfigHandler.__init__:  `if config:` - an EMPTY dictionary counts as no argument
ResolveConfig ==
  /\ pc = "config"
  /\ IF req.cfgArg = "own" THEN cfg' = caller /\ cfgFrom' = "arg" /\ pc' = "save_config"
     ELSE IF localcfg # NoneV THEN cfg' = localcfg /\ cfgFrom' = "local" /\ pc' = "save_config"
     ELSE IF s3cfg # NoneV THEN cfg' = s3cfg /\ cfgFrom' = "remote" /\ pc' = "save_config"
     ELSE cfg' = NoneV /\ cfgFrom' = "none" /\ pc' = "failed"          \* the remote get raises
  /\ UNCHANGED <<s3cfg, s3data, localcfg, localdata, caller, req, data, dataFrom, runs>>

SaveConfig ==
  /\ pc = "save_config"
  /\ localcfg' = IF req.saveCfg THEN cfg ELSE localcfg
  /\ pc' = "validate"
  /\ UNCHANGED <<s3cfg, s3data, localdata, caller, req, cfg, data, cfgFrom, dataFrom, runs>>

\* _check_input_parameters calls get_features once; for a general election id it appends the implied feature to the
\* list INSIDE the configuration object (`features += [...]`): the object the run holds - and, when it came from the
\* caller, the caller's dictionary - grows by one entry per run
Validate ==
  /\ pc = "validate"
  /\ cfg' = [cfg EXCEPT !.extra = @ + 1]
  /\ caller' = IF cfgFrom = "arg" THEN [caller EXCEPT !.extra = @ + 1] ELSE caller
  /\ pc' = "data"
  /\ UNCHANGED <<s3cfg, s3data, localcfg, localdata, req, data, cfgFrom, dataFrom, runs>>

\* PreprocessedDataHandler.__init__:  `if data is not None` ; load_data adds the derived columns
ResolveData ==
  /\ pc = "data"
  /\ LET src == IF req.dataArg # NoneV THEN <<req.dataArg, "arg">>
                ELSE IF localdata # NoneV THEN <<localdata, "local">>
                ELSE IF s3data # NoneV THEN <<s3data, "remote">>
                ELSE <<NoneV, "none">>
     IN  IF src[1] = NoneV THEN data' = NoneV /\ dataFrom' = "none" /\ pc' = "failed"
         ELSE data' = [src[1] EXCEPT !.processed = TRUE] /\ dataFrom' = src[2] /\ pc' = "filter"
  /\ UNCHANGED <<s3cfg, s3data, localcfg, localdata, caller, req, cfg, cfgFrom, runs>>

FilterStates ==
  /\ pc = "filter"
  /\ data' = [data EXCEPT !.states = @ \cap cfg.states]
  /\ pc' = "save_data"
  /\ UNCHANGED <<s3cfg, s3data, localcfg, localdata, caller, req, cfg, cfgFrom, dataFrom, runs>>

\* save_data writes the frame the run works on: derived columns included, other states' rows gone
SaveData ==
  /\ pc = "save_data"
  /\ localdata' = IF req.saveData THEN data ELSE localdata
  /\ pc' = "combine"
  /\ UNCHANGED <<s3cfg, s3data, localcfg, caller, req, cfg, data, cfgFrom, dataFrom, runs>>

\* the run goes on with (cfg, data); nothing below this point touches the stores modelled here
Combine ==
  /\ pc \in {"combine", "failed"}
  /\ pc' = "idle"
  /\ UNCHANGED <<s3cfg, s3data, localcfg, localdata, caller, req, cfg, data, cfgFrom, dataFrom, runs>>

RunStep == ResolveConfig \/ SaveConfig \/ Validate \/ ResolveData \/ FilterStates \/ SaveData \/ Combine

DInit ==
  /\ s3cfg = NoneV /\ s3data = NoneV /\ localcfg = NoneV /\ localdata = NoneV
  /\ caller = Cfg(1, States, 0)
  /\ req = [cfgArg |-> "none", dataArg |-> NoneV, saveCfg |-> FALSE, saveData |-> FALSE]
  /\ cfg = NoneV /\ data = NoneV /\ cfgFrom = "none" /\ dataFrom = "none" /\ pc = "idle" /\ runs = 0

------------------------------------------------------------------------------
\* properties
AtCombine == pc = "combine"

\* an argument wins over every store; the working directory wins over the remote store
SourceOrder ==
  AtCombine =>
    /\ (req.cfgArg = "own") = (cfgFrom = "arg")
    /\ (req.dataArg # NoneV) = (dataFrom = "arg")
  \* ("the working directory wins over the remote store" is the action property LocalShadowsRemote below)

\* the run only ever sees rows of the configured states
DataWithinConfiguredStates == AtCombine => data.states \subseteq cfg.states

\* what a saving run leaves behind is what it used
SavedIsUsed ==
  AtCombine => /\ (req.saveData => localdata = data)
               /\ (req.saveCfg => (localcfg.ver = cfg.ver /\ localcfg.states = cfg.states))

\* a run that does not ask for it never changes the working directory; no run changes the remote store
NoSaveNoLocalChange ==
  [][(~Idle /\ ~req.saveCfg => localcfg' = localcfg) /\ (~Idle /\ ~req.saveData => localdata' = localdata)]_dvars
RunsNeverWriteRemote == [][~Idle => (s3cfg' = s3cfg /\ s3data' = s3data)]_dvars
LocalShadowsRemote ==
  [][(pc = "config" /\ req.cfgArg # "own" /\ localcfg # NoneV => cfgFrom' = "local")
     /\ (pc = "data" /\ req.dataArg = NoneV /\ localdata # NoneV => dataFrom' = "local")]_dvars

\* ---- finding demonstrations (these are violated; each counterexample is replayed into the code) ----
\* (a) a run without arguments does not necessarily use the newest published configuration: a saved copy shadows it
FreshestConfigUsed ==
  (AtCombine /\ req.cfgArg # "own" /\ s3cfg # NoneV) => cfg.ver = s3cfg.ver
\* (b) cached data was cut to the states configured when it was saved: a later configuration with more states finds no
\*     rows for them although the published data has them
CachedDataCoversConfig ==
  (AtCombine /\ req.dataArg = NoneV /\ s3data # NoneV) => (s3data.states \cap cfg.states) \subseteq data.states
\* (c) the caller's dictionary is not left as it was handed in
CallerConfigUntouched == caller.extra = 0
=============================================================================
