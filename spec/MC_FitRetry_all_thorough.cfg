SPECIFICATION Spec
CONSTANTS
  F1 = FALSE
  Tol = 1
  Lams = {"zero", "pos"}
  Export = FALSE
  MaxEst = 3
  MaxAlpha = 3

INVARIANT NotFatal
INVARIANT RetryArgs
INVARIANT NoExtraFits
INVARIANT OneCoefficient
INVARIANT Progress
INVARIANT SameTablesLP
CHECK_DEADLOCK FALSE
