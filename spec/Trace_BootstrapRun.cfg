SPECIFICATION TSpec
CONSTANT DistrictMin = 10
INVARIANT AtEnd
CONSTRAINT Finished
POSTCONDITION PostOK
CHECK_DEADLOCK FALSE
