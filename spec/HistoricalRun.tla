---------------------------- MODULE HistoricalRun ----------------------------
(***************************************************************************)
(* Supplementary model (no listed property): one historical evaluation,    *)
(*   HistoricalModelClient.get_historical_evaluation                       *)
(*   (+ _format_historical_current_data, evaluate_historical_estimates,    *)
(*      _write_evaluation),                                                *)
(* statement by statement: configuration, the check that historical        *)
(* elections are prepared, the aggregate list (requested + "unit"), then   *)
(* for every historical election: hide the results of the units that are   *)
(* not yet reporting, run the estimates (an ordinary estimate run with its *)
(* own persistence, see Persistence.tla), evaluate; finally the evaluation *)
(* is written - outside the local environment and when "results" is among  *)
(* the save options.                                                       *)
(*                                                                         *)
(* Named deviations of the code as found (kept as branches of the actions): *)
(*   OnlyRequestedHidden  only the results columns of the REQUESTED         *)
(*                      estimands are blanked; results_turnout is always    *)
(*                      handed on and stays visible unless turnout was      *)
(*                      requested                                           *)
(*   InnerDefaultSaves  without a save_output argument the inner estimate   *)
(*                      runs use THEIR default (["results"]) and write      *)
(*   SaveOptionMissing  ... while this method defaults to False, and        *)
(*                      `"results" in False` raises TypeError outside the   *)
(*                      local environment - after all estimates were run    *)
(*   NotSerialisable    the object handed to the JSON writer contains the   *)
(*                      estimate tables (data frames): asking for "results" *)
(*                      outside the local environment ends in TypeError as  *)
(*                      well - the evaluation is never written              *)
(***************************************************************************)
EXTENDS Integers, Sequences, FiniteSets, TLC

VARIABLES rq,      \* [hist : Seq(id), estimands : Seq, aggs : Seq (requested, may contain "unit"), env : "local" | "remote",
                   \*  save : [given, opts], gate : "pass" | "fail", units : [hist id -> [unit id -> [pev, res : column -> votes]]], thr]
          hpc, hi,  \* program counter and index of the historical election being processed
          aggsUsed, \* self.aggregates
          feeds,    \* per processed historical election: the feed handed to the estimate run  [id -> results]
          puts,     \* remote puts in order: [kind, hist, table, ws]
          result,   \* historical election -> [estimands, tables]  (shape of evaluation)
          outcome   \* "running" | "ok" | "client_error" | "not_enough" | "type_error"
hvars == <<rq, hpc, hi, aggsUsed, feeds, puts, result, outcome>>

SeqToSet(s) == {s[k] : k \in DOMAIN s}
TableOf(a) == CASE a = "postal_code" -> "state_data" [] a = "county_fips" -> "county_data" [] a = "district" -> "district_data"
                [] a = "county_classification" -> "classification_data" [] a = "unit" -> "unit_data"
Asked == rq.save.given /\ "results" \in rq.save.opts
InnerAsked == Asked \/ ~rq.save.given                      \* InnerDefaultSaves
Cols == SeqToSet(rq.estimands) \cup {"turnout"}           \* results columns handed to the estimate run
Hidden(c) == c \in SeqToSet(rq.estimands)                  \* OnlyRequestedHidden
Remote == rq.env = "remote"
Put(kind, h, table, ws) == [kind |-> kind, hist |-> h, table |-> table, ws |-> ws]
H == rq.hist[hi]

CheckPrepared ==
  /\ hpc = "check"
  /\ IF Len(rq.hist) = 0 THEN hpc' = "done" /\ outcome' = "client_error" ELSE hpc' = "aggregates" /\ outcome' = outcome
  /\ UNCHANGED <<rq, hi, aggsUsed, feeds, puts, result>>
\* list(set(requested + ["unit"])): a set - its order is not part of the behaviour
SetAggregates ==
  /\ hpc = "aggregates"
  /\ aggsUsed' = SeqToSet(rq.aggs) \cup {"unit"}
  /\ hpc' = "format" /\ hi' = 1
  /\ UNCHANGED <<rq, feeds, puts, result, outcome>>
\* results of a unit below the reporting threshold are replaced by 0 before the model sees them
Format ==
  /\ hpc = "format"
  /\ feeds' = [x \in DOMAIN feeds \cup {H} |->
                 IF x = H THEN [u \in DOMAIN rq.units[H] |-> [c \in Cols |-> IF rq.units[H][u].pev >= rq.thr \/ ~Hidden(c) THEN rq.units[H][u].res[c] ELSE 0]]
                 ELSE feeds[x]]
  /\ hpc' = "estimate_live"
  /\ UNCHANGED <<rq, hi, aggsUsed, puts, result, outcome>>
\* the estimate run: live results first (before the gate), the tables after it
EstimateLive ==
  /\ hpc = "estimate_live"
  /\ puts' = IF Remote /\ InnerAsked THEN puts \o <<Put("live", H, "-", FALSE), Put("live_counties", H, "-", FALSE)>> ELSE puts
  /\ IF rq.gate = "fail" THEN hpc' = "done" /\ outcome' = "not_enough" ELSE hpc' = "estimate_tables" /\ outcome' = outcome
  /\ UNCHANGED <<rq, hi, aggsUsed, feeds, result>>
TablesInOrder == LET nonunit == SelectSeq(rq.aggs, LAMBDA a : a # "unit") IN [k \in 1..Len(nonunit) |-> TableOf(nonunit[k])] \o <<"unit_data">>
\* (the order of the tables follows self.aggregates, a list made from a set: only the SET of table puts is determined)
EstimateTables ==
  /\ hpc = "estimate_tables"
  /\ puts' = IF Remote /\ InnerAsked THEN puts \o [k \in 1..Len(TablesInOrder) |-> Put("table", H, TablesInOrder[k], FALSE)] ELSE puts
  /\ hpc' = "evaluate"
  /\ UNCHANGED <<rq, hi, aggsUsed, feeds, result, outcome>>
Evaluate ==
  /\ hpc = "evaluate"
  /\ result' = [x \in DOMAIN result \cup {H} |-> IF x = H THEN [estimands |-> SeqToSet(rq.estimands), tables |-> {TableOf(a) : a \in aggsUsed}] ELSE result[x]]
  /\ IF hi < Len(rq.hist) THEN hi' = hi + 1 /\ hpc' = "format" ELSE hi' = hi /\ hpc' = "write"
  /\ UNCHANGED <<rq, aggsUsed, feeds, puts, outcome>>
WriteEvaluation ==
  /\ hpc = "write"
  /\ hpc' = "done"
  /\ IF ~Remote THEN puts' = puts /\ outcome' = "ok"
     ELSE IF ~rq.save.given THEN puts' = puts /\ outcome' = "type_error"             \* SaveOptionMissing
     ELSE IF Asked THEN puts' = puts /\ outcome' = "type_error"                      \* NotSerialisable
     ELSE puts' = puts /\ outcome' = "ok"
  /\ UNCHANGED <<rq, hi, aggsUsed, feeds, result>>
HNext == CheckPrepared \/ SetAggregates \/ Format \/ EstimateLive \/ EstimateTables \/ Evaluate \/ WriteEvaluation
HInitRest == hpc = "check" /\ hi = 1 /\ aggsUsed = {} /\ feeds = <<>> /\ puts = <<>> /\ result = <<>> /\ outcome = "running"

HDone == hpc = "done"
\* properties
HiddenStayHidden ==
  \A h \in DOMAIN feeds : \A u \in DOMAIN rq.units[h] : rq.units[h][u].pev < rq.thr => \A c \in SeqToSet(rq.estimands) : feeds[h][u][c] = 0
ReportingVisible ==
  \A h \in DOMAIN feeds : \A u \in DOMAIN rq.units[h] : rq.units[h][u].pev >= rq.thr => \A c \in Cols : feeds[h][u][c] = rq.units[h][u].res[c]
NothingWrittenLocally == ~Remote => puts = <<>>
NothingWrittenWhenDeclined == (rq.save.given /\ "results" \notin rq.save.opts) => puts = <<>>
EvaluationShape ==
  (HDone /\ outcome = "ok") =>
     /\ DOMAIN result = SeqToSet(rq.hist)
     /\ \A h \in DOMAIN result : result[h].estimands = SeqToSet(rq.estimands) /\ "unit_data" \in result[h].tables
                                 /\ \A a \in SeqToSet(rq.aggs) : TableOf(a) \in result[h].tables
LiveBeforeTables ==
  \A k, l \in DOMAIN puts : (puts[k].hist = puts[l].hist /\ puts[k].kind = "live" /\ puts[l].kind = "table") => k < l
\* finding demonstrations (each is violated by the code as found; the histories are reproduced on the real client)
NeverTypeError == outcome # "type_error"
EvaluationWrittenWhenAsked == (HDone /\ Remote /\ Asked /\ rq.gate = "pass" /\ Len(rq.hist) > 0) => \E k \in DOMAIN puts : puts[k].kind = "evaluation"
OmittedOptionWritesNothing == ~rq.save.given => puts = <<>>
AllHiddenResultsBlank ==
  \A h \in DOMAIN feeds : \A u \in DOMAIN rq.units[h] : rq.units[h][u].pev < rq.thr => \A c \in Cols : feeds[h][u][c] = 0
=============================================================================
