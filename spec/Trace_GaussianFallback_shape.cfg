SPECIFICATION TSpec
CONSTANTS
  Variant = "code"
INVARIANT ObsCalls
INVARIANT ObsModels
CONSTRAINT Finished
POSTCONDITION PostOK
CHECK_DEADLOCK FALSE
