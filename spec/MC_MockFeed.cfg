SPECIFICATION Spec
CONSTANTS
  IdSets <- IS_Plain
INVARIANT NFullyReported
INVARIANT EveryUnitOnce
INVARIANT RowCount
INVARIANT NonreportingHidden
INVARIANT EnforcedFirst
INVARIANT FakeIdsFresh
CHECK_DEADLOCK FALSE
