---------------------------- MODULE Trace_Persistence ----------------------------
(* C18, code -> spec.  One record per real client run (fresh interpreter, recording fake for boto3.client, scratch
   working directory):
     sc       the request (option set, environment class, estimator, gate outcome, national summary asked,
              estimands / aggregates / levels in request order)
     outcome  "ok" | "not_enough" (ModelNotEnoughSubunitsException) | "raised:<Type>"
     natsum_outcome  "-" | "ok" | "raised:<Type>"
     puts     the ordered put_object calls, each real key parsed into the put record of Persistence.tla
              (ws / under computed on the raw key)
     files    the local files that appeared under the working directory (kinds)
   The actions of Persistence are replayed for the recorded request; after every step the model's put sequence must be
   a prefix of the recorded one, at the end both (and the local files, and the outcome) must be equal; the clauses of
   C18 are evaluated on the RECORDED sequence with the same operators the model checker uses. *)
EXTENDS Persistence, Json, IOUtils

VARIABLES tid
Traces == JsonDeserialize(IOEnv.TRACE_FILE)
NT == Len(Traces)
T == Traces[tid]

ScOf(j) == [opts |-> SeqToSet(j.opts), env |-> j.env, estimator |-> j.estimator, gate |-> j.gate, natsum |-> j.natsum,
            estimands |-> j.estimands, aggs |-> j.aggs, alphas |-> j.alphas]
Obs == T.puts
ObsFiles == SeqToSet(T.files)

TInit == tid = 1 /\ sc = ScOf(Traces[1].sc) /\ PInitRest
Step == PNext /\ UNCHANGED tid
NextTrace ==
  /\ Terminal /\ tid < NT
  /\ tid' = tid + 1
  /\ sc' = ScOf(Traces[tid + 1].sc)
  /\ phase' = "config" /\ puts' = <<>> /\ files' = {} /\ ei' = 1 /\ ai' = 1 /\ li' = 1
TNext == Step \/ NextTrace
TSpec == TInit /\ [][TNext]_<<pvars, tid>>

Finished == (tid = NT /\ Terminal) => TLCSet(1, TRUE)
PostOK == TLCGet(1) = TRUE
Mark(name) == PrintT(<<"FAIL", ToJson([tid |-> tid, clause |-> name])>>)
Chk(name, cond) == cond \/ (Mark(name) /\ FALSE)

IsPrefix(a, b) == Len(a) <= Len(b) /\ \A i \in DOMAIN a : a[i] = b[i]
ObsPhase == IF T.outcome = "not_enough" THEN "failed" ELSE "final"

\* the request itself is one the model knows
RequestOK == Chk("request_well_formed", WellFormed(sc))
\* control flow: every put the model has issued so far was issued by the code, in that order
Explained == Chk("puts_in_model_order", IsPrefix(puts, Obs))
AtEnd ==
  Terminal =>
    /\ Chk("outcome", T.outcome = (IF phase = "failed" THEN "not_enough" ELSE "ok"))
    /\ Chk("national_summary_outcome", T.natsum_outcome = (IF sc.natsum THEN "ok" ELSE "-"))
    /\ Chk("put_sequence", puts = Obs)
    /\ Chk("local_files", files = ObsFiles)
\* the clauses of the property on what the code did
ObsOnlyWhatAsked == Chk("only_what_asked", OnlyWhatAskedOf(sc, Obs, ObsFiles, ObsPhase))
ObsSaveThenFail == Chk("save_then_fail", SaveThenFailOf(sc, Obs, ObsPhase))
ObsOrder == Chk("order", OrderOf(Obs))
ObsKeyShape == Chk("key_shape", KeyShapeOf(Obs))
=============================================================================
