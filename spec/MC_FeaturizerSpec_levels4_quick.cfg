SPECIFICATION Spec
CONSTANTS
  Matching = "identity"
  MinRows = 4
  MaxRows = 4
  MaxOutside = 1
  L1 = {"a", "k", "m", "z"}
  L2 = {"p", "q"}
  FESeqs <- FE_1
  FeatSeqs <- FT_x
  SepSeqs <- SEP_none
  StateSet = {"S1"}
  CenterSet = {FALSE}
  NoInterceptToo = FALSE
  Callers = {"pred"}
  SelMode = "all"
  WithNA = FALSE
  NAInExpected = FALSE
  ExtraSet <- EX_none
  Export = TRUE
  SampleMod = 1
INVARIANT NoRaise
INVARIANT DisciplineHolds
INVARIANT SameColumns
INVARIANT NonConstant
INVARIANT OneAbsorbed
INVARIANT SeenLevel
INVARIANT UnseenLevel
INVARIANT Centered
INVARIANT OtherPooled
INVARIANT StateCopiesOnlyReporting
CONSTRAINT ExportDone
CHECK_DEADLOCK FALSE
