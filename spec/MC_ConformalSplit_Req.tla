------------------------ MODULE MC_ConformalSplit_Req ------------------------
(* Gate + Split scenarios for replay into the real client.  The *requests* (estimator, list of interval levels in
   permille, duplicate flag) are read from IOEnv.REQ_FILE - the harness picks them from the seed - and TLC adds
   every number of reporting units around the gate; it prints every terminal state (one per resolution of the
   candidate sets), i.e. the admissible outcomes and splits of each (request, n). *)
EXTENDS ConformalSplit, Json, IOUtils

Reqs == JsonDeserialize(IOEnv.REQ_FILE)

\* the gate of request r lies between the smallest and the largest resolution of its minimum
NeedLo(r) == MaxOfSet({MinOfSet(MinCandidates(r.est, r.alphas[i])) : i \in 1..Len(r.alphas)})
\* a repeated id needs two rows
Window(r) == {n \in (NeedLo(r) - 2)..(NeedLo(r) + 3) : n >= (IF r.dup THEN 2 ELSE 1)} \cup Rng(r.extra)

Init ==
  /\ \E k \in 1..Len(Reqs) : \E n \in Window(Reqs[k]) :
       sc = [est |-> Reqs[k].est, alphas |-> Reqs[k].alphas, n |-> n, dup |-> Reqs[k].dup, rid |-> k]
  /\ GateInitRest
Spec == Init /\ [][GateNext]_vars

Terminal == pc \in {"not_enough", "client_error", "done"}
ExportDone == Terminal => PrintT(<<"SCEN", ToJson([rid |-> sc.rid, n |-> sc.n, outcome |-> pc, st |-> st])>>)
=============================================================================
