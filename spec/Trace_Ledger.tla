---------------------------- MODULE Trace_Ledger ----------------------------
(* Validation of recorded real runs against Ledger (code -> spec).
   The trace file (IOEnv.TRACE_FILE) is a JSON array; each element records ONE real estimate run:
     sc  : the abstract scenario of the run (inputs; unit outputs pred/lower/upper of the nonreporting
           units are copied from the returned unit table, they are inputs of the ledger)
     obs : what the real run returned - the unit table and every aggregate table, rows in returned order
   For every trace the code-shaped pipeline of Ledger is executed on sc and the terminal state is compared
   with obs, clause by clause; the declarative properties of Ledger are checked on the way. *)
EXTENDS Ledger, Json, IOUtils

VARIABLES tid
Traces == JsonDeserialize(IOEnv.TRACE_FILE)
NT == Len(Traces)

Obs == Traces[tid].obs
Est == sc.estimator

TInit == tid = 1 /\ sc = Traces[1].sc /\ InitRest
TNext ==
  \/ (Next /\ UNCHANGED tid)
  \/ /\ pc = "done" /\ tid < NT
     /\ tid' = tid + 1
     /\ sc' = Traces[tid + 1].sc
     /\ pc' = "merge"
     /\ data' = {} /\ dvotes' = <<>> /\ drep' = <<>> /\ unexp' = {} /\ nmcat' = <<>>
     /\ fR' = {} /\ fN' = {} /\ fX' = {} /\ utable' = <<>> /\ tables' = <<>>
TSpec == TInit /\ [][TNext]_<<vars, tid>>

\* all traces consumed: the last one reached its terminal state
AllConsumed == TLCSet(1, TRUE)
Finished == (pc = "done" /\ tid = NT) => TLCSet(1, TRUE)
PostOK == TLCGet(1) = TRUE

Mark(name) == PrintT(<<"FAIL", ToJson([tid |-> tid, clause |-> name])>>)
Chk(name, cond) == cond \/ (Mark(name) /\ FALSE)

\* the declarative properties of Ledger, wrapped so that a rejected trace names its clause and trace id
TEveryUnitOnce       == Chk("every_unit_once", EveryUnitOnce)
TUnitVotesConserved  == Chk("feed_votes_conserved", UnitVotesConserved)
TConservation        == Chk("group_conservation", Conservation)
TLevelsSumToFeed     == Chk("level_sums_to_feed", LevelsSumToFeed)
TNoKeyLost           == Chk("no_key_lost", NoKeyLost)
TReportingIsModelled == Chk("reporting_is_modelled", ReportingIsModelled)
TEligibility         == Chk("eligibility", Eligibility)
TLevelsAgree         == Chk("levels_agree", Est # "bootstrap" => LevelsAgree)
TGroupFloors         == Chk("group_floors", GroupFloors)

---------------------------------------------------------------------------
(* C01 *)
ObsUnitTable ==
  Done => \A i \in Ids :
    LET o == Obs.utable[i] IN
    IF i \in DOMAIN utable
    THEN Chk("unit_row_present", o.present)
         /\ Chk("unit_once", o.count = 1)
         /\ Chk("unit_state", o.state = utable[i].state)
         /\ Chk("unit_category", o.cat = utable[i].cat)
         /\ Chk("unit_reporting", o.reporting = utable[i].reporting)
         /\ Chk("unit_votes", o.votes = utable[i].votes)
    ELSE Chk("unit_row_absent", ~o.present)

ObsRow(l, k) == Obs.tables[l][k]
Adv(name, cond) == cond \/ PrintT(<<"ADVISORY", ToJson([tid |-> tid, clause |-> name])>>)
\* rows are matched BY KEY: the property speaks about the group a row belongs to, not about the order of the rows
HasRow(l, g) == \E k \in 1..Len(Obs.tables[l]) : ObsRow(l, k).key = g
RowFor(l, g) == ObsRow(l, CHOOSE k \in 1..Len(Obs.tables[l]) : ObsRow(l, k).key = g)
ObsGroups ==
  Done => \A l \in Levels :
    /\ Chk("group_count", Len(Obs.tables[l]) = Len(tables[l].rows))
    /\ \A k1, k2 \in 1..Len(Obs.tables[l]) : k1 # k2 => Chk("group_row_once", ObsRow(l, k1).key # ObsRow(l, k2).key)
    /\ \A g \in DOMAIN tables[l].val :
         /\ Chk("group_present", HasRow(l, g))
         /\ HasRow(l, g) =>
              /\ Chk("group_counted", RowFor(l, g).counted = tables[l].val[g].counted)
              /\ Chk("group_reporting", RowFor(l, g).reporting = tables[l].val[g].reporting)
    \* the code returns rows sorted by key; a different order is reported as drift only
    /\ \A k \in 1..Len(tables[l].rows) : k <= Len(Obs.tables[l]) => Adv("row_order_differs_from_sorted_keys", ObsRow(l, k).key = tables[l].rows[k])

(* C02 *)
ObsPred ==   \* vote-count estimands (nonparametric, gaussian); the bootstrap identities are ObsBootstrap
  (Done /\ Est # "bootstrap") => \A l \in Levels : \A g \in DOMAIN tables[l].val :
    HasRow(l, g) =>
      LET e == tables[l].val[g]
          o == RowFor(l, g)
      IN /\ Chk("group_pred_is_sum", o.pred = e.pred)
         /\ (Est = "nonparametric" =>
               \A a \in 1..NAlpha : /\ Chk("group_lower_is_sum", o.lower[a] = e.lower[a])
                                    /\ Chk("group_upper_is_sum", o.upper[a] = e.upper[a]))
ObsRowOrder ==   \* every group exactly once (the order itself is advisory, see ObsGroups)
  Done => \A l \in Levels :
    /\ Chk("group_count", Len(Obs.tables[l]) = Len(tables[l].rows))
    /\ \A g \in DOMAIN tables[l].val : Chk("group_present", HasRow(l, g))

\* bootstrap: group turnout = sum of its units' predicted turnout; margin * turnout = sum of unit margins
\* (values logged in thousandths, each rounded: slack = number of members + 1)
Abs(x) == IF x < 0 THEN -x ELSE x
ObsBootstrap ==
  (Done /\ Est = "bootstrap") => \A l \in Levels : \A g \in DOMAIN tables[l].val :
    HasRow(l, g) =>
      LET e == tables[l].val[g]
          o == RowFor(l, g)
      IN /\ Chk("group_turnout_is_sum", Abs(o.pt - e.ptsum) <= e.nmemb + 1)
         /\ Chk("group_margin_is_sum", Abs(o.pm - e.pmsum) <= e.nmemb + 1)

SeqSet(sq) == {sq[k] : k \in DOMAIN sq}
\* C09: the outlier models are consulted exactly when enabled
ObsOutlierCalls ==
  Done => /\ Chk("turnout_outlier_model_called_iff_enabled", Obs.calledT = EnabledT)
          /\ Chk("margin_outlier_model_called_iff_enabled", Obs.calledM = EnabledM)
          \* ... and are fitted on exactly the reporting expected units no hard rule has already set aside
          /\ (EnabledT => Chk("turnout_outlier_fit_on_candidates_only", SeqSet(Obs.fitT) = OutlierCandidates))
          /\ (EnabledM => Chk("margin_outlier_fit_on_candidates_only", SeqSet(Obs.fitM) = OutlierCandidates))

(* C03 *)
ObsFloors ==
  Done =>
    /\ \A i \in DOMAIN utable :
         LET o == Obs.utable[i] IN
         o.present =>
           /\ (Est # "bootstrap" =>
                 /\ Chk("unit_pred_floor", o.pred >= o.votes)
                 /\ \A a \in 1..NAlpha : Chk("unit_lower_floor", o.lower[a] >= o.votes) /\ Chk("unit_upper_floor", o.upper[a] >= o.votes))
           /\ (i \notin fN =>
                 /\ Chk("unit_final_pred", o.pred = o.votes)
                 /\ \A a \in 1..NAlpha : Chk("unit_final_lower", o.lower[a] = o.votes) /\ Chk("unit_final_upper", o.upper[a] = o.votes))
    /\ Est # "bootstrap" => \A l \in Levels : \A k \in 1..Len(Obs.tables[l]) :
         LET o == ObsRow(l, k) IN
         /\ Chk("group_pred_floor", o.pred >= o.counted)
         /\ \A a \in 1..NAlpha : Chk("group_lower_floor", o.lower[a] >= o.counted) /\ Chk("group_upper_floor", o.upper[a] >= o.counted)
         /\ ((o.key \in DOMAIN tables[l].val /\ ~tables[l].val[o.key].hasN) =>
               /\ Chk("group_final_pred", o.pred = o.counted)
               /\ \A a \in 1..NAlpha : Chk("group_final_lower", o.lower[a] = o.counted) /\ Chk("group_final_upper", o.upper[a] = o.counted))
=============================================================================
