------------------------------ MODULE FitRetry ------------------------------
(***************************************************************************)
(* C20.  The quantile-regression fits of one estimate run of a conformal   *)
(* estimator (nonparametric / gaussian) and the retry in                    *)
(* ConformalElectionModel.fit_model.                                        *)
(*                                                                         *)
(* The fits of a run form a sequence (client loops):                       *)
(*   for estimand e:  median (tau 1/2, get_unit_predictions)               *)
(*                    for level a:  lower (tau (1-a)/2), upper ((1+a)/2)   *)
(*                                  (get_unit_prediction_interval_bounds)  *)
(* every fit on a fresh solver object.  A fault script makes the solve of  *)
(* ONE position fail, either with cvxpy.error.SolverError ("solver_error") *)
(* or with the "Solution may be inaccurate" UserWarning that the module    *)
(* level filter turns into an exception ("warning").                       *)
(*                                                                         *)
(* Actions:                                                                *)
(*   Attempt(k)  first call of fit for position k (normalize_weights left  *)
(*               at its default TRUE); ok -> coefficients stored, next     *)
(*               position; fault -> nothing stored, pending retry          *)
(*   Retry(k)    the except branch: the same solver object is fitted again *)
(*               with the same arguments except normalize_weights = FALSE  *)
(*   Finish      all positions fitted -> tables are a function of the      *)
(*               solutions                                                 *)
(* F1 = TRUE models the code as found before commit 6442e5d: the retry     *)
(* passed tau_value= (not a parameter of QuantileRegressionSolver.fit) and *)
(* omitted fit_intercept -> TypeError, the run is fatal.                   *)
(*                                                                         *)
(* The solve is abstract: Solve(args) names the minimiser set.  For        *)
(* lambda = 0 (linear programme) a positive rescaling of the weights does  *)
(* not change the set; for lambda > 0 the ridge term lambda*|beta|^2 is not*)
(* rescaled, so dropping the normalisation divides the effective penalty   *)
(* by sum(weights): a different problem (open finding F-C20-lambda).       *)
(* A SECOND failure (of the retry itself) is outside the property: fault   *)
(* scripts contain one fault and the retry of the model succeeds.          *)
(***************************************************************************)
EXTENDS Integers, Sequences, FiniteSets, TLC

CONSTANTS F1,      \* defect switch (see above)
          Tol      \* admitted |difference| of a table cell, in votes, where the LP optimum is not unique

VARIABLES sc,      \* [estimator, lam ("zero" | "pos"), nEst, alphas (millionths), fpos (0 = no fault), fkind]
          pos,     \* position being fitted, 1..N+1
          pending, \* TRUE: the first attempt at pos failed, the retry is due
          calls,   \* sequence of call records, see Call
          sol,     \* position -> solution id ("none" before)
          ncoef,   \* position -> number of coefficient vectors its solver object holds
          phase    \* fitting | final | fatal
fvars == <<sc, pos, pending, calls, sol, ncoef, phase>>

Million == 1000000
LowerTau(a) == (Million - a) \div 2
UpperTau(a) == (Million + a) \div 2

\* the fits of one estimand, then of the run: [role, e, a, tau]
RECURSIVE AlphaFits(_, _, _)
AlphaFits(e, alphas, i) ==
  IF i > Len(alphas) THEN <<>>
  ELSE <<[role |-> "lower", e |-> e, a |-> i, tau |-> LowerTau(alphas[i])],
         [role |-> "upper", e |-> e, a |-> i, tau |-> UpperTau(alphas[i])]>> \o AlphaFits(e, alphas, i + 1)
RECURSIVE EstFits(_, _)
EstFits(s, e) ==
  IF e > s.nEst THEN <<>>
  ELSE <<[role |-> "median", e |-> e, a |-> 0, tau |-> Million \div 2]>> \o AlphaFits(e, s.alphas, 1) \o EstFits(s, e + 1)
Fits(s) == EstFits(s, 1)
NFits(s) == s.nEst * (1 + 2 * Len(s.alphas))

\* identity of the data (X, y, weights) a position is fitted on: the median on all reporting units of the estimand,
\* both bounds of one level on the same training prefix
DataOf(f) == <<f.e, IF f.role = "median" THEN 0 ELSE f.a>>

Args(s, k, normalize) ==
  [tau |-> Fits(s)[k].tau, lam |-> s.lam, intercept |-> TRUE, normalize |-> normalize,
   dx |-> DataOf(Fits(s)[k]), dy |-> DataOf(Fits(s)[k]), dw |-> DataOf(Fits(s)[k])]
Call(k, attempt, args, valid, outcome) ==
  [pos |-> k, attempt |-> attempt, args |-> args, valid |-> valid, outcome |-> outcome, solver |-> k]

\* which optimisation problem a call poses
Solve(args) == [tau |-> args.tau, data |-> <<args.dx, args.dy, args.dw>>, intercept |-> args.intercept,
                penalty |-> IF args.lam = "zero" THEN "none"
                            ELSE IF args.normalize THEN "lambda" ELSE "lambda_over_weight_sum"]
Reference(s, k) == Solve(Args(s, k, TRUE))

Attempt(k) ==
  /\ phase = "fitting" /\ pos = k /\ k <= NFits(sc) /\ ~pending
  /\ LET out == IF k = sc.fpos THEN sc.fkind ELSE "ok" IN
     /\ calls' = Append(calls, Call(k, 1, Args(sc, k, TRUE), TRUE, out))
     /\ IF out = "ok"
        THEN /\ sol' = [sol EXCEPT ![k] = Solve(Args(sc, k, TRUE))]
             /\ ncoef' = [ncoef EXCEPT ![k] = @ + 1]
             /\ pos' = k + 1 /\ UNCHANGED pending
        ELSE \* the solve raised before anything was stored
             /\ pending' = TRUE /\ UNCHANGED <<sol, ncoef, pos>>
  /\ UNCHANGED <<sc, phase>>

Retry(k) ==
  /\ phase = "fitting" /\ pos = k /\ pending
  /\ IF F1
     THEN \* as found: unknown keyword -> TypeError propagates out of get_estimates
          /\ calls' = Append(calls, Call(k, 2, [Args(sc, k, FALSE) EXCEPT !.intercept = FALSE], FALSE, "type_error"))
          /\ phase' = "fatal"
          /\ UNCHANGED <<sol, ncoef, pos, pending>>
     ELSE /\ calls' = Append(calls, Call(k, 2, Args(sc, k, FALSE), TRUE, "ok"))
          /\ sol' = [sol EXCEPT ![k] = Solve(Args(sc, k, FALSE))]
          /\ ncoef' = [ncoef EXCEPT ![k] = @ + 1]
          /\ pos' = k + 1 /\ pending' = FALSE
          /\ UNCHANGED phase
  /\ UNCHANGED sc

Finish ==
  /\ phase = "fitting" /\ pos = NFits(sc) + 1
  /\ phase' = "final"
  /\ UNCHANGED <<sc, pos, pending, calls, sol, ncoef>>

FNext == (\E k \in 1..NFits(sc) : Attempt(k) \/ Retry(k)) \/ Finish

FInitRest ==
  /\ pos = 1 /\ pending = FALSE /\ calls = <<>> /\ phase = "fitting"
  /\ sol = [k \in 1..NFits(sc) |-> "none"] /\ ncoef = [k \in 1..NFits(sc) |-> 0]

WellFormed(s) ==
  /\ s.nEst >= 1 /\ Len(s.alphas) >= 1
  /\ s.fpos \in 0..NFits(s)
  /\ (s.fpos = 0) <=> (s.fkind = "none")
  /\ s.fkind \in {"none", "solver_error", "warning"}

---------------------------------------------------------------------------
(* C20, over (scenario, call sequence, ...) so that Trace_FitRetry evaluates the same formulas on recorded calls.
   A recorded call has the fields of `args` at top level (tau, lam, intercept, normalize, dx, dy, dw) -- ArgsEq
   hides the difference. *)
SameButNormalize(a, b) ==
  /\ a.tau = b.tau /\ a.lam = b.lam /\ a.intercept = b.intercept
  /\ a.dx = b.dx /\ a.dy = b.dy /\ a.dw = b.dw
  /\ b.normalize = FALSE

\* the retry uses the same quantile, weights, regularisation, intercept setting (and data) - without normalisation
RetryArgs ==
  \A i \in DOMAIN calls : calls[i].attempt = 2 =>
     /\ i > 1 /\ calls[i - 1].pos = calls[i].pos /\ calls[i - 1].attempt = 1
     /\ calls[i].valid
     /\ SameButNormalize(calls[i - 1].args, calls[i].args)
     /\ calls[i].solver = calls[i - 1].solver

NotFatal == phase # "fatal"
Progress == phase = "final" \/ phase = "fatal" \/ ENABLED FNext

\* fault-free fits are attempted exactly once, the failed one exactly twice
AttemptsAt(cs, k) == Cardinality({i \in DOMAIN cs : cs[i].pos = k})
NoExtraFits ==
  phase = "final" =>
    /\ \A k \in 1..NFits(sc) : AttemptsAt(calls, k) = (IF k = sc.fpos THEN 2 ELSE 1)
    /\ Len(calls) = NFits(sc) + (IF sc.fpos = 0 THEN 0 ELSE 1)
    /\ \A i, j \in DOMAIN calls : i < j => calls[i].pos <= calls[j].pos

\* the tables are a function of the solutions: same problems posed -> same tables
SameTables == phase = "final" => \A k \in 1..NFits(sc) : sol[k] = Reference(sc, k)
\* no stale coefficient vector: predict uses exactly the one solution of the position
OneCoefficient == phase = "final" => \A k \in 1..NFits(sc) : ncoef[k] = 1
=============================================================================
