SPECIFICATION Spec
CONSTANTS
  Contests = {"AA"}
  PVals <- PV_Full
  QVals <- QV_Full
  Names = {"AA"}
  Export = TRUE
CONSTRAINT ExportDone
INVARIANT CalledLeftHonoured
INVARIANT CalledRightHonoured
INVARIANT StoppedContainsZero
INVARIANT UntouchedUnchanged
INVARIANT ContradictionRejected
INVARIANT NoEstimateOnError
INVARIANT StrictlyInside
CHECK_DEADLOCK FALSE
