SPECIFICATION CorrSpec
CONSTANTS
  GuardTrain = TRUE
  GridMaxN = 600
  MultiMaxN = 60
  CalSizes = {8}
  ScoreLo <- Neg1
  ScoreHi = 1
  WeightSeq <- W12
  AlphaSet <- A12
  RankMaxN = 60
  Export = TRUE
CONSTRAINT CorrExport
INVARIANT WeightedCoverage
INVARIANT SmallestCorrection
INVARIANT RobustDominates
INVARIANT UnweightedBracketed
INVARIANT NonRobustIsPopulation
INVARIANT Symmetric
INVARIANT Monotone
INVARIANT BoundsFloored
INVARIANT BoundsFromCorrection
CHECK_DEADLOCK FALSE
