---------------------------- MODULE Trace_FitRetry ----------------------------
(* C20, both directions through one specification.  One record per real client run with
   QuantileRegressionSolver.fit wrapped:
     sc        the fault script (estimator, lambda class, number of estimands, levels in millionths, position and
               kind of the injected fault; fpos = 0: fault-free)
     lamv      lambda_ of the request in thousandths
     calls     every call of fit in order: tau (millionths), lam (thousandths), intercept, normalize, digests dx dy dw
               of X / y / weights, outcome (ok | solver_error | warning | type_error | raised:<T>), solver (index of
               the solver object by first appearance), ncoef (coefficient vectors held by the object after the
               call), multi_tau
     outcome   "ok" | "raised:<Type>" of get_estimates
     maxdiff   max |cell difference| (votes, rounded up) between the tables of this run and of the fault-free run of
               the same request; shape_same: all keys / columns / non-numeric cells identical
   The actions of FitRetry are replayed for the script; each call the model makes must be the next recorded call
   (quantile, normalisation flag, intercept flag, lambda, outcome); at the end the clauses of C20 are evaluated on the
   RECORDED calls.  For lambda > 0 a table mismatch is the open finding F-C20-lambda: it is printed as a FINDING
   record (the check reports it through the known-findings protocol) and does not stop the batch. *)
EXTENDS FitRetry, Json, IOUtils

VARIABLES tid
Traces == JsonDeserialize(IOEnv.TRACE_FILE)
NT == Len(Traces)
T == Traces[tid]
Obs == T.calls

ScOf(j) == [estimator |-> j.estimator, lam |-> j.lam, nEst |-> j.nEst, alphas |-> j.alphas, fpos |-> j.fpos, fkind |-> j.fkind]
Terminal == phase \in {"final", "fatal"}

TInit == tid = 1 /\ sc = ScOf(Traces[1].sc) /\ FInitRest
Step == FNext /\ UNCHANGED tid
NextTrace ==
  /\ Terminal /\ tid < NT
  /\ tid' = tid + 1
  /\ sc' = ScOf(Traces[tid + 1].sc)
  /\ pos' = 1 /\ pending' = FALSE /\ calls' = <<>> /\ phase' = "fitting"
  /\ sol' = [k \in 1..NFits(ScOf(Traces[tid + 1].sc)) |-> "none"]
  /\ ncoef' = [k \in 1..NFits(ScOf(Traces[tid + 1].sc)) |-> 0]
TNext == Step \/ NextTrace
TSpec == TInit /\ [][TNext]_<<fvars, tid>>

Finished == (tid = NT /\ Terminal) => TLCSet(1, TRUE)
PostOK == TLCGet(1) = TRUE
Mark(name) == PrintT(<<"FAIL", ToJson([tid |-> tid, clause |-> name])>>)
Chk(name, cond) == cond \/ (Mark(name) /\ FALSE)
Note(name) == PrintT(<<"FINDING", ToJson([tid |-> tid, clause |-> name])>>)

RequestOK ==
  /\ Chk("request_well_formed", WellFormed(sc))
  /\ Chk("lambda_class", (T.lamv = 0) <=> (sc.lam = "zero"))

\* control flow: the i-th call of the model is the i-th recorded call
Matches(o, c) ==
  /\ o.tau = c.args.tau /\ o.normalize = c.args.normalize /\ o.intercept = c.args.intercept
  /\ o.lam = T.lamv /\ o.outcome = c.outcome /\ ~o.multi_tau
Explained ==
  \A i \in DOMAIN calls :
     /\ Chk("fit_missing", i <= Len(Obs))
     /\ (i <= Len(Obs) => Chk(IF calls[i].attempt = 2 THEN "retry_call_as_modelled" ELSE "attempt_call_as_modelled",
                              Matches(Obs[i], calls[i])))

ObsNotFatal == Terminal => Chk("not_fatal", T.outcome = "ok")
ObsNoExtraFits == Terminal => Chk("no_extra_fits", Len(Obs) = Len(calls))
ObsRetryArgs ==
  Terminal => \A i \in DOMAIN calls : (calls[i].attempt = 2 /\ i <= Len(Obs)) =>
     /\ Chk("retry_args", SameButNormalize(Obs[i - 1], Obs[i]))
     /\ Chk("retry_same_solver_object", Obs[i].solver = Obs[i - 1].solver)
ObsOneCoefficient ==
  Terminal => \A i \in DOMAIN Obs : Chk("one_coefficient", Obs[i].ncoef = (IF Obs[i].outcome = "ok" THEN 1 ELSE 0))
TablesSame == T.shape_same /\ 0 <= T.maxdiff /\ T.maxdiff <= Tol
ObsSameTables ==
  (Terminal /\ T.outcome = "ok") =>
     IF sc.lam = "zero" THEN Chk("same_tables", TablesSame)
     ELSE (TablesSame \/ Note("same_tables"))
=============================================================================
