-------------------------- MODULE MC_ConformalSplit --------------------------
(* Bounded scenario universes for ConformalSplit.  One module, one specification per part:
     GridSpec   Gate + Split for one interval level: permille grid x n (C14)
     MultiSpec  Gate + Split for all three estimators, lists of one or two levels, duplicates (C14)
     CorrSpec   Corr for every calibration multiset within the bounds (C04, calibration clause)
     RankSpec   Rank for the (permille, n_cal) grid (C04, coverage clause)
   With Export = TRUE every terminal state is printed as JSON for replay into the real code. *)
EXTENDS ConformalSplit, Json

CONSTANTS GridMaxN,        \* largest number of reporting units of the grid
          MultiMaxN,
          CalSizes,        \* calibration set sizes of CorrSpec
          ScoreLo, ScoreHi, \* score values (in 1/8)
          WeightSeq,       \* admissible weights (sequence)
          AlphaSet,        \* dyadic interval levels <<num, den>>
          RankMaxN,        \* largest calibration set of the rank grid
          Export

W124 == <<1, 2, 4>>
W12  == <<1, 2>>
A12 == {<<1, 2>>}
A58 == {<<5, 8>>}
A34 == {<<3, 4>>}
A78 == {<<7, 8>>}
W1 == <<1>>
Neg3 == 0 - 3
Neg2 == 0 - 2
Neg1 == 0 - 1
Alphas4 == {<<1, 2>>, <<5, 8>>, <<3, 4>>, <<7, 8>>}

\* ------------------------------------------------------------------ Gate / Split
GridInit ==
  /\ \E p \in 1..998, n \in 1..GridMaxN :
       sc = [est |-> "nonparametric", alphas |-> <<p>>, n |-> n, dup |-> FALSE]
  /\ GateInitRest
GridSpec == GridInit /\ [][GateNext]_vars

\* levels that matter: float ties of the minimum (800, 900, 920), the pinned 700 / 900, small and large levels
MultiLevels == {1, 500, 700, 800, 900, 950}
MultiAlphaLists == {<<p>> : p \in MultiLevels} \cup {<<p, q>> : p \in MultiLevels, q \in MultiLevels}
MultiInit ==
  /\ \E e \in {"nonparametric", "gaussian", "bootstrap"}, al \in MultiAlphaLists, n \in 1..MultiMaxN, d \in BOOLEAN :
       sc = [est |-> e, alphas |-> al, n |-> n, dup |-> d]
  /\ GateInitRest
MultiSpec == MultiInit /\ [][GateNext]_vars

\* ------------------------------------------------------------------ Corr
NW == Len(WeightSeq)
NTypes == (ScoreHi - ScoreLo + 1) * NW
TypeScore(t)  == ScoreLo + (t \div NW)
TypeWeight(t) == WeightSeq[(t % NW) + 1]
MaxCal == MaxOfSet(CalSizes)
\* multisets of k (score, weight) types = non-decreasing sequences of type indices (row order is the materialiser's
\* business: it shuffles the rows, the result may not depend on it)
MSets[k \in 0..MaxCal] ==
  IF k = 0 THEN {<<>>}
  ELSE UNION {{Append(s, t) : t \in (IF k = 1 THEN 0 ELSE s[k - 1])..(NTypes - 1)} : s \in MSets[k - 1]}

\* conformalization lower_bounds / upper_bounds of a row with score s: one of them is s, the other smaller
Row(t, i) == IF i % 2 = 1 THEN [lo |-> TypeScore(t), up |-> TypeScore(t) - i, w |-> TypeWeight(t)]
             ELSE [lo |-> TypeScore(t) - i, up |-> TypeScore(t), w |-> TypeWeight(t)]

SU == 8
\* nonreporting units: unadjusted bounds in 1/8, last_election_results, partial count.  Chosen so that the final
\* bounds are integers (last 8), halves and quarters (rounding, half-to-even ties), floored at the partial count,
\* and one unit whose unadjusted bounds cross.
NR == << [lb |-> -2, ub |-> 2, last |-> 8, partial |-> 0],
         [lb |-> -1, ub |-> 3, last |-> 4, partial |-> 1],
         [lb |-> -4, ub |-> 0, last |-> 2, partial |-> 0],
         [lb |-> -2, ub |-> 1, last |-> 16, partial |-> 15],
         [lb |-> 1, ub |-> -1, last |-> 32, partial |-> 0] >>

CorrInit ==
  /\ \E n \in CalSizes : \E ms \in MSets[n] : \E a \in AlphaSet : \E rb \in BOOLEAN :
       /\ a[1] * (n + 1) < a[2] * n                 \* level below 1 (guaranteed by the split, see RankExists)
       /\ sc = [cal |-> [i \in 1..n |-> Row(ms[i], i)], alpha |-> a, robust |-> rb, su |-> SU, nr |-> NR]
  /\ CorrInitRest
CorrSpec == CorrInit /\ [][CorrNext]_vars

CorrExport ==
  (Export /\ pc = "done") =>
    PrintT(<<"SCEN", ToJson([cal |-> sc.cal, alpha |-> sc.alpha, robust |-> sc.robust, su |-> sc.su, nr |-> sc.nr,
                             pop |-> st.pop, c |-> st.c, lower |-> st.lower, upper |-> st.upper,
                             tie |-> CumOnTie, exactTie |-> FloatExactTie])>>)

\* ------------------------------------------------------------------ Rank
RankInit ==
  /\ \E p \in 1..998, n \in 1..RankMaxN : QLevelBelowOne(p, n) /\ sc = [p |-> p, ncal |-> n]
  /\ RankInitRest
RankSpec == RankInit /\ [][RankStep]_vars
=============================================================================
