SPECIFICATION TSpec
CONSTANTS
  Matching = "identity"
INVARIANT TSliceDiscipline
INVARIANT TDomain
INVARIANT TNoRaise
INVARIANT TSameColumns
INVARIANT TNonConstant
INVARIANT TOneAbsorbed
INVARIANT TSeenLevel
INVARIANT TUnseenLevel
INVARIANT TCentered
INVARIANT TOtherPooled
INVARIANT TStateCopies
INVARIANT ObsColumns
INVARIANT ObsXall
INVARIANT ObsMats
CONSTRAINT Finished
POSTCONDITION PostOK
CHECK_DEADLOCK FALSE
