SPECIFICATION Spec
CONSTANTS
  NUnits = 2
  States = {"S1", "S2"}
  XStates = {"S1", "S0"}
  Counties = {"c1"}
  Classes = {"k1"}
  Districts = {"d1"}
  Policies = {"drop", "zero"}
  Offices = {FALSE, TRUE}
  LevelLists <- LL_All
  Export = FALSE
INVARIANT DeltaUnits
INVARIANT DeltaGroups
INVARIANT DeltaAlwaysAttributed
CHECK_DEADLOCK FALSE
