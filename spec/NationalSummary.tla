--------------------------- MODULE NationalSummary ---------------------------
(***************************************************************************)
(* The national summary of the bootstrap estimator                         *)
(* (BootstrapElectionModel.get_national_summary_estimates and the state the *)
(* model object carries from the aggregate computations to the summary).   *)
(*                                                                         *)
(* Model-object state: `held` - the aggregate whose divided bootstrap      *)
(* errors the summary will read; `topSeen` - whether the top-level         *)
(* aggregate (whose clamped predictions, call and stop vectors the summary *)
(* reads) has been computed.  ComputeAggregate(level) is one call of       *)
(* get_aggregate_prediction_intervals; with KeepContestLevel (the repaired *)
(* code) only the top level updates `held`, without it every level does    *)
(* (the code as found: F3).                                                *)
(*                                                                         *)
(* Summary transcribes both modes with the hard threshold (the default):   *)
(* quantile-draw mode and correlation mode; B = 2 draws, alpha = 0.9, so   *)
(* the lower quantile level is 0 and the two national-sum ranks are 0 and  *)
(* 2 of the 2B sorted sums.  argsort breaks ties between equal sums in an  *)
(* unspecified way: the model is nondeterministic over the tied draws.     *)
(***************************************************************************)
EXTENDS Integers, Sequences, FiniteSets, FiniteSetsExt, TLC

CONSTANTS KeepContestLevel, RestrictToWinners
B == 2

VARIABLES ns,      \* scenario: [p, b1, b2, w, lhs, rhs, stop, corr, base, history, nweights]
          npc, held, topSeen, result
nvars == <<ns, npc, held, topSeen, result>>

Contests == DOMAIN ns.p      \* the modelled contests

SumC(f(_)) == FoldSet(LAMBDA c, acc : acc + f(c), 0, Contests)
Ind(x) == IF x THEN 1 ELSE 0
Max2(x, y) == IF x >= y THEN x ELSE y
Min2(x, y) == IF x <= y THEN x ELSE y

Called(c) == c \in ns.lhs \cup ns.rhs
PM(c) == IF c \in ns.lhs THEN Max2(5, ns.p[c]) ELSE IF c \in ns.rhs THEN Min2(-5, ns.p[c]) ELSE ns.p[c]
PredState(c) == PM(c) > 0

\* the 2B national sums: draws 1..B from the bootstrap estimates, B+1..2B from the bootstrap "truths"
Prob(c, j) == IF j <= B THEN ns.b1[c][j] > 0 ELSE ns.b2[c][j - B] > 0
Val(j) == SumC(LAMBDA c : ns.w[c] * Ind(Prob(c, j)))
\* indices that argsort may put at 0-based position r
AtRank(r) == {j \in 1..(2 * B) : /\ Cardinality({k \in 1..(2 * B) : Val(k) < Val(j)}) <= r
                                 /\ r < Cardinality({k \in 1..(2 * B) : Val(k) <= Val(j)})}
RankLo == 0     \* floor(lower_q * 2B), lower_q = 0
RankHi == 2     \* ceil(upper_q * 2B),  upper_q = 1/2

Dist(c, j) == PM(c) - (ns.b1[c][j] - ns.b2[c][j])
DemPossible(c) == Cardinality({j \in 1..B : Dist(c, j) > 0}) > 0     \* mean(dist > 0) > lower_q = 0
GopPossible(c) == Cardinality({j \in 1..B : Dist(c, j) < 0}) > 0

Losses(c, jlo) ==
  LET raw == IF ns.corr
             THEN (IF RestrictToWinners THEN PredState(c) /\ GopPossible(c)
                   ELSE Ind(PredState(c)) - Ind(~GopPossible(c)) # 0)       \* as found: a -1 also counts (F4)
             ELSE PredState(c) /\ ~Prob(c, jlo)
  IN  IF PredState(c) /\ c \in ns.stop THEN TRUE ELSE IF Called(c) THEN FALSE ELSE raw
Gains(c, jhi) ==
  LET raw == IF ns.corr
             THEN (IF RestrictToWinners THEN ~PredState(c) /\ DemPossible(c)
                   ELSE Ind(DemPossible(c)) - Ind(PredState(c)) # 0)
             ELSE ~PredState(c) /\ Prob(c, jhi)
  IN  IF ~PredState(c) /\ c \in ns.stop THEN TRUE ELSE IF Called(c) THEN FALSE ELSE raw

\* sign of a loss / gain in the code as found (F4): the difference of indicators can be -1
LossWeight(c, jlo) ==
  IF ~RestrictToWinners /\ ns.corr /\ ~Called(c) /\ ~(PredState(c) /\ c \in ns.stop)
  THEN Ind(PredState(c)) - Ind(~GopPossible(c)) ELSE Ind(Losses(c, jlo))
GainWeight(c, jhi) ==
  IF ~RestrictToWinners /\ ns.corr /\ ~Called(c) /\ ~(~PredState(c) /\ c \in ns.stop)
  THEN Ind(DemPossible(c)) - Ind(PredState(c)) ELSE Ind(Gains(c, jhi))

PredVal == SumC(LAMBDA c : ns.w[c] * Ind(PredState(c)))
Triple(jlo, jhi) ==
  [ pred  |-> ns.base + PredVal,
    lower |-> ns.base + PredVal - SumC(LAMBDA c : ns.w[c] * LossWeight(c, jlo)),
    upper |-> ns.base + PredVal + SumC(LAMBDA c : ns.w[c] * GainWeight(c, jhi)) ]
Candidates == {Triple(jlo, jhi) : jlo \in AtRank(RankLo), jhi \in AtRank(RankHi)}

TopLevel == "top"

ComputeAggregate ==
  /\ npc = "aggregates" /\ ns.history # <<>>
  /\ LET level == Head(ns.history) IN
       /\ held' = IF level = TopLevel \/ ~KeepContestLevel THEN level ELSE held
       /\ topSeen' = (topSeen \/ level = TopLevel)
  /\ ns' = [ns EXCEPT !.history = Tail(@)]
  /\ UNCHANGED <<npc, result>>

Summary ==
  /\ npc = "aggregates" /\ ns.history = <<>>
  /\ IF ns.nweights # Cardinality(Contests) /\ held = TopLevel
     THEN result' = [kind |-> "error"]                                   \* wrong-size weight dictionary
     ELSE IF held # TopLevel \/ ~topSeen
     THEN result' = [kind |-> "wrong-matrices"]                          \* reads another aggregate's errors (F3)
     ELSE \E t \in Candidates : result' = [kind |-> "ok", t |-> t]
  /\ npc' = "done"
  /\ UNCHANGED <<ns, held, topSeen>>

NNext == ComputeAggregate \/ Summary
NInitRest == npc = "aggregates" /\ held = "none" /\ topSeen = FALSE /\ result = <<>>

---------------------------------------------------------------------------
(* C08 *)
NDone == npc = "done"
Ok == NDone /\ result.kind = "ok"
TotalWeight == SumC(LAMBDA c : ns.w[c])

Ordered   == Ok => result.t.lower <= result.t.pred /\ result.t.pred <= result.t.upper
Bounded   == Ok => ns.base <= result.t.lower /\ result.t.upper <= ns.base + TotalWeight
PredIsWinners == Ok => result.t.pred = ns.base + SumC(LAMBDA c : ns.w[c] * Ind(PM(c) > 0))
\* a called contest that is not stop-listed contributes nothing to either bound: the bounds equal those of the
\* same scenario in which only the uncalled (or stop-listed) contests can be lost or gained
CalledCertain ==
  Ok => /\ result.t.pred - result.t.lower <= SumC(LAMBDA c : ns.w[c] * Ind(~Called(c) \/ c \in ns.stop))
        /\ result.t.upper - result.t.pred <= SumC(LAMBDA c : ns.w[c] * Ind(~Called(c) \/ c \in ns.stop))
\* whichever finer aggregates were computed, in whichever order, the summary is the contests' summary
HistoryIndependent == NDone => (result.kind = "ok" <=> ns.nweights = Cardinality(Contests))
SizeChecked == NDone => (ns.nweights # Cardinality(Contests) => result.kind = "error")
=============================================================================
