---------------------------- MODULE Trace_MockFeed ----------------------------
(* code -> spec: what the real MockLiveDataHandler returned for a request must be one of the outputs the model admits
   (the fake rows' sources are chosen at random by the code), and the percent -> n conversion must be a candidate. *)
EXTENDS MockFeed, Json, IOUtils
VARIABLES tid
Traces == JsonDeserialize(IOEnv.TRACE_FILE)
NT == Len(Traces)
T == Traces[tid]
Fix(k) == LET t == Traces[k] IN
          IF t.kind = "report"
          THEN [order |-> t.order, res |-> t.res, n |-> t.n, u |-> t.u, enforce |-> {t.enforce[i] : i \in DOMAIN t.enforce}]
          ELSE [order |-> <<>>, res |-> <<>>, n |-> 0, u |-> 0, enforce |-> {}]
TInit == tid = 1 /\ feed = Fix(1) /\ MInitRest
TNext == tid < NT /\ tid' = tid + 1 /\ feed' = Fix(tid + 1) /\ UNCHANGED <<mpc, out>>
TSpec == TInit /\ [][TNext]_<<mvars, tid>>
Finished == (tid = NT) => TLCSet(1, TRUE)
PostOK == TLCGet(1) = TRUE
Mark(name) == PrintT(<<"FAIL", ToJson([tid |-> tid, clause |-> name])>>)
Chk(name, cond) == cond \/ (Mark(name) /\ FALSE)

Admitted(o) ==
  \E f \in Sources :
    o = [k \in 1..ExpectedN |-> RepRow(Enforced[k])]
        \o [k \in 1..feed.u |-> FakeRow(f[k - 1], k - 1)]
        \o [k \in 1..(NOrig - ExpectedN) |-> NonRow(Enforced[ExpectedN + k])]
ObsRows == [k \in DOMAIN T.out |-> [id |-> T.out[k].id, pev |-> T.out[k].pev, res |-> T.out[k].res, raw |-> T.out[k].raw, fake |-> T.out[k].fake]]
ReportOK == T.kind = "report" => Chk("output_is_an_admitted_feed", Admitted(ObsRows))
PercentOK ==
  T.kind = "percent" =>
    /\ Chk("percent_up", T.up \in CeilN(T.percent, T.N))
    /\ Chk("percent_down", T.down \in FloorN(T.percent, T.N))
=============================================================================
