SPECIFICATION TSpec
CONSTANTS
  GuardTrain = TRUE
INVARIANT GridOK
INVARIANT GridSound
INVARIANT FixedOK
INVARIANT RunMinsOK
INVARIANT RunOutcomeOK
INVARIANT RunSplitsOK
INVARIANT RunSplitsSound
INVARIANT TMinimumIsCeil
INVARIANT TGateExact
INVARIANT TDuplicatesRejected
INVARIANT TCompletes
INVARIANT TTrainAtLeastOne
INVARIANT TCalAtLeastOne
INVARIANT TSplitPartitions
INVARIANT TQuantileLevelBelowOne
CONSTRAINT Finished
POSTCONDITION PostOK
CHECK_DEADLOCK FALSE
