SPECIFICATION Spec
INVARIANT ExactlyOneClientCall
INVARIANT HistoricalIffFlag
INVARIANT SummaryOnlyAfterLiveEstimates
INVARIANT FeedBuiltBeforeTheClientCall
INVARIANT EveryOptionReachesTheClient
CONSTRAINT ExportDone
CHECK_DEADLOCK FALSE
