SPECIFICATION TSpec
INVARIANT AtEnd
INVARIANT ObsHidden
INVARIANT ObsLocal
INVARIANT ObsDeclined
CONSTRAINT Finished
POSTCONDITION PostOK
CHECK_DEADLOCK FALSE
