SPECIFICATION Spec
CONSTANTS
  NUnits = 2
  States = {"S1", "S2"}
  Counties = {"c1", "c2"}
  Classes = {"k1", "k2"}
  Districts = {"d1", "d2"}
  Policies = {"drop", "zero"}
  Offices = {FALSE, TRUE}
  LevelLists <- LL_All
  BlockLists <- BL_All
  AllowMismatch = FALSE
  Export = FALSE
  WithOutputs = FALSE
INVARIANT EveryUnitOnce
INVARIANT UnitVotesConserved
INVARIANT Conservation
INVARIANT LevelsSumToFeed
INVARIANT NoKeyLost
INVARIANT ReportingIsModelled
INVARIANT Eligibility
INVARIANT LevelsAgree
INVARIANT GroupFloors
CHECK_DEADLOCK FALSE
