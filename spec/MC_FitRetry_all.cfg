SPECIFICATION Spec
CONSTANTS
  F1 = FALSE
  Tol = 1
  Lams = {"zero", "pos"}
  Export = FALSE
  MaxEst = 2
  MaxAlpha = 2

INVARIANT NotFatal
INVARIANT RetryArgs
INVARIANT NoExtraFits
INVARIANT OneCoefficient
INVARIANT Progress
INVARIANT SameTablesLP
CHECK_DEADLOCK FALSE
