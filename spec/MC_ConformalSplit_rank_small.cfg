SPECIFICATION RankSpec
CONSTANTS
  GuardTrain = TRUE
  GridMaxN = 600
  MultiMaxN = 60
  CalSizes = {2, 3, 4}
  ScoreLo <- Neg3
  ScoreHi = 3
  WeightSeq <- W124
  AlphaSet <- Alphas4
  RankMaxN = 8
  Export = FALSE
INVARIANT RankLemma
INVARIANT CoverageAtLeastAlphaExplicit
INVARIANT CoverageAtLeastAlpha
INVARIANT CoverageTight
INVARIANT RankInCalibrationSet
CHECK_DEADLOCK FALSE
