SPECIFICATION Spec
CONSTANTS
  NONE <- None
  F17 = FALSE
  U = {"turnout", "dem", "gop", "margin", "party_vote_share_dem"}
  MaxLen = 2
  FullPtrs = FALSE
  NVals = 2
  RSets = "some"
INVARIANT StepwiseIsFunctional
INVARIANT NoSilentOverwrite
INVARIANT LastElectionIsBaselinePlusOne
INVARIANT BaselineWeightsRule
INVARIANT Idempotent
INVARIANT NormalizedMarginInRange
INVARIANT ReturnedColumnsExist
INVARIANT TurnoutReturnedOnce
INVARIANT OrderIndependentLive
CHECK_DEADLOCK FALSE
