------------------------ MODULE Trace_FeaturizerSpec ------------------------
(* Validation of recorded uses of the real Featurizer against FeaturizerSpec (code -> spec).
   The trace file (IOEnv.TRACE_FILE) is a JSON array; each element records ONE Featurizer object used by one of
   the callers during a real estimate run (harness/featurizer.py, Recorder):
     sc  : the scenario read off the frame the caller handed to prepare_data (rows in frame order with
           reporting / expected flags, state, levels, raw feature values as exact rationals), the constructor
           arguments, the options, and the slices the caller passed on (row positions located in x_all)
     obs : complete / active feature lists as structured column ids, x_all, and for every slice the returned
           column list and matrix
   For every trace the code-shaped pipeline of FeaturizerSpec runs on sc; the terminal state is compared with obs
   clause by clause, the clauses of C16 are checked on it, and SliceDiscipline checks that the caller sliced x_all
   exactly into reporting rows / nonreporting rows in frame order. *)
EXTENDS FeaturizerSpec, Json, IOUtils

VARIABLES tid
Traces == JsonDeserialize(IOEnv.TRACE_FILE)
NT == Len(Traces)
Obs == Traces[tid].obs

TInit == tid = 1 /\ sc = Traces[1].sc /\ InitRest
TNext ==
  \/ (Next /\ UNCHANGED tid)
  \/ /\ pc \in {"done", "raised"} /\ tid < NT
     /\ tid' = tid + 1
     /\ sc' = Traces[tid + 1].sc
     /\ pc' = "copies"
     /\ copies' = <<>> /\ base' = <<>> /\ icept' = <<>> /\ plev' = <<>>
     /\ allexp' = <<>> /\ allact' = <<>> /\ actfe' = <<>> /\ icol' = <<>> /\ expfe' = <<>>
     /\ complete' = <<>> /\ active' = <<>> /\ xall' = <<>> /\ mats' = <<>>
TSpec == TInit /\ [][TNext]_<<vars, tid>>

Finished == (pc \in {"done", "raised"} /\ tid = NT) => TLCSet(1, TRUE)
PostOK == TLCGet(1) = TRUE

Mark(name) == PrintT(<<"FAIL", ToJson([tid |-> tid, clause |-> name])>>)
Chk(name, cond) == cond \/ (Mark(name) /\ FALSE)

\* ---- the callers' slicing, and the modelled option domain
TSliceDiscipline == Chk("slice_discipline", SliceDiscipline)
TDomain == /\ Chk("scale_features_unmodelled", ~sc.scale)
           /\ Chk("no_intercept_with_fixed_effects", sc.intercept \/ sc.fes = <<>>)
TNoRaise == Chk("raised", NoRaise)

\* ---- the clauses of C16 on the replayed state
TSameColumns   == Chk("same_columns", SameColumns)
TNonConstant   == Chk("non_constant", NonConstant)
TOneAbsorbed   == Chk("one_absorbed", OneAbsorbed)
TSeenLevel     == Chk("seen_level", SeenLevel)
TUnseenLevel   == Chk("unseen_level", UnseenLevel)
TCentered      == Chk("centered", Centered)
TOtherPooled   == Chk("other_pooled", OtherPooled)
TStateCopies   == Chk("state_copies_only_reporting", StateCopiesOnlyReporting)

\* ---- the real matrices equal the replayed ones
\* d = 0 encodes NaN (features of unexpected units)
CellEq(o, e) == IF o[2] = 0 \/ e[2] = 0 THEN o[2] = e[2] ELSE REq(o, e)
MatEq(name, om, em) ==
  /\ Chk(name \o "_rows", Len(om) = Len(em))
  /\ \A i \in DOMAIN em : i <= Len(om) =>
       /\ Chk(name \o "_width", Len(om[i]) = Len(em[i]))
       /\ \A j \in DOMAIN em[i] : j <= Len(om[i]) => Chk(name \o "_cell", CellEq(om[i][j], em[i][j]))

ObsColumns ==
  Done => /\ Chk("complete_columns", Obs.complete = complete)
          /\ Chk("active_columns", Obs.active = active)
ObsXall == Done => MatEq("xall", Obs.xall, xall)
ObsMats ==
  Done => /\ Chk("slice_count", Len(Obs.mats) = Len(mats))
          /\ \A a \in DOMAIN mats : a <= Len(Obs.mats) =>
               /\ Chk("slice_kind", Obs.mats[a].kind = mats[a].kind)
               /\ Chk(mats[a].kind \o "_columns", Obs.mats[a].cols = mats[a].cols)
               /\ (Obs.mats[a].cols = mats[a].cols => MatEq(mats[a].kind \o "_matrix", Obs.mats[a].M, mats[a].M))
=============================================================================
