----------------------------- MODULE MC_Ledger -----------------------------
(* Bounded scenario universe for Ledger: TLC enumerates every assignment of unit kinds and keys
   to NUnits units, every policy, office kind, state blocklist and request list, runs the code-shaped
   pipeline of Ledger and checks the declarative properties in the terminal state.  With Export = TRUE
   every terminal state is printed as JSON (scenario + expected tables) for replay into the real code. *)
EXTENDS Ledger, Json

CONSTANTS NUnits, States, Counties, Classes, Districts, Policies, Offices, LevelLists, BlockLists,
          AllowMismatch, Export, WithOutputs

LL_All == {<<"postal_code">>, <<"postal_code", "county_fips", "county_classification", "district">>,
           <<"county_classification", "postal_code">>, <<"county_fips", "postal_code">>}
LL_Full == {<<"postal_code", "county_fips", "county_classification", "district">>}
BL_All == {<<>>, <<"S2">>}
BL_None == {<<>>}

NewCounty   == "c9"
NewDistrict == "d9"

Pow4(i) == IF i = 1 THEN 4 ELSE IF i = 2 THEN 16 ELSE IF i = 3 THEN 64 ELSE IF i = 4 THEN 256 ELSE 1024

ExpKinds == {"rep", "part", "none0", "absent", "blkRep", "blkNon", "zeroRep", "zeroNon", "tfRep", "rep0", "blkZero", "nullOther"}
              \cup (IF AllowMismatch THEN {"mismatch"} ELSE {})

KindSpace ==
  [k : ExpKinds, st : States, co : Counties, cl : Classes, di : Districts, idc : {"-"}, idd : {"-"}]
  \cup [k : {"unexpRep", "unexpNon"}, st : States, co : {"-"}, cl : {"-"}, di : {"-"},
        idc : Counties \cup {NewCounty}, idd : Districts \cup {NewDistrict}]

Other(st) == CHOOSE s \in States \cup {"S0"} : s # st

\* model outputs of a nonreporting unit (inputs of the ledger): any value >= its partial count
OutChoices(v) == IF WithOutputs THEN {v, v + 1, v + 3} ELSE {v}

MkUnit(i, kd, out) ==
  LET k == kd.k
      v == IF k \in {"none0", "absent", "rep0"} THEN 0 ELSE Pow4(i)
      isX == k \in {"unexpRep", "unexpNon"}
  IN [ inBase    |-> ~isX,
       inFeed    |-> k # "absent",
       bstate    |-> IF isX THEN NA ELSE kd.st,
       fstate    |-> IF k = "mismatch" THEN Other(kd.st) ELSE kd.st,
       county    |-> IF isX THEN NA ELSE kd.co,
       cls       |-> IF isX THEN NA ELSE kd.cl,
       district  |-> IF isX THEN NA ELSE kd.di,
       idCounty  |-> IF isX THEN kd.idc ELSE kd.co,
       idDistrict|-> IF isX THEN kd.idd ELSE kd.di,
       rep       |-> k \in {"rep", "blkRep", "zeroRep", "tfRep", "rep0", "blkZero", "mismatch", "unexpRep", "nullOther"},
       nullRes   |-> k = "nullOther",
       votes     |-> v,
       blockUnit |-> k \in {"blkRep", "blkNon", "blkZero"},
       zeroBase  |-> k \in {"zeroRep", "zeroNon", "blkZero"},
       tfStrange |-> k \in {"tfRep", "rep0", "zeroRep", "blkZero"},   \* a zero baseline or zero votes forces factor 0
       outlierT  |-> FALSE,
       outlierM  |-> FALSE,
       kind      |-> k,
       pt        |-> 0,
       pm        |-> 0,
       pred      |-> out,
       lower     |-> IF WithOutputs THEN <<out>> ELSE <<>>,
       upper     |-> IF WithOutputs THEN <<out + 2>> ELSE <<>> ]

AllKeyStrings == States \cup {"S0"} \cup Counties \cup {NewCounty} \cup Classes \cup Districts \cup {NewDistrict}
\* any fixed total order will do for the model; the materialiser uses the same strings so pandas agrees
Order == SetToSortSeq(AllKeyStrings, LAMBDA a, b : TRUE)

Init ==
  /\ \E kinds \in [1..NUnits -> KindSpace] :
     \E pol \in Policies, off \in Offices, lv \in LevelLists, bl \in BlockLists :
     \E outs \in [1..NUnits -> 0..(IF WithOutputs THEN 2 ELSE 0)] :
       sc = [ extraRep |-> 0, optT |-> FALSE, optM |-> FALSE, isMargin |-> FALSE, policy |-> pol, districtOffice |-> off, districtGut |-> off, levels |-> lv, blockStates |-> bl,
              nalpha |-> IF WithOutputs THEN 1 ELSE 0, order |-> Order,
              units |-> [i \in 1..NUnits |->
                          LET v == IF kinds[i].k \in {"none0", "absent", "rep0"} THEN 0 ELSE Pow4(i)
                          IN  MkUnit(i, kinds[i], v + (CASE outs[i] = 0 -> 0 [] outs[i] = 1 -> 1 [] OTHER -> 3))] ]
  /\ InitRest

Spec == Init /\ [][Next]_vars

\* ---- export of terminal states for replay into the implementation
ExpectedJson ==
  [ utable |-> [i \in Ids |-> IF i \in DOMAIN utable THEN utable[i] ELSE [absent |-> TRUE]],
    tables |-> [l \in Levels |->
                 [k \in 1..Len(tables[l].rows) |->
                    LET g == tables[l].rows[k] IN
                    [key |-> g, counted |-> tables[l].val[g].counted, reporting |-> tables[l].val[g].reporting,
                     pred |-> tables[l].val[g].pred, lower |-> tables[l].val[g].lower,
                     upper |-> tables[l].val[g].upper]]] ]
ExportDone == (Export /\ pc = "done") => PrintT(<<"SCEN", ToJson([sc |-> sc, expect |-> ExpectedJson])>>)

\* ---- witnesses against vacuity (negated: TLC reports a "violation" = the witness exists; used by the self-test only)
SomeGroupOnlyUnexpected ==
  Done => \A l \in Levels : \A g \in DOMAIN tables[l].val :
            ~(\A i \in DOMAIN utable : Attributable(i, l, g) => utable[i].cat = "unexpected")
=============================================================================
