SPECIFICATION TSpec
CONSTANTS
  LoopOrder = "estimand_outer"
  CacheSlots = "per_alpha"
  CacheRead = "requested"
  PredRead = "own"
  UnitCategoryInMergeKeys = TRUE
  DistrictInMergeKeys = TRUE
  ReportingInMergeKeys = TRUE
INVARIANT EventOK
INVARIANT TReadsOwn
INVARIANT TNoStaleColumn
INVARIANT TCellFunctional
INVARIANT TStableKeys
INVARIANT TablesOK
INVARIANT CellsOK
CONSTRAINT Finished
POSTCONDITION PostOK
CHECK_DEADLOCK FALSE
