SPECIFICATION Spec
CONSTANTS
  F1 = FALSE
  Tol = 1
  Lams = {"zero", "pos"}
  Export = TRUE
  MaxEst = 3
  MaxAlpha = 3
CONSTRAINT ExportDone
INVARIANT NotFatal
INVARIANT RetryArgs
INVARIANT NoExtraFits
INVARIANT OneCoefficient
INVARIANT Progress

CHECK_DEADLOCK FALSE
