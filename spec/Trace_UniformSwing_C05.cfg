SPECIFICATION TSpec
INVARIANT TMedianIsWeightedMedian
INVARIANT TCommonFactor
INVARIANT TFloorAtPartial
INVARIANT ObsPreds
CONSTRAINT Finished
CONSTRAINT Excluded
POSTCONDITION PostOK
CHECK_DEADLOCK FALSE
