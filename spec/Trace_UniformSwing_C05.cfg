SPECIFICATION TSpec
INVARIANT TMedianIsWeightedMedian
INVARIANT TCommonFactor
INVARIANT TFloorAtPartial
INVARIANT ObsPreds
INVARIANT ObsWeights
CONSTRAINT Finished
CONSTRAINT Excluded
POSTCONDITION PostOK
CHECK_DEADLOCK FALSE
