------------------------ MODULE MC_BootstrapIntervals ------------------------
(* Two bounded models:
   "ranks":  every (alpha permille, B) of a grid is one state; validity of every candidate rank, monotonicity in
             alpha between neighbouring levels (hence nesting for every pair of levels by transitivity);
   "bounds": every sorted draw vector over a small range, every prediction, pairs of levels: ordering, strict
             containment of the prediction after the straddle, nesting. *)
EXTENDS BootstrapIntervals
CONSTANTS Mode, MaxB, DrawVals, Preds, Levels

VARIABLES A, Bn, xs, p
mvars == <<A, Bn, xs, p>>

SortedSeqs(n) == {s \in [1..n -> DrawVals] : \A i \in 1..(n - 1) : s[i] <= s[i + 1]}

Init ==
  IF Mode = "ranks"
  THEN A \in 1..999 /\ Bn \in 2..MaxB /\ xs = <<>> /\ p = 0
  ELSE A \in Levels /\ Bn \in 2..MaxB /\ xs \in SortedSeqs(Bn) /\ p \in Preds
Next == UNCHANGED mvars
Spec == Init /\ [][Next]_mvars

RanksValid ==
  \A rl \in LowerRankCands(A, Bn), ru \in UpperRankCands(A, Bn) : ValidRanks(rl, ru, Bn)
RanksMonotone ==   \* a higher level uses a lower (or equal) lower rank and a higher (or equal) upper rank
  A < 999 => /\ \A r1 \in LowerRankCands(A, Bn), r2 \in LowerRankCands(A + 1, Bn) : r2 <= r1
             /\ \A r1 \in UpperRankCands(A, Bn), r2 \in UpperRankCands(A + 1, Bn) : r1 <= r2
NatIndices ==
  \A rl \in LowerRankCands(A, Bn), ru \in UpperRankCands(A, Bn) :
     /\ 2 * rl - 1 >= -1 /\ 2 * ru + 1 <= 2 * Bn + 1
     /\ (2 * rl <= 2 * Bn - 1) /\ (ru < Bn => 2 * ru + 1 <= 2 * Bn - 1)

BoundsOrdered ==
  Mode = "bounds" =>
    \A rl \in LowerRankCands(A, Bn), ru \in UpperRankCands(A, Bn) :
       /\ RLe(UnitLower(p, xs, ru), UnitUpper(p, xs, rl))
       /\ RLt(AggLower(p, xs, ru), RInt(p)) /\ RLt(RInt(p), AggUpper(p, xs, rl))
BoundsNested ==
  Mode = "bounds" =>
    \A A2 \in Levels : A < A2 =>
      \A rl \in LowerRankCands(A, Bn), ru \in UpperRankCands(A, Bn),
         rl2 \in LowerRankCands(A2, Bn), ru2 \in UpperRankCands(A2, Bn) :
           /\ RLe(UnitLower(p, xs, ru2), UnitLower(p, xs, ru)) /\ RLe(UnitUpper(p, xs, rl), UnitUpper(p, xs, rl2))
           /\ RLe(AggLower(p, xs, ru2), AggLower(p, xs, ru)) /\ RLe(AggUpper(p, xs, rl), AggUpper(p, xs, rl2))

DV == {-3, -1, 0, 2}
PR == {-2, 0, 3}
LV == {500, 700, 900, 990}
=============================================================================
