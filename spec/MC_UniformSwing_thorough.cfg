SPECIFICATION Spec
CONSTANTS
  RepSizes = {3, 4, 5, 6}
  Export = FALSE
CONSTRAINT ExportDone
CONSTRAINT ExportExcluded
INVARIANT MedianIsMinimiser
INVARIANT MedianIsWeightedMedian
INVARIANT CommonFactor
INVARIANT FloorAtPartial
INVARIANT ExcludedIffNotUnique
CHECK_DEADLOCK FALSE
