SPECIFICATION Spec
CONSTANTS
  MaxV = 3
  MaxTurnout = 4
  PevChoices <- Pev_quick
  AllowZeroFinal = FALSE
  Export = TRUE
  IntTruncation = TRUE
  MaxDist = 5
CONSTRAINT ExportDone
CHECK_DEADLOCK FALSE
