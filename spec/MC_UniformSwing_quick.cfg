SPECIFICATION Spec
CONSTANTS
  RepSizes = {3, 4}
  Export = FALSE
CONSTRAINT ExportDone
CONSTRAINT ExportExcluded
INVARIANT MedianIsMinimiser
INVARIANT MedianIsWeightedMedian
INVARIANT CommonFactor
INVARIANT FloorAtPartial
INVARIANT ExcludedIffNotUnique
CHECK_DEADLOCK FALSE
