------------------------------ MODULE Estimands ------------------------------
(***************************************************************************)
(* Supplementary model (no listed property): how the columns a model run   *)
(* works on come into being - handlers/data/Estimandizer.py                *)
(*   add_estimand_baselines  (PreprocessedDataHandler.load_data)           *)
(*   add_estimand_results    (LiveDataHandler / MockLiveDataHandler and,   *)
(*                            with include_results_estimand, load_data)    *)
(*   add_weights, and the two generated estimands `margin` and             *)
(*   `party_vote_share_dem` (looked up by NAME in the module's globals).   *)
(*                                                                         *)
(* A frame is a map column-name -> value of ONE row (every operation is    *)
(* row-wise, so one row with well chosen values covers the case analysis). *)
(* A value is [k, n, d]:  k = "num" (the rational n/d, d > 0, reduced),    *)
(* "nan", or "huge" (what nan_to_num makes of +inf when no replacement is  *)
(* given).  One action per statement of the code; a KeyError ends the run  *)
(* in pc = "error" with the frame as it was (the generators evaluate their *)
(* right-hand sides before assigning).                                      *)
(***************************************************************************)
EXTENDS Integers, Sequences, FiniteSets, TLC

CONSTANTS NONE,  \* the pointer value None ("a new estimand": the baseline column carries the estimand's name)
          F17    \* TRUE: the code as found before the repair of finding F17

VARIABLES
  par,    \* [entry, historical, includeRes, ests : Seq([e, ptr])]  the call
  inp,    \* the frame handed in (history variable, never changes)
  m,      \* [cols : name -> value, ret : Seq(name)]  the frame being built and columns_to_return
  i,      \* index of the estimand being processed
  pc
evars == <<par, inp, m, i, pc>>

------------------------------------------------------------------------------
\* values
GCD(a, b) == LET RECURSIVE g(_, _)
                 g(x, y) == IF y = 0 THEN x ELSE g(y, x % y)
             IN  g(IF a < 0 THEN -a ELSE a, IF b < 0 THEN -b ELSE b)
Num(n, d) == LET s == IF d < 0 THEN -1 ELSE 1
                 g == GCD(n, d)
             IN  [k |-> "num", n |-> (s * n) \div g, d |-> (s * d) \div g]
IntV(n)  == [k |-> "num", n |-> n, d |-> 1]
NaN     == [k |-> "nan", n |-> 0, d |-> 1]
Huge    == [k |-> "huge", n |-> 1, d |-> 1]
Zero    == IntV(0)
IsNum(v) == v.k = "num"

Plus(a, b)  == IF IsNum(a) /\ IsNum(b) THEN Num(a.n * b.d + b.n * a.d, a.d * b.d) ELSE NaN
Minus(a, b) == IF IsNum(a) /\ IsNum(b) THEN Num(a.n * b.d - b.n * a.d, a.d * b.d) ELSE NaN
\* a / b in floating point followed by nan_to_num: `mode` "zero" is nan_to_num(x, nan=0, posinf=0, neginf=0),
\* "default" is nan_to_num(x) (nan -> 0, +inf -> the largest float).  Numerators are never negative where "default"
\* is used.
DivToNum(a, b, mode) ==
  IF ~(IsNum(a) /\ IsNum(b)) THEN Zero                      \* NaN operand -> nan -> 0
  ELSE IF b.n = 0 THEN (IF a.n = 0 \/ mode = "zero" THEN Zero ELSE Huge)
  ELSE Num(a.n * b.d, a.d * b.n)

Has(c, name) == name \in DOMAIN c
Put(c, name, v) == [x \in DOMAIN c \cup {name} |-> IF x = name THEN v ELSE c[x]]

------------------------------------------------------------------------------
\* the two generated estimands; result [ok, cols, added]
Fail(c) == [ok |-> FALSE, cols |-> c, added |-> <<>>]
GenMargin(c, pre) ==
  IF ~(Has(c, pre \o "dem") /\ Has(c, pre \o "gop")) THEN Fail(c)
  ELSE LET w  == Plus(c[pre \o "dem"], c[pre \o "gop"])
           mg == Minus(c[pre \o "dem"], c[pre \o "gop"])
           c1 == Put(Put(c, pre \o "weights", w), pre \o "margin", mg)
       IN  [ok |-> TRUE, cols |-> Put(c1, pre \o "normalized_margin", DivToNum(mg, w, "zero")),
            added |-> <<pre \o "weights", pre \o "normalized_margin">>]
GenShare(c, pre) ==
  IF ~(Has(c, pre \o "dem") /\ Has(c, pre \o "turnout")) THEN Fail(c)
  ELSE [ok |-> TRUE, cols |-> Put(c, pre \o "party_vote_share_dem", DivToNum(c[pre \o "dem"], c[pre \o "turnout"], "default")),
        added |-> <<>>]
\* globals()[estimand]: only these two names are functions of the module; every other name is a KeyError
Generate(e, c, pre) ==
  IF e = "margin" THEN GenMargin(c, pre)
  ELSE IF e = "party_vote_share_dem" THEN GenShare(c, pre)
  ELSE Fail(c)

------------------------------------------------------------------------------
\* pure step functions on a machine state x = [cols, ret, err]
Err(x) == [x EXCEPT !.err = TRUE]

AddWeights(x, pre) ==
  IF ~Has(x.cols, pre \o "turnout") THEN Err(x)
  ELSE [x EXCEPT !.cols = Put(x.cols, pre \o "weights", x.cols[pre \o "turnout"])]

BaselineStep(x, est, historical) ==
  LET p    == IF est.ptr = NONE THEN est.e ELSE est.ptr
      bcol == "baseline_" \o p
      \* the column is already there (handed in, or left by an earlier run on the same frame): nothing is generated, but
      \* the weights of a margin run are the two party votes all the same (repair of finding F17; F17 = TRUE is the code
      \* as found: the weights stayed at the turnout that AddWeights had just set)
      found == IF ~F17 /\ est.e = "margin" /\ Has(x.cols, "baseline_dem") /\ Has(x.cols, "baseline_gop")
               THEN Put(x.cols, "baseline_weights", Plus(x.cols["baseline_dem"], x.cols["baseline_gop"]))
               ELSE x.cols
      g    == IF Has(x.cols, bcol) THEN [ok |-> TRUE, cols |-> found, added |-> <<>>] ELSE Generate(est.e, x.cols, "baseline_")
  IN  IF ~g.ok THEN Err(x)
      ELSE IF historical THEN [x EXCEPT !.cols = g.cols]
      ELSE IF ~Has(g.cols, bcol) THEN Err([x EXCEPT !.cols = g.cols])   \* pointer names a column nobody creates
      ELSE [x EXCEPT !.cols = Put(g.cols, "last_election_results_" \o est.e, Plus(g.cols[bcol], IntV(1)))]

ResultsWeights(x, historical) ==
  IF historical \/ Has(x.cols, "results_weights") THEN x ELSE AddWeights(x, "results_")

\* HistoricalBlank is the deliberate special case of the code: a historical run that lacks a results column gets an
\* empty one AND an empty results_turnout (an existing results_turnout is overwritten)
ResultsStep(x, e, historical) ==
  LET rcol == "results_" \o e
  IN  IF Has(x.cols, rcol) THEN [x EXCEPT !.ret = Append(x.ret, rcol)]
      ELSE LET g == Generate(e, x.cols, "results_")
           IN  IF g.ok THEN [x EXCEPT !.cols = g.cols, !.ret = Append(x.ret, rcol) \o g.added]
               ELSE IF historical
                    THEN [x EXCEPT !.cols = Put(Put(x.cols, rcol, NaN), "results_turnout", NaN), !.ret = Append(x.ret, rcol)]
                    ELSE Err(x)

InSeq(s, v) == \E k \in DOMAIN s : s[k] = v
ResultsFinish(x) == IF InSeq(x.ret, "results_turnout") THEN x ELSE [x EXCEPT !.ret = Append(x.ret, "results_turnout")]

\* the whole call as one function (used to state order independence); the actions below take the same steps one by one
RECURSIVE RunB(_, _, _, _), RunR(_, _, _, _)
RunR(x, es, k, historical) ==
  IF x.err THEN x
  ELSE IF k > Len(es) THEN ResultsFinish(x)
  ELSE RunR(ResultsStep(x, es[k].e, historical), es, k + 1, historical)
RunB(x, es, k, historical) ==
  IF x.err \/ k > Len(es) THEN x ELSE RunB(BaselineStep(x, es[k], historical), es, k + 1, historical)
Start(c) == [cols |-> c, ret |-> <<>>, err |-> FALSE]
RunAll(p, c, es) ==
  IF p.entry = "results" THEN RunR(ResultsWeights(Start(c), p.historical), es, 1, p.historical)
  ELSE LET b == RunB(AddWeights(Start(c), "baseline_"), es, 1, p.historical)
       IN  IF b.err \/ ~p.includeRes THEN b ELSE RunR(ResultsWeights(b, p.historical), es, 1, p.historical)

------------------------------------------------------------------------------
\* actions: one per statement
Fin(x, nextpc) == IF x.err THEN "error" ELSE nextpc
NEst == Len(par.ests)

BWeights ==
  /\ pc = "b_weights"
  /\ LET x == AddWeights(m, "baseline_") IN m' = x /\ pc' = Fin(x, "b_est")
  /\ i' = 1 /\ UNCHANGED <<par, inp>>
BEst ==
  /\ pc = "b_est" /\ i <= NEst
  /\ LET x == BaselineStep(m, par.ests[i], par.historical) IN m' = x /\ pc' = Fin(x, "b_est")
  /\ i' = i + 1 /\ UNCHANGED <<par, inp>>
BEnd ==
  /\ pc = "b_est" /\ i > NEst
  /\ pc' = IF par.includeRes THEN "r_weights" ELSE "done"
  /\ UNCHANGED <<par, inp, m, i>>
RWeights ==
  /\ pc = "r_weights"
  /\ LET x == ResultsWeights(m, par.historical) IN m' = x /\ pc' = Fin(x, "r_est")
  /\ i' = 1 /\ UNCHANGED <<par, inp>>
REst ==
  /\ pc = "r_est" /\ i <= NEst
  /\ LET x == ResultsStep(m, par.ests[i].e, par.historical) IN m' = x /\ pc' = Fin(x, "r_est")
  /\ i' = i + 1 /\ UNCHANGED <<par, inp>>
RFinish ==
  /\ pc = "r_est" /\ i > NEst
  /\ m' = ResultsFinish(m) /\ pc' = "done"
  /\ UNCHANGED <<par, inp, i>>
ENext == BWeights \/ BEst \/ BEnd \/ RWeights \/ REst \/ RFinish

EInitRest ==
  /\ m = Start(inp) /\ i = 1
  /\ pc = IF par.entry = "results" THEN "r_weights" ELSE "b_weights"

------------------------------------------------------------------------------
\* properties
Done == pc = "done"
EstNames == {par.ests[k].e : k \in DOMAIN par.ests}

\* the stepwise run and the functional definition agree
StepwiseIsFunctional ==
  (pc \in {"done", "error"}) => LET f == RunAll(par, inp, par.ests) IN f.err = (pc = "error") /\ (Done => f = m)

\* a column that was handed in keeps its value; the only columns the code may re-define are the weights and, in the
\* historical special case, results_turnout
NoSilentOverwrite ==
  \A c \in DOMAIN inp :
     c \in DOMAIN m.cols /\ (m.cols[c] # inp[c] => c \in {"baseline_weights", "results_weights"} \/ (par.historical /\ c = "results_turnout"))

LastElectionIsBaselinePlusOne ==
  (Done /\ ~par.historical /\ par.entry = "baselines") =>
     \A k \in DOMAIN par.ests :
        LET est == par.ests[k]
            p   == IF est.ptr = NONE THEN est.e ELSE est.ptr
        IN  m.cols["last_election_results_" \o est.e] = Plus(m.cols["baseline_" \o p], IntV(1))

\* the weights of a run that asks for the margin are the two-party votes - whether the margin column was generated or
\* was already in the frame (as long as the party columns are there) -, the turnout otherwise
BaselineWeightsRule ==
  (Done /\ par.entry = "baselines") =>
     LET twoParty == "margin" \in EstNames /\ Has(inp, "baseline_dem") /\ Has(inp, "baseline_gop")
     IN  m.cols["baseline_weights"] = IF twoParty THEN Plus(inp["baseline_dem"], inp["baseline_gop"]) ELSE inp["baseline_turnout"]
\* running the same call again on the frame it returned gives the same frame (what a caller that re-uses its frame sees)
Idempotent ==
  (Done /\ par.entry = "baselines" /\ ~par.includeRes) =>
     LET again == RunAll(par, m.cols, par.ests) IN ~again.err /\ again.cols = m.cols

NormalizedMarginInRange ==
  \A pre \in {"baseline_", "results_"} :
     LET c == pre \o "normalized_margin"
     IN  (Has(m.cols, c) /\ ~Has(inp, c)) => /\ IsNum(m.cols[c])
                                             /\ -m.cols[c].d <= m.cols[c].n /\ m.cols[c].n <= m.cols[c].d

\* every name in columns_to_return is a column of the returned frame, provided the feed carries results_turnout
ReturnedColumnsExist ==
  (Done /\ Has(inp, "results_turnout")) => \A k \in DOMAIN m.ret : Has(m.cols, m.ret[k])
\* ... without that proviso it fails (results_weights present, results_turnout absent): finding demonstration
ReturnedColumnsExistAlways == Done => \A k \in DOMAIN m.ret : Has(m.cols, m.ret[k])

\* results_turnout is always among the returned columns, exactly once
TurnoutReturnedOnce ==
  (Done /\ (par.entry = "results" \/ par.includeRes)) => Cardinality({k \in DOMAIN m.ret : m.ret[k] = "results_turnout"}) = 1

\* the frame does not depend on the order in which the estimands are listed (live runs)
Swap(es) == <<es[2], es[1]>>
OrderIndependentLive ==
  (pc \in {"b_weights", "r_weights"} /\ i = 1 /\ Len(par.ests) = 2 /\ ~par.historical) =>
     LET a == RunAll(par, inp, par.ests)
         b == RunAll(par, inp, Swap(par.ests))
     IN  a.err = b.err /\ (~a.err => a.cols = b.cols)
\* ... for historical runs the special case makes the order observable: finding demonstration
OrderIndependentAlways ==
  (pc \in {"b_weights", "r_weights"} /\ i = 1 /\ Len(par.ests) = 2) =>
     LET a == RunAll(par, inp, par.ests)
         b == RunAll(par, inp, Swap(par.ests))
     IN  a.err = b.err /\ (~a.err => a.cols = b.cols)
=============================================================================
