SPECIFICATION Spec
CONSTANTS
  EstimatorSet <- GaussianOnly
  DistrictKinds <- BothKinds
  EstimandSet <- VoteCounts
  AlphaSet <- Alphas6
  AggSet <- Aggs5
  MaxEsts = 3
  MaxAlphas = 2
  MaxAggs = 3
  Export = TRUE
  LoopOrder = "estimand_outer"
  CacheSlots = "per_alpha"
  CacheRead = "requested"
  PredRead = "own"
  UnitCategoryInMergeKeys = TRUE
  DistrictInMergeKeys = TRUE
  ReportingInMergeKeys = TRUE
INVARIANT ReadsOwn
INVARIANT NoStaleColumn
INVARIANT CellFunctional
INVARIANT StableKeys
CONSTRAINT ExportDone
CHECK_DEADLOCK FALSE
