SPECIFICATION TSpec
INVARIANT ObsUnits
INVARIANT ObsGroups
INVARIANT TDeltaUnits
INVARIANT TDeltaGroups
INVARIANT TDeltaAttr
INVARIANT ObsUnchanged
CONSTRAINT Finished
POSTCONDITION PostOK
CHECK_DEADLOCK FALSE
