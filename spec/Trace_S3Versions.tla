--------------------------- MODULE Trace_S3Versions ---------------------------
(* Validation of recorded real retrievals against S3Versions (code -> spec).
   The trace file (IOEnv.TRACE_FILE) is a JSON array; each element records ONE real call of
   VersionedDataHandler.get_versioned_results() against the scripted fake service:
     sc      : the scenario (version history newest first, window, step, zone)
     failing : ids of the versions whose download fails
     obs     : what the fakes and the wrappers saw -
                 calls     every list_object_versions request: marker position, number of versions served,
                           truncation flag, and whether the client issued another request afterwards
                 listed    ids returned by the outermost list_versions
                 downloads ids for which a download was requested, in order
                 result    kind none | rows | raised, and the projected rows [id, t, zone] of the frame
                 hresult   none | frame | raised  (return value of get_versioned_results)
   The actions of S3Versions are replayed with the service's page lengths and the client's recursion decisions
   taken from the record.  A recorded decision must be explainable by the specification:
     - a further request needs a truncated, non-empty page and must carry the service's next marker;
     - stopping is only allowed where ContinueRule says so (otherwise versions inside the window may be lost).
   The early stop itself is an optimisation the property does not demand: a client that keeps requesting pages
   while the listing is truncated is accepted. *)
EXTENDS S3Versions, Json, IOUtils

VARIABLES tid
Traces == JsonDeserialize(IOEnv.TRACE_FILE)
NT == Len(Traces)
T == Traces[tid]
Obs == T.obs
Failing == {T.failing[j] : j \in 1..Len(T.failing)}

TInit == tid = 1 /\ sc = Traces[1].sc /\ InitRest

NextCall == Obs.calls[Len(calls) + 1]
TListPage == /\ Len(calls) < Len(Obs.calls)
             /\ ListPage(NextCall.n, NextCall.continued)
TComplete == /\ pc = "wait"
             /\ Complete(Queued[Len(outcomes) + 1].id \notin Failing)

TNext ==
  \/ /\ (TListPage \/ Unwind \/ GetNone \/ Queue \/ TComplete \/ Concat \/ Handler)
     /\ UNCHANGED tid
  \/ /\ pc = "done" /\ tid < NT
     /\ tid' = tid + 1
     /\ sc' = Traces[tid + 1].sc
     /\ pc' = "list" /\ marker' = 0 /\ stack' = <<>> /\ acc' = <<>> /\ listed' = <<>>
     /\ requested' = <<>> /\ outcomes' = <<>> /\ rows' = <<>>
     /\ result' = [kind |-> "pending", rows |-> <<>>] /\ hresult' = "pending" /\ calls' = <<>>
TSpec == TInit /\ [][TNext]_<<vars, tid>>

Finished == (pc = "done" /\ tid = NT) => TLCSet(1, TRUE)
PostOK == TLCGet(1) = TRUE

Mark(name) == PrintT(<<"FAIL", ToJson([tid |-> tid, clause |-> name])>>)
Chk(name, cond) == cond \/ (Mark(name) /\ FALSE)

\* ---- the declarative clauses of S3Versions on the replayed state
TExactWindow  == Chk("exact_window_model", ExactWindow)
TStopIsSafe   == Chk("stop_is_safe", StopIsSafe)
TSampled      == Chk("sampled_model", Sampled)
TOwnStamp     == Chk("own_stamp_model", OwnStamp)
TSkipFailures == Chk("skip_failures_model", SkipFailures)
TNoData       == Chk("no_data_model", NoData)

\* ---- the recorded run is a behaviour of the specification
PageOf(c) == SubSeq(V, c.marker + 1, c.marker + c.n)
ObsProtocol ==
  \A k \in 1..Len(calls) :
    LET o == Obs.calls[k]
        c == calls[k]
    IN /\ Chk("marker_follows_service", o.marker = c.marker)
       /\ Chk("page_as_served", o.n = c.n /\ o.truncated = c.truncated)
       /\ Chk("continues_only_if_truncated", o.continued => (c.truncated /\ c.n > 0))
       /\ Chk("stops_only_when_allowed", (~o.continued) => ~ContinueRule(PageOf(c), c.truncated))

\* while the client is still listing there must be a recorded request left to explain the next step
ObsCallCount == (pc = "list") => Chk("list_request_missing", Len(calls) < Len(Obs.calls))

ObsListed == Listing => Chk("exact_window", Obs.listed = Ids(listed))

ObsSampled == (pc \in {"wait", "concat", "got", "done"}) => Chk("sampled", Obs.downloads = requested)

RowsEq(a, b) == /\ Len(a) = Len(b)
                /\ \A j \in 1..Len(a) : j <= Len(b) => (a[j].id = b[j].id /\ a[j].t = b[j].t /\ a[j].zone = b[j].zone)
IdsEq(a, b) == /\ Len(a) = Len(b)
               /\ \A j \in 1..Len(a) : j <= Len(b) => a[j].id = b[j].id

\* result kind "raised" (every download failed) is outside the property: not compared
ObsResult ==
  (Done /\ result.kind # "raised") =>
    /\ Chk(IF result.kind = "none" THEN "no_data" ELSE "result_kind", Obs.result.kind = result.kind)
    /\ (Obs.result.kind = "rows" /\ result.kind = "rows") =>
          /\ Chk("skip_failures", IdsEq(Obs.result.rows, result.rows))
          /\ (IdsEq(Obs.result.rows, result.rows) => Chk("own_stamp", RowsEq(Obs.result.rows, result.rows)))
    /\ Chk(IF hresult = "none" THEN "no_data_handler" ELSE "handler_result", Obs.hresult = hresult)
=============================================================================
