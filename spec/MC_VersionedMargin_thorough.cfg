SPECIFICATION Spec
CONSTANTS
  MaxV = 3
  MaxTurnout = 6
  PevChoices <- Pev_thorough
  Export = FALSE
  IntTruncation = FALSE
  MonotoneOnRescaled = FALSE
  MaxDist = 5
INVARIANT TypeOK
INVARIANT RegularYieldsRows
INVARIANT Convex
INVARIANT Bounded
INVARIANT BeforeFirst
INVARIANT EveryPercent
INVARIANT CorrectionDef
INVARIANT NearestDef
INVARIANT AllMissing
INVARIANT NeverUsed
CHECK_DEADLOCK FALSE
