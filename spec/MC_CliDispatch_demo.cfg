SPECIFICATION Spec
INVARIANT HistoricalRunAlwaysReports
CHECK_DEADLOCK FALSE
