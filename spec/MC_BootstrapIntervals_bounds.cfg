SPECIFICATION Spec
CONSTANTS
  Mode = "bounds"
  MaxB = 5
  DrawVals <- DV
  Preds <- PR
  Levels <- LV
INVARIANT BoundsOrdered
INVARIANT BoundsNested
CHECK_DEADLOCK FALSE
