SPECIFICATION Spec
CONSTANT DistrictMin = 1
CONSTANT MaxCalls = 2
CONSTANT ClipFirst = FALSE
CONSTANT TrainMax = 4
CONSTANT TestMax = 2
CONSTANT Export = FALSE
INVARIANT ClipLast
INVARIANT RunOnce
INVARIANT StreamIsFunctionOfSizes
INVARIANT StoredShapes
CHECK_DEADLOCK FALSE
