SPECIFICATION Spec
CONSTANTS
  MaxV = 3
  MaxTurnout = 4
  PevChoices <- Pev_quick
  Export = TRUE
  IntTruncation = FALSE
  MonotoneOnRescaled = FALSE
  MaxDist = 5
CONSTRAINT ExportDone
INVARIANT Convex
INVARIANT AllMissing
CHECK_DEADLOCK FALSE
