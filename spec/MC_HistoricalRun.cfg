SPECIFICATION Spec
INVARIANT HiddenStayHidden
INVARIANT ReportingVisible
INVARIANT NothingWrittenLocally
INVARIANT NothingWrittenWhenDeclined
INVARIANT EvaluationShape
INVARIANT LiveBeforeTables
CHECK_DEADLOCK FALSE
