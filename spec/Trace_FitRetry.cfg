SPECIFICATION TSpec
CONSTANTS
  F1 = FALSE
  Tol = 1
INVARIANT RequestOK
INVARIANT Explained
INVARIANT ObsNotFatal
INVARIANT ObsNoExtraFits
INVARIANT ObsRetryArgs
INVARIANT ObsOneCoefficient
INVARIANT ObsSameTables
INVARIANT RetryArgs
INVARIANT NoExtraFits
CONSTRAINT Finished
POSTCONDITION PostOK
CHECK_DEADLOCK FALSE
