SPECIFICATION Spec
CONSTANTS
  MaxV = 2
  MaxTurnout = 3
  PevChoices <- Pev_quick
  AllowZeroFinal = TRUE
  Export = TRUE
  IntTruncation = FALSE
  MaxDist = 5
CONSTRAINT ExportDone
CHECK_DEADLOCK FALSE
