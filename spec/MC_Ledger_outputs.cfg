SPECIFICATION Spec
CONSTANTS
  NUnits = 2
  States = {"S1", "S2"}
  Counties = {"c1"}
  Classes = {"k1"}
  Districts = {"d1"}
  Policies = {"drop", "zero"}
  Offices = {FALSE}
  LevelLists <- LL_Full
  BlockLists <- BL_None
  AllowMismatch = FALSE
  Export = FALSE
  WithOutputs = TRUE
INVARIANT EveryUnitOnce
INVARIANT UnitVotesConserved
INVARIANT Conservation
INVARIANT LevelsSumToFeed
INVARIANT NoKeyLost
INVARIANT ReportingIsModelled
INVARIANT Eligibility
INVARIANT LevelsAgree
INVARIANT GroupFloors
CHECK_DEADLOCK FALSE
