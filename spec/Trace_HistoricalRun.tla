-------------------------- MODULE Trace_HistoricalRun --------------------------
(* code -> spec.  One record per real HistoricalModelClient.get_historical_evaluation call (fresh interpreter per
   environment class, scratch working directory, recording remote fake): the request, the outcome, the ordered remote
   puts (parsed keys), the shape of the returned evaluation and, per historical election that was processed, every
   unit's percentage, true historical results and the results the inner estimate run was handed.  The actions of
   HistoricalRun are replayed for the recorded request; at the end everything observed must equal the model. *)
EXTENDS HistoricalRun, Json, IOUtils

VARIABLES tid
Traces == JsonDeserialize(IOEnv.TRACE_FILE)
NT == Len(Traces)
T == Traces[tid]
SetOf(sq) == {sq[k] : k \in DOMAIN sq}
RqOf(t) ==
  [hist |-> t.job.hist, estimands |-> t.job.estimands, aggs |-> t.job.aggs, env |-> t.env,
   save |-> [given |-> t.job.save.given, opts |-> SetOf(t.job.save.opts)], gate |-> t.job.gate, thr |-> 100,
   \* (a historical election the code never reached has no recorded units: the model then formats an empty feed for it
   \*  and the difference shows up in the outcome / feed clauses instead of an evaluation error)
   units |-> [h \in SetOf(t.job.hist) |-> IF h \in DOMAIN t.units
                                           THEN [u \in DOMAIN t.units[h] |-> [pev |-> t.units[h][u].pev, res |-> t.units[h][u].res]]
                                           ELSE <<>>]]
Reset == hpc' = "check" /\ hi' = 1 /\ aggsUsed' = {} /\ feeds' = <<>> /\ puts' = <<>> /\ result' = <<>> /\ outcome' = "running"
TInit == tid = 1 /\ rq = RqOf(Traces[1]) /\ HInitRest
NextTrace == HDone /\ tid < NT /\ tid' = tid + 1 /\ rq' = RqOf(Traces[tid + 1]) /\ Reset
TNext == (HNext /\ UNCHANGED tid) \/ NextTrace
TSpec == TInit /\ [][TNext]_<<hvars, tid>>
Finished == (tid = NT /\ HDone) => TLCSet(1, TRUE)
PostOK == TLCGet(1) = TRUE
Mark(name) == PrintT(<<"FAIL", ToJson([tid |-> tid, clause |-> name])>>)
Chk(name, cond) == cond \/ (Mark(name) /\ FALSE)

ObsPuts == [k \in DOMAIN T.puts |-> [kind |-> T.puts[k].kind, hist |-> T.puts[k].hist, table |-> T.puts[k].table, ws |-> T.puts[k].ws]]
Adv(name, cond) == cond \/ PrintT(<<"ADVISORY", ToJson([tid |-> tid, clause |-> name])>>)
\* an evaluation put (possible only once the serialisation deviation is repaired) is not part of the comparison
CorePuts == SelectSeq(ObsPuts, LAMBDA p : p.kind # "evaluation")
AtEnd ==
  HDone =>
    \* the two TypeError endings are deviations of the code as found, not something a user relies on: a tree in which the
    \* call completes (and writes the evaluation it was asked for) is drift, not a violation
    /\ Chk("outcome", T.outcome = outcome \/ (outcome = "type_error" /\ T.outcome = "ok"))
    /\ Adv("type_error_ending_no_longer_reproduced", T.outcome = outcome)
    \* the order of the table puts of one estimate run follows a list made from a set: compared as a multiset by position class
    /\ Chk("puts", Len(CorePuts) = Len(puts) /\ SetOf(CorePuts) = SetOf(puts))
    /\ Chk("live_results_before_tables", \A k, l \in DOMAIN ObsPuts : (ObsPuts[k].hist = ObsPuts[l].hist /\ ObsPuts[k].kind = "live" /\ ObsPuts[l].kind = "table") => k < l)
    \* (a call that ends in an error returns nothing, whatever it had evaluated)
    /\ Chk("evaluation_shape", T.outcome = "ok" =>
           /\ DOMAIN T.result = DOMAIN result
           /\ \A h \in DOMAIN result : SetOf(T.result[h].estimands) = result[h].estimands /\ SetOf(T.result[h].tables) = result[h].tables
                                       /\ T.result[h].uniform /\ T.result[h].has_all)
    /\ Chk("feed_of_the_estimate_run",
           /\ DOMAIN T.units = DOMAIN feeds
           /\ \A h \in DOMAIN feeds : \A u \in DOMAIN feeds[h] : \A c \in DOMAIN feeds[h][u] : T.units[h][u].fed[c] = feeds[h][u][c])
\* the model's properties on what the code did
ObsHidden ==
  HDone => Chk("requested_results_of_hidden_units_blank",
               \A h \in DOMAIN T.units : \A u \in DOMAIN T.units[h] : T.units[h][u].pev < 100 => \A c \in SetOf(T.job.estimands) : T.units[h][u].fed[c] = 0)
ObsLocal == HDone => Chk("nothing_written_locally", T.env = "local" => Len(T.puts) = 0)
ObsDeclined == HDone => Chk("nothing_written_when_declined", (T.job.save.given /\ "results" \notin SetOf(T.job.save.opts)) => Len(T.puts) = 0)
=============================================================================
