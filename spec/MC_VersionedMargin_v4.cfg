SPECIFICATION Spec
CONSTANTS
  MaxV = 4
  MaxTurnout = 3
  PevChoices <- Pev_small
  Export = FALSE
  IntTruncation = FALSE
  MonotoneOnRescaled = FALSE
  MaxDist = 5
INVARIANT TypeOK
INVARIANT RegularYieldsRows
INVARIANT Convex
INVARIANT Bounded
INVARIANT BeforeFirst
INVARIANT EveryPercent
INVARIANT CorrectionDef
INVARIANT NearestDef
INVARIANT AllMissing
INVARIANT NeverUsed
CHECK_DEADLOCK FALSE
