SPECIFICATION Spec
CONSTANTS
  Mode = "ranks"
  MaxB = 1000
  DrawVals <- DV
  Preds <- PR
  Levels <- LV
INVARIANT RanksValid
INVARIANT RanksMonotone
INVARIANT NatIndices
CHECK_DEADLOCK FALSE
