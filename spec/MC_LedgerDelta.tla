--------------------------- MODULE MC_LedgerDelta ---------------------------
EXTENDS LedgerDelta, Json
CONSTANTS NUnits, States, XStates, Counties, Classes, Districts, Policies, Offices, LevelLists, Export

LL_All == {<<"postal_code">>, <<"postal_code", "county_fips", "county_classification", "district">>,
           <<"county_classification", "postal_code">>, <<"county_fips", "postal_code">>, <<"district", "postal_code">>}
LL_Full == {<<"postal_code", "county_fips", "county_classification", "district">>}

Pow4(i) == IF i = 1 THEN 4 ELSE IF i = 2 THEN 16 ELSE IF i = 3 THEN 64 ELSE 256
ExpKinds == {"rep", "part", "absent", "blkRep", "zeroNon", "tfRep"}
KindSpace ==
  [k : ExpKinds, st : States, co : Counties, cl : Classes, di : Districts, idc : {"-"}, idd : {"-"}]
  \cup [k : {"unexpRep"}, st : States, co : {"-"}, cl : {"-"}, di : {"-"}, idc : Counties, idd : Districts]
XSpace == [st : XStates, idc : Counties \cup {"c9"}, idd : Districts \cup {"d9"}, rep : BOOLEAN]

Mk(i, kd) ==
  LET k == kd.k  isX == k = "unexpRep"  v == IF k = "absent" THEN 0 ELSE Pow4(i) IN
  [ inBase |-> ~isX, inFeed |-> k # "absent", bstate |-> IF isX THEN NA ELSE kd.st, fstate |-> kd.st,
    county |-> IF isX THEN NA ELSE kd.co, cls |-> IF isX THEN NA ELSE kd.cl, district |-> IF isX THEN NA ELSE kd.di,
    idCounty |-> IF isX THEN kd.idc ELSE kd.co, idDistrict |-> IF isX THEN kd.idd ELSE kd.di,
    rep |-> k \in {"rep", "blkRep", "tfRep", "unexpRep"}, votes |-> v,
    blockUnit |-> k = "blkRep", zeroBase |-> k = "zeroNon", tfStrange |-> k = "tfRep",
    nullRes |-> FALSE, outlierT |-> FALSE, outlierM |-> FALSE, kind |-> k, pt |-> 0, pm |-> 0,
    pred |-> IF k = "part" THEN v + 1 ELSE v, lower |-> <<v>>, upper |-> <<v + 2>> ]
MkX(x) ==
  [ inBase |-> FALSE, inFeed |-> TRUE, bstate |-> NA, fstate |-> x.st, county |-> NA, cls |-> NA, district |-> NA,
    idCounty |-> x.idc, idDistrict |-> x.idd, rep |-> x.rep, votes |-> 1024, blockUnit |-> FALSE, zeroBase |-> FALSE,
    tfStrange |-> FALSE, nullRes |-> FALSE, outlierT |-> FALSE, outlierM |-> FALSE, kind |-> "extra", pt |-> 0, pm |-> 0,
    pred |-> 1024, lower |-> <<1024>>, upper |-> <<1024>> ]

AllKeyStrings == States \cup XStates \cup Counties \cup {"c9"} \cup Classes \cup Districts \cup {"d9"}
Order == SetToSortSeq(AllKeyStrings, LAMBDA a, b : TRUE)

Init ==
  /\ \E kinds \in [1..NUnits -> KindSpace] : \E x \in XSpace :
     \E pol \in Policies, off \in Offices, lv \in LevelLists :
       /\ sc = [ extraRep |-> 0, optT |-> FALSE, optM |-> FALSE, isMargin |-> FALSE, policy |-> pol,
                 districtOffice |-> off, districtGut |-> off, levels |-> lv, blockStates |-> <<>>,
                 nalpha |-> 1, order |-> Order, units |-> [i \in 1..NUnits |-> Mk(i, kinds[i])] ]
       /\ extra = MkX(x)
  /\ phase = 1 /\ prev = <<>>
  /\ InitRest

Spec == Init /\ [][DNext]_dvars

ExportDone == (Export /\ pc = "done" /\ phase = 2) => PrintT(<<"SCEN", ToJson([sc |-> sc])>>)
=============================================================================
