---------------------------- MODULE MC_FitRetry ----------------------------
(* Every fault script: estimator x lambda class x (1-2 estimands) x (1-2 levels) x (no fault | position x kind).
   Terminal states are exported and replayed into the real client. *)
EXTENDS FitRetry, Json
CONSTANTS Lams, Export, MaxEst, MaxAlpha

AlphaSeqs == {<<700000>>, <<700000, 950000>>, <<700000, 950000, 800000>>}   \* 0.95: bound quantiles with a third decimal
Scenarios ==
  { s \in [estimator : {"nonparametric", "gaussian"}, lam : Lams, nEst : 1..MaxEst,
           alphas : {a \in AlphaSeqs : Len(a) <= MaxAlpha}, fpos : 0..(MaxEst * (1 + 2 * MaxAlpha)),
           fkind : {"none", "solver_error", "warning"}] : WellFormed(s) }
Init == sc \in Scenarios /\ FInitRest
Spec == Init /\ [][FNext]_fvars

\* the linear-programme case of SameTables (for lambda > 0 see MC_FitRetry_lambda_finding.cfg)
SameTablesLP == (sc.lam = "zero") => SameTables

ExportDone ==
  (Export /\ phase \in {"final", "fatal"}) =>
     PrintT(<<"SCEN", ToJson([sc |-> sc, phase |-> phase, ncalls |-> Len(calls),
                              calls |-> [i \in DOMAIN calls |-> [pos |-> calls[i].pos, attempt |-> calls[i].attempt,
                                                                  tau |-> calls[i].args.tau, normalize |-> calls[i].args.normalize,
                                                                  outcome |-> calls[i].outcome]]])>>)
=============================================================================
