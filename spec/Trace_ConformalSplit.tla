------------------------ MODULE Trace_ConformalSplit ------------------------
(* Validation of values recorded from the real code against ConformalSplit (code -> spec).
   IOEnv.TRACE_FILE is a JSON array of records; `kind` says what was recorded:

   grid  one interval level p (permille): min = get_minimum_reporting_units(p/1000) and, for n = n0, n0+1, ...,
         f100[k] = 100 * _compute_conf_frac(n, p/1000)  (-1 if the value is not a whole number of hundredths)
   fixed est, mins = every value get_minimum_reporting_units returned over the grid, f100s = every fixed fraction
   run   one real run of the gate / split: a ModelClient.get_estimates call, or a direct call of
         get_unit_prediction_intervals (src = "probe"): est, alphas, n = modelled reporting units, dup,
         mins[i] = what get_minimum_reporting_units returned, outcome in {not_enough, client_error, done, crashed},
         splits[i] = [f100, train, cal] seen at get_unit_prediction_interval_bounds / the regression's fit
   rank  one level p: ks[k] = rank (1-based) of the population-weighted correction among n_cal = n0+k-1 distinct
         scores of equal weight (0 if the code returned NaN)
   corr  one real calibration set: rk[i] = dense rank of score i, w[i] = its weight, alpha = aN/aD, popRk = rank of
         the population-weighted correction (0 = not a score), scaled scores sS / correction popS / unadjusted
         bounds lbS, ubS (scale S) and the final bounds of every nonreporting unit

   Each record becomes one state <<pc, sc, st>> of ConformalSplit - the observed values are assigned -, so that the
   module's invariants are evaluated on what the code really did; membership in the candidate sets is checked
   with the module's own operators. *)
EXTENDS ConformalSplit, Json, IOUtils

VARIABLES tid
Traces == JsonDeserialize(IOEnv.TRACE_FILE)
NT == Len(Traces)
T == Traces[tid]

Mark(name) == PrintT(<<"FAIL", ToJson([tid |-> tid, clause |-> name])>>)
Chk(name, cond) == cond \/ (Mark(name) /\ FALSE)
\* advisory: the recorded value differs from the specification's exact model of the arithmetic (minimum, fraction,
\* floor, smallest admissible correction) in a way the properties do not forbid; counted as drift, never a violation
Adv(name, cond) == cond \/ PrintT(<<"ADVISORY", ToJson([tid |-> tid, clause |-> name])>>)

\* rows ordered by (score, row), as ConformalSplit.SortCum orders them
TraceSorted(rk) ==
  LET idx == 1..Len(rk)
      before(i, j) == rk[i] < rk[j] \/ (rk[i] = rk[j] /\ i < j)
      pos == [i \in idx |-> Cardinality({j \in idx : before(j, i)}) + 1]
  IN  [k \in idx |-> CHOOSE i \in idx : pos[i] = k]

ScOf(t) ==
  CASE t.kind = "run"  -> [est |-> t.est, alphas |-> t.alphas, n |-> t.n, dup |-> t.dup]
    [] t.kind = "corr" -> [cal |-> [i \in 1..Len(t.rk) |-> [lo |-> t.rk[i], up |-> t.rk[i], w |-> t.w[i]]],
                           alpha |-> <<t.aN, t.aD>>, robust |-> t.robust, su |-> 1, nr |-> <<>>]
    [] OTHER -> [kind |-> t.kind]
StOf(t) ==
  CASE t.kind = "run"  -> [mins |-> t.mins, need |-> NeedLoop(t.mins, Len(t.mins)), splits |-> t.splits]
    [] t.kind = "corr" -> [CorrFresh EXCEPT !.scores = t.rk, !.srt = TraceSorted(t.rk), !.pop = t.popRk,
                                             !.c = <<t.popRk, 1>>]
    [] OTHER -> [kind |-> t.kind]
PcOf(t) ==
  CASE t.kind = "run"  -> t.outcome
    [] t.kind = "corr" -> "apply"
    [] OTHER -> t.kind

Load(k) == /\ tid' = k /\ sc' = ScOf(Traces[k]) /\ st' = StOf(Traces[k]) /\ pc' = PcOf(Traces[k])
TInit == tid = 1 /\ sc = ScOf(Traces[1]) /\ st = StOf(Traces[1]) /\ pc = PcOf(Traces[1])
TNext == tid < NT /\ Load(tid + 1)
TSpec == TInit /\ [][TNext]_<<vars, tid>>

Finished == (tid = NT) => TLCSet(1, TRUE)
PostOK == TLCGet(1) = TRUE

---------------------------------------------------------------------------
(* C14: the grid *)
GridOK ==
  T.kind = "grid" =>
    /\ Adv("minimum_in_candidates:p=" \o ToString(T.p), T.min \in CeilCandidates(T.p))
    /\ \A k \in DOMAIN T.f100 :
         LET n == T.n0 + k - 1 IN
         n >= MinExact(T.p) =>
           Adv("fraction_in_candidates:p=" \o ToString(T.p) \o ",n=" \o ToString(n) \o ",f100=" \o ToString(T.f100[k]),
               T.f100[k] \in Round2Candidates(T.p, n))

\* C14 on the whole grid, from the fraction the real function returned: with the modelled floor step (and its float
\* tie) the split leaves at least one training unit and enough calibration units for the quantile level
GridSound ==
  T.kind = "grid" =>
    \A k \in DOMAIN T.f100 :
      LET n == T.n0 + k - 1
          prod == n * T.f100[k]
          trains == {Max2(1, prod \div 100)} \cup (IF prod % 100 = 0 THEN {Max2(1, (prod \div 100) - 1)} ELSE {})
      IN  n >= T.min =>
            \A tr \in trains :
              LET cal == n - tr IN
              /\ Chk("grid_cal_at_least_one:p=" \o ToString(T.p) \o ",n=" \o ToString(n), cal >= 1)
              /\ Chk("grid_quantile_level_below_one:p=" \o ToString(T.p) \o ",n=" \o ToString(n), T.p * (cal + 1) < 1000 * cal)

(* C14: the estimators whose minimum / fraction does not depend on the level: every value observed over the grid *)
FixedOK ==
  T.kind = "fixed" =>
    /\ \A k \in DOMAIN T.mins : Adv("fixed_minimum:" \o T.est \o "=" \o ToString(T.mins[k]), T.mins[k] \in MinCandidates(T.est, 500))
    /\ \A k \in DOMAIN T.f100s : Adv("fixed_fraction:" \o T.est \o "=" \o ToString(T.f100s[k]), T.f100s[k] \in FracCandidates(T.est, 500, 100))

(* C14: real runs of the gate and the split *)
IsRun == T.kind = "run"
RunMinsOK ==
  IsRun => /\ Chk("one_minimum_per_level", Len(T.mins) = Len(T.alphas))
           /\ \A i \in DOMAIN T.mins :
                Adv("minimum_in_candidates:p=" \o ToString(T.alphas[i]), T.mins[i] \in MinCandidates(T.est, T.alphas[i]))
RunOutcomeOK ==
  (IsRun /\ Len(T.mins) = Len(T.alphas)) =>
    LET want == GateOutcome(NeedLoop(T.mins, Len(T.mins))) IN
    Chk("outcome_" \o T.outcome \o "_expected_" \o (IF want = "split" THEN "done" ELSE want),
        T.outcome = (IF want = "split" THEN "done" ELSE want))
RunSplitsOK ==
  (IsRun /\ T.outcome = "done" /\ Conformal) =>
    /\ Chk("one_split_per_level", Len(T.splits) = Len(T.alphas))
    /\ \A i \in DOMAIN T.splits :
         Adv("split_admissible:p=" \o ToString(T.alphas[i]) \o ",n=" \o ToString(T.n) \o ",f100=" \o ToString(T.splits[i].f100)
               \o ",train=" \o ToString(T.splits[i].train) \o ",cal=" \o ToString(T.splits[i].cal),
             SplitAdmissible(T.alphas[i], T.splits[i]))
\* C14's clauses on the split the code actually made, whatever arithmetic produced it
RunSplitsSound ==
  (IsRun /\ T.outcome = "done" /\ Conformal) =>
    \A i \in DOMAIN T.splits :
      LET sp == T.splits[i] IN
      /\ Chk("train_at_least_one", sp.train >= 1)
      /\ Chk("cal_at_least_one", sp.cal >= 1)
      /\ Chk("train_plus_cal_is_n", sp.train + sp.cal = T.n)
      \* the nonparametric correction needs its quantile level alpha (1 + 1 / cal) below one
      /\ (T.est = "nonparametric" => Chk("quantile_level_below_one", T.alphas[i] * (sp.cal + 1) < 1000 * sp.cal))
WholeRun == IsRun /\ Len(T.mins) = Len(T.alphas) /\ (T.outcome = "done" /\ Conformal => Len(T.splits) = Len(T.alphas))
TMinimumIsCeil       == WholeRun => Chk("minimum_is_ceil", MinimumIsCeil)
TGateExact           == WholeRun => Chk("gate_exact", GateExact)
TDuplicatesRejected  == WholeRun => Chk("duplicates_rejected", DuplicatesRejected)
TCompletes           == WholeRun => Chk("completes_when_minimum_met", T.outcome # "crashed" /\ Completes)
TTrainAtLeastOne     == WholeRun => Chk("train_at_least_one", TrainAtLeastOne)
TCalAtLeastOne       == WholeRun => Chk("cal_at_least_one", CalAtLeastOne)
TSplitPartitions     == WholeRun => Chk("train_plus_cal_is_n", SplitPartitions)
TQuantileLevelBelowOne == WholeRun => Chk("quantile_level_below_one", QuantileLevelBelowOne)

---------------------------------------------------------------------------
(* C04: the rank the real population-weighted correction selects among equal weights *)
RankOK ==
  T.kind = "rank" =>
    \A k \in DOMAIN T.ks :
      LET n == T.n0 + k - 1 IN
      QLevelBelowOne(T.p, n) =>
        \* the rank the code selected covers an exchangeable outstanding unit with probability k / (n_cal + 1) >= alpha
        /\ Chk("rank_gives_coverage:p=" \o ToString(T.p) \o ",ncal=" \o ToString(n), T.ks[k] * 1000 >= T.p * (n + 1))
        /\ Adv("rank_in_candidates:p=" \o ToString(T.p) \o ",ncal=" \o ToString(n) \o ",k=" \o ToString(T.ks[k]),
               T.ks[k] \in RankCandidates(T.p, n))

(* C04: real calibration sets *)
IsCorr == T.kind = "corr"
\* the calibration units are held out: both bound regressions were fitted on the same number of rows, and those rows and
\* the calibration rows partition the reporting units (the code slices one shuffled frame at a single position)
CorrHeldOut ==
  IsCorr => /\ Chk("two_bound_fits", Len(T.nfit) = 2 /\ T.nfit[1] = T.nfit[2])
            /\ Chk("at_least_one_training_unit", T.nfit[1] >= 1)
            /\ Chk("calibration_units_held_out", T.nfit[1] + Len(T.rk) = T.n)
CorrIsScore == IsCorr => Adv("population_correction_is_a_score", T.popRk \in {T.rk[i] : i \in DOMAIN T.rk})
TWeightedCoverage   == (IsCorr /\ T.popRk >= 1) => Chk("weighted_coverage", WeightedCoverage)
TSmallestCorrection == (IsCorr /\ T.popRk >= 1) => Adv("smallest_correction", SmallestCorrection)
\* scaled values (scale T.S): k-th smallest scaled score through the module's sort of the ranks
ScaledSorted(k) == T.sS[st.srt[k]]
ScaledUnweightedTimesDen ==
  LET hN == QNum * (NCal - 1)
      lo == hN \div QDen
      a  == ScaledSorted(lo + 1)
      b  == IF lo + 2 <= NCal THEN ScaledSorted(lo + 2) ELSE a
  IN  a * QDen + (hN - lo * QDen) * (b - a)
\* the correction the code must have applied, in scaled units: the population-weighted one, or (robust) the larger
\* of it and the unweighted interpolated quantile of the recorded scores
CorrScaled == IF T.robust THEN Max2(T.popS, ScaledUnweightedTimesDen \div QDen) ELSE T.popS
\* symmetric application: both final bounds derive from the unadjusted bounds moved outwards by that one correction,
\* un-normalised, floored at the partial count, rounded (slack: scaling of the recorded doubles, < 0.01 vote)
CorrBoundsOK ==
  IsCorr =>
    \A j \in DOMAIN T.nr :
      LET u == T.nr[j]
          slack == 4 * u.last + 4
          lowX == (u.lbS - CorrScaled) * u.last + u.last * T.S
          uppX == (u.ubS + CorrScaled) * u.last + u.last * T.S
          Want(x) == Max2(x, u.partial * T.S)
      IN  /\ Chk("lower_is_bound_minus_correction:unit=" \o ToString(j), 2 * Abs(u.lower * T.S - Want(lowX)) <= T.S + slack)
          /\ Chk("upper_is_bound_plus_correction:unit=" \o ToString(j), 2 * Abs(u.upper * T.S - Want(uppX)) <= T.S + slack)
=============================================================================
