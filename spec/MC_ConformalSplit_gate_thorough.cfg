SPECIFICATION GridSpec
CONSTANTS
  GuardTrain = TRUE
  GridMaxN = 3000
  MultiMaxN = 60
  CalSizes = {2, 3, 4}
  ScoreLo <- Neg3
  ScoreHi = 3
  WeightSeq <- W124
  AlphaSet <- Alphas4
  RankMaxN = 60
  Export = FALSE
INVARIANT MinimumIsCeil
INVARIANT GateExact
INVARIANT DuplicatesRejected
INVARIANT Completes
INVARIANT TrainAtLeastOne
INVARIANT CalAtLeastOne
INVARIANT SplitPartitions
INVARIANT FractionInRange
INVARIANT QuantileLevelAtMostOne
INVARIANT QuantileLevelBelowOne
INVARIANT RankExists
CHECK_DEADLOCK FALSE
