SPECIFICATION TSpec
INVARIANT RanksOK
INVARIANT BoundsOK
INVARIANT ClientOK
CONSTRAINT Finished
POSTCONDITION PostOK
CHECK_DEADLOCK FALSE
