-------------------------- MODULE BootstrapIntervals --------------------------
(***************************************************************************)
(* Interval construction of the bootstrap estimator                        *)
(* (BootstrapElectionModel._get_quantiles, get_unit_prediction_intervals,  *)
(* get_aggregate_prediction_intervals without calls).                      *)
(*                                                                         *)
(* Ranks.  For level alpha (in permille, A = 1..999) and B >= 2 draws      *)
(*    lower rank = floor(((1000-A)/2000) * (B+1)),                         *)
(*    upper rank = ceil (((1000+A)/2000) * (B-1)),  quantile level = rank/B*)
(* The code evaluates these in floating point; where the exact value is an *)
(* integer the float may land on either side, so the floor admits          *)
(* {q-1, q} and the ceiling {q, q+1} there (candidate sets, DESIGN 3.1).   *)
(*                                                                         *)
(* Bounds.  With sorted error draws x[1..B] the numpy quantile at level    *)
(* r/B is the linear interpolation at position (B-1)*r/B; the interval is  *)
(* [pred - Q(upper level), pred - Q(lower level)]; aggregates are then     *)
(* straddled by one thousandth.  Rationals are pairs <<num, den>>, den > 0.*)
(***************************************************************************)
EXTENDS Integers, Sequences, FiniteSets, TLC

LoNum(A, Bn) == (1000 - A) * (Bn + 1)          \* lower rank = floor(LoNum / 2000)
HiNum(A, Bn) == (1000 + A) * (Bn - 1)          \* upper rank = ceil (HiNum / 2000)
FloorDiv(n, d) == n \div d
CeilDiv(n, d)  == (n + d - 1) \div d

LowerRankExact(A, Bn) == FloorDiv(LoNum(A, Bn), 2000)
UpperRankExact(A, Bn) == CeilDiv(HiNum(A, Bn), 2000)
LowerRankCands(A, Bn) == IF LoNum(A, Bn) % 2000 = 0 THEN {LowerRankExact(A, Bn) - 1, LowerRankExact(A, Bn)}
                         ELSE {LowerRankExact(A, Bn)}
UpperRankCands(A, Bn) == IF HiNum(A, Bn) % 2000 = 0 THEN {UpperRankExact(A, Bn), UpperRankExact(A, Bn) + 1}
                         ELSE {UpperRankExact(A, Bn)}

ValidRanks(rl, ru, Bn) == 0 <= rl /\ rl <= ru /\ ru <= Bn
\* national summary indices into the 2B sorted sums: floor(lq*2B), ceil(uq*2B) (again through floats)
NatIdxValid(rl, ru, Bn) == \A i \in {2 * rl - 1, 2 * rl, 2 * ru, 2 * ru + 1} : (i >= 0 /\ i <= 2 * Bn - 1) \/ i \in {-1, 2 * Bn}

---------------------------------------------------------------------------
(* rationals *)
RLe(x, y) == x[1] * y[2] <= y[1] * x[2]
RLt(x, y) == x[1] * y[2] < y[1] * x[2]
RSub(x, y) == <<x[1] * y[2] - y[1] * x[2], x[2] * y[2]>>
RMin(x, y) == IF RLe(x, y) THEN x ELSE y
RMax(x, y) == IF RLe(x, y) THEN y ELSE x
RInt(n) == <<n, 1>>
REq(x, y) == x[1] * y[2] = y[1] * x[2]

\* numpy.quantile(x, r/B) (linear): position h = (B-1) r / B over the sorted draws xs (1-based sequence)
Quantile(xs, r) ==
  LET Bn == Len(xs)
      hn == (Bn - 1) * r           \* h = hn / Bn
      lo == hn \div Bn             \* floor(h)
      fr == hn % Bn                \* fractional part numerator (over Bn)
  IN  IF fr = 0 THEN RInt(xs[lo + 1])
      ELSE <<xs[lo + 1] * Bn + fr * (xs[lo + 2] - xs[lo + 1]), Bn>>

RECURSIVE Gcd(_, _)
Gcd(a, b) == IF b = 0 THEN a ELSE Gcd(b, a % b)
AbsI(x) == IF x < 0 THEN -x ELSE x
RNorm(x) == LET g == Gcd(AbsI(x[1]), x[2]) IN IF g = 0 THEN x ELSE <<x[1] \div g, x[2] \div g>>
RAdd(x, y) == RNorm(<<x[1] * y[2] + y[1] * x[2], x[2] * y[2]>>)
RDiv(n, d) == IF d < 0 THEN <<-n, -d>> ELSE <<n, d>>          \* n / d for integers, d # 0

(* Aggregates with a KNOWN part.  A group's bootstrap error draw is the difference of two ratios whose numerators
   and denominators both contain the known sums of the group's reporting and unexpected units:
       Kyz = sum w*y*z (reporting) + sum margin (unexpected),   Kz = sum w*z (reporting) + sum two-party votes (unexpected)
       draw_b = (Kyz + e1_b) / (Kz + e3_b) - (Kyz + e2_b) / (Kz + e4_b),   pred = (Kyz + yz) / (Kz + z)           *)
KnownDraw(Kyz, Kz, e1, e2, e3, e4) == RNorm(RSub(RDiv(Kyz + e1, Kz + e3), RDiv(Kyz + e2, Kz + e4)))
KnownPred(Kyz, Kz, yz, z) == RDiv(Kyz + yz, Kz + z)
Thousandth == <<1, 1000>>

UnitLower(p, xs, ru) == RSub(RInt(p), Quantile(xs, ru))
UnitUpper(p, xs, rl) == RSub(RInt(p), Quantile(xs, rl))
AggLower(p, xs, ru)  == RMin(UnitLower(p, xs, ru), RInt(p - 1))     \* straddle: one thousandth
AggUpper(p, xs, rl)  == RMax(UnitUpper(p, xs, rl), RInt(p + 1))
=============================================================================
