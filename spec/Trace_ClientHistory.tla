------------------------- MODULE Trace_ClientHistory -------------------------
(* C12, code -> spec.  IOEnv.TRACE_FILE holds one trace per WORLD (an election plus the two concrete argument
   tuples A / B of every estimator): the calls made on the real ModelClient in every interpreter process of the
   check (fork-pool workers of the checking process, and new interpreters started with other PYTHONHASHSEED
   values), in execution order, each with the bit-level digest (`tok`) of the tables it returned.

   The trace is replayed through the ACTIONS of ClientHistory (NewProcess / GetEstimates / NatSummary), so the
   specification computes, for every call, the abstract digest = everything the output may depend on.  `obs` binds
   abstract digests to observed tokens; the trace is accepted iff the binding is a function: two calls whose
   abstract digests are equal returned bit-identical tables.  With the constants of the repaired design the
   abstract digest is a function of the argument tuple alone, i.e. `obs` is the memo [args -> first digest] of
   DESIGN C12.  (With SigmaSeeded = FALSE the same specification accepts differing gaussian tables: it then
   explains the code as found.) *)
EXTENDS ClientHistory, Json, IOUtils

VARIABLES tid, k, obs
Traces == JsonDeserialize(IOEnv.TRACE_FILE)
NT == Len(Traces)
Events == Traces[tid].events
Ev == Events[k]

AllEstimators == {"nonparametric", "gaussian", "bootstrap"}
TwoArgs == {"A", "B"}
DefaultA == {"A"}
AnyHash == {"0"}

tvars == <<hvars, tid, k, obs>>

TInit == tid = 1 /\ k = 1 /\ obs = <<>> /\ HInit("-")

\* the abstract digest of the call that comes next
NextDigest == IF Ev.op = "summary" THEN NatDigest(Ev.sarg) ELSE Digest(Ev.est, Ev.arg, Ev.fresh)
Bind(d) == obs' = [x \in DOMAIN obs \cup {d} |-> IF x \in DOMAIN obs THEN obs[x] ELSE [tok |-> Ev.tok, p |-> Ev.p, hash |-> Ev.hash]]

TNext ==
  \/ /\ k <= Len(Events)
     /\ k' = k + 1 /\ tid' = tid
     /\ CASE Ev.op = "process" -> NewProcess(Ev.hash) /\ obs' = obs
          [] Ev.op = "est"     -> GetEstimates(Ev.est, Ev.arg, Ev.fresh) /\ Bind(Digest(Ev.est, Ev.arg, Ev.fresh))
          [] Ev.op = "summary" -> NatSummary(Ev.sarg) /\ Bind(NatDigest(Ev.sarg))
  \/ /\ k > Len(Events) /\ tid < NT
     /\ tid' = tid + 1 /\ k' = 1 /\ obs' = <<>>
     /\ proc' = [id |-> 1, hash |-> "-", defaults |-> Pristine, frame |-> "pristine", feed |-> "pristine"]
     /\ client' = FreshClient(1) /\ entropy' = 0 /\ seen' = [key \in Keys |-> {}] /\ hist' = <<>>
TSpec == TInit /\ [][TNext]_tvars

Finished == (tid = NT /\ k > Len(Events)) => TLCSet(1, TRUE)
PostOK == TLCGet(1) = TRUE

Mark(name) == PrintT(<<"FAIL", ToJson([tid |-> tid, clause |-> name, k |-> k])>>)
Chk(name, cond) == cond \/ (Mark(name) /\ FALSE)

\* evaluated in the state BEFORE the call is replayed: the call about to be made must agree with the first call
\* that had the same abstract digest
CallOK ==
  (k <= Len(Events) /\ Ev.op # "process") =>
    /\ (Ev.op = "summary" => Chk("summary_without_bootstrap_run_on_the_client", NatSummaryEnabled))
    /\ (Ev.op = "est" \/ NatSummaryEnabled) =>
         LET d == NextDigest IN
         d \in DOMAIN obs =>
           LET f == obs[d] IN
           /\ Chk("equal_arguments_differ_across_hash_seeds", f.hash # Ev.hash => f.tok = Ev.tok)
           /\ Chk("equal_arguments_differ_across_processes", (f.hash = Ev.hash /\ f.p # Ev.p) => f.tok = Ev.tok)
           /\ Chk("equal_arguments_differ_within_process", (f.hash = Ev.hash /\ f.p = Ev.p) => f.tok = Ev.tok)

\* the specification's own memo stays functional while it explains the trace
AbstractFunctional == Chk("specification_digest_not_functional", Functional)
=============================================================================
