SPECIFICATION Spec
CONSTANTS
  Matching = "identity"
  MinRows = 2
  MaxRows = 3
  MaxOutside = 1
  L1 = {"a", "k", "z"}
  L2 = {"p", "q"}
  FESeqs <- FE_12a
  FeatSeqs <- FT_two
  SepSeqs <- SEP_some
  StateSet = {"S1", "S2"}
  CenterSet = {FALSE, TRUE}
  NoInterceptToo = FALSE
  Callers = {"pred"}
  SelMode = "all"
  WithNA = TRUE
  NAInExpected = FALSE
  ExtraSet <- EX_none
  Export = TRUE
  SampleMod = 8
INVARIANT NoRaise
INVARIANT DisciplineHolds
INVARIANT SameColumns
INVARIANT NonConstant
INVARIANT OneAbsorbed
INVARIANT SeenLevel
INVARIANT UnseenLevel
INVARIANT Centered
INVARIANT OtherPooled
INVARIANT StateCopiesOnlyReporting
CONSTRAINT ExportDone
CHECK_DEADLOCK FALSE
