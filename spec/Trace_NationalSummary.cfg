SPECIFICATION TSpec
CONSTANTS
  KeepContestLevel = TRUE
  RestrictToWinners = TRUE
INVARIANT InjectOK
INVARIANT SigmoidOK
INVARIANT ClientOK
INVARIANT HistoryOK
CONSTRAINT Finished
POSTCONDITION PostOK
CHECK_DEADLOCK FALSE
