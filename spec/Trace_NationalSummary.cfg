SPECIFICATION TSpec
CONSTANTS
  KeepContestLevel = TRUE
  RestrictToWinners = TRUE
INVARIANT InjectOK
INVARIANT ClientOK
INVARIANT HistoryOK
CONSTRAINT Finished
POSTCONDITION PostOK
CHECK_DEADLOCK FALSE
