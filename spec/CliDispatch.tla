----------------------------- MODULE CliDispatch -----------------------------
(***************************************************************************)
(* Supplementary model (no listed property): the command line tool,        *)
(* elexmodel.cli.cli - which objects it builds, which client method it     *)
(* calls with which arguments, in which order, for every combination of    *)
(* the options that change the control flow or the shape of an argument.   *)
(* One action per statement of the function body.                          *)
(*                                                                         *)
(* opt = [historical, national, aggs : Seq, fe : "absent" | "json" |       *)
(*        "name", save : Seq, pis : "absent" | "one", ests : Seq (empty =  *)
(*        option not given), unexpected : Nat, reporting : Nat,            *)
(*        params : "absent" | "literal", lhs : Seq]                        *)
(* calls  = the observable calls, in order, as records [f, args]           *)
(* Named deviation of the code as found:                                   *)
(*   HistoricalPrintsRequestedAggregates  the report loop of a historical  *)
(*     run reads kwargs["aggregates"], which was deleted when no aggregate *)
(*     was given: KeyError after the evaluation was computed               *)
(***************************************************************************)
EXTENDS Integers, Sequences, FiniteSets, TLC

VARIABLES opt, calls, kw, cpc, outcome
cvars == <<opt, calls, kw, cpc, outcome>>

Ests == IF opt.ests = <<>> THEN <<"turnout">> ELSE opt.ests
Pis == IF opt.pis = "absent" THEN <<"0.7", "0.9">> ELSE <<"0.8">>
FixedEffects == CASE opt.fe = "absent" -> [kind |-> "dict", key |-> "-"]
                  [] opt.fe = "json"   -> [kind |-> "dict", key |-> "county_classification"]
                  [] opt.fe = "name"   -> [kind |-> "dict", key |-> "postal_code"]      \* a bare name means {name: ["all"]}
Call(f, a) == [f |-> f, args |-> a]

\* kwargs as the function body leaves them: every option that is not a named parameter, `aggregates` only when given
Prepare ==
  /\ cpc = "prepare"
  /\ kw' = [aggregates |-> IF opt.aggs = <<>> THEN [given |-> FALSE, v |-> <<>>] ELSE [given |-> TRUE, v |-> opt.aggs],
            fixed_effects |-> FixedEffects, save_output |-> opt.save, historical |-> opt.historical,
            national_summary |-> opt.national, unexpected_units |-> opt.unexpected, percent_reporting |-> opt.reporting,
            model_parameters |-> opt.params, lhs_called_contests |-> opt.lhs]
  /\ cpc' = "handler"
  /\ UNCHANGED <<opt, calls, outcome>>
BuildHandler ==
  /\ cpc = "handler"
  /\ calls' = calls \o <<Call("handler", [estimands |-> Ests, historical |-> opt.historical, unexpected |-> opt.unexpected]),
                         Call("shuffle", <<>>), Call("percent_reporting", opt.reporting)>>
  /\ cpc' = IF opt.historical THEN "historical" ELSE "estimates"
  /\ UNCHANGED <<opt, kw, outcome>>
Positional == [estimands |-> Ests, pis |-> Pis, threshold |-> 100, gut |-> "county"]
RunHistorical ==
  /\ cpc = "historical"
  /\ calls' = Append(calls, Call("get_historical_evaluation", [pos |-> Positional, kw |-> kw]))
  \* HistoricalPrintsRequestedAggregates
  /\ IF kw.aggregates.given THEN cpc' = "done" /\ outcome' = "ok" ELSE cpc' = "done" /\ outcome' = "KeyError"
  /\ UNCHANGED <<opt, kw>>
RunEstimates ==
  /\ cpc = "estimates"
  /\ calls' = Append(calls, Call("get_estimates", [pos |-> Positional, kw |-> kw]))
  /\ cpc' = IF opt.national THEN "national" ELSE "done"
  /\ outcome' = IF opt.national THEN outcome ELSE "ok"
  /\ UNCHANGED <<opt, kw>>
NationalSummary ==
  /\ cpc = "national"
  /\ calls' = Append(calls, Call("get_national_summary_votes_estimates", <<"None", "0", "0.99">>))
  /\ cpc' = "done" /\ outcome' = "ok"
  /\ UNCHANGED <<opt, kw>>
CNext == Prepare \/ BuildHandler \/ RunHistorical \/ RunEstimates \/ NationalSummary
CInitRest == calls = <<>> /\ kw = <<>> /\ cpc = "prepare" /\ outcome = "running"

CDone == cpc = "done"
Fs == {calls[k].f : k \in DOMAIN calls}
\* properties
ExactlyOneClientCall ==
  CDone => Cardinality({k \in DOMAIN calls : calls[k].f \in {"get_estimates", "get_historical_evaluation"}}) = 1
HistoricalIffFlag == CDone => (("get_historical_evaluation" \in Fs) = opt.historical)
SummaryOnlyAfterLiveEstimates ==
  CDone => (("get_national_summary_votes_estimates" \in Fs) = (opt.national /\ ~opt.historical))
FeedBuiltBeforeTheClientCall ==
  CDone => /\ calls[1].f = "handler" /\ calls[2].f = "shuffle" /\ calls[3].f = "percent_reporting"
           /\ calls[4].f \in {"get_estimates", "get_historical_evaluation"}
EveryOptionReachesTheClient ==
  CDone => LET a == calls[4].args IN
           /\ a.pos.estimands = Ests /\ a.pos.pis = Pis
           /\ a.kw.save_output = opt.save /\ a.kw.lhs_called_contests = opt.lhs /\ a.kw.model_parameters = opt.params
           /\ (a.kw.aggregates.given => a.kw.aggregates.v = opt.aggs)
\* finding demonstration
HistoricalRunAlwaysReports == CDone => outcome = "ok"
=============================================================================
