SPECIFICATION Spec
CONSTANTS
  N = 2
  Vals = {0, 2, 3}
INVARIANT WithinIsAShare
INVARIANT MaeNonNegative
INVARIANT AllIsUnionOfGroups
INVARIANT PerfectPredictionZeroError
CONSTRAINT ExportDone
CHECK_DEADLOCK FALSE
