SPECIFICATION Spec
INVARIANT FirstFailureDecides
INVARIANT UnknownEstimandAccepted
INVARIANT ForeignParamIgnored
CONSTRAINT ExportDone
CHECK_DEADLOCK FALSE
