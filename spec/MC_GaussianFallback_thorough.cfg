SPECIFICATION Spec
CONSTANTS
  LeafKeys <- LK_2x3
  CalVals <- CV_Thin
  Ls <- L_12
  Export = FALSE
  Canonical = TRUE
  Variant = "code"
INVARIANT ExactlyOne
INVARIANT RightPool
INVARIANT NoSibling
INVARIANT FloorAligned
INVARIANT NoError
INVARIANT NoDuplicateRows
INVARIANT LargeCallFits
INVARIANT ModelKeysDistinct
INVARIANT ThresholdIsGlobal
CHECK_DEADLOCK FALSE
